/* C02 -- event API state machine vs a reference model of the documented behaviour.
 *
 * Two events whose kinds are fixed per obligation (C02_KIND0/1: timer, persistent timer,
 * I/O, persistent I/O, persistent signal) on a constructed base with 2 priorities, a
 * recording back end that may refuse add/del, and the virtual clock.  A history of C02_LEN
 * API calls is chosen BY THE SOLVER, one call at a time, from
 *     add(NULL) add(tv) del active(res,ncalls) remove_timer priority_set(p) loop(clock += d)
 * (tv from {0,1 s} / {1 s,2 s} for persistent, d from {0, 2 s}: choices, so that heap
 * positions stay concrete -- deadline arithmetic is C01's job; res, ncalls, p, back end
 * refusals are free).  The history is explored as a tree: after every call the rest of the
 * history runs INSIDE the branch that made the choice (run() recursion), so states of
 * different histories are never merged (merged ev_flags make symex walk every list
 * operation of the event core, DESIGN 3.9).
 * After every call: event_pending (all flags + reported expiry), event_initialized,
 * event_base_get_num_events / get_max_events, callbacks (order, result flags, count) are
 * compared with the model and event_base_assert_ok_nolock_() runs with asserts live.
 */
#ifdef C02_NOUNION
/* struct event's three unions laid out as structs (env/event_struct_nounion.h, shared with group B):
 * lifts the cbmc limitation described in run(); sound because the library never writes one member
 * of these unions and reads another (see that header); nothing here is a claim about layout */
#include "event_struct_nounion.h"
#endif
#include "vp.h"
#include "log_stub.h"
#include "locks.h"
#define VP_HAVE_EVENT_C
#include "alloc.h"
#include "event.c"
#include "evmap.c"      /* included (not linked) so that evmap_make_space is reachable */
#include "evbase.h"

enum { K_TIMER, K_TIMER_P, K_IO, K_IO_P, K_SIG_P, K_CTIMER /* timer using event_base_init_common_timeout durations (C01e): supported by the model, but NOT used by any obligation -- cbmc cannot fold struct event's ev_timeout_pos union once both members were written (measured, see props/C01.py) */ };
#ifndef C02_KIND0
#define C02_KIND0 K_TIMER
#endif
#ifndef C02_KIND1
#define C02_KIND1 K_IO_P
#endif
#ifndef C02_LEN
#define C02_LEN 2
#endif
#define NPRI 2
#define ALLEV (EV_TIMEOUT | EV_READ | EV_WRITE | EV_SIGNAL | EV_CLOSED)

static struct event_base *base;
static struct event E0, E1;
static struct event *const evp[2] = { &E0, &E1 };
static const int kind[2] = { C02_KIND0, C02_KIND1 };

/* ---- reference model ---------------------------------------------------- */
struct mev {
	short events;          /* EV_READ / EV_SIGNAL / 0, | EV_PERSIST */
	int inserted, has_to, active, pri;
	short res; short ncalls;
	struct timeval deadline, interval;
	long seq;              /* activation order */
	long to_seq; int to_queue; /* common-timeout queue (-1: heap) and insertion order into it */
};
static struct mev m[2];
static int m_count, m_count_max, m_active, m_active_max;
static long m_seq;
struct cbrec { int ev; short res; };
#define MAXCB 8
static struct cbrec got[MAXCB], want[MAXCB];
static int ngot, nwant, m_tie;

static void inc(void) { m_count++; if (m_count > m_count_max) m_count_max = m_count; }
static void dec(void) { m_count--; }
static void inc_active(void) { m_active++; if (m_active > m_active_max) m_active_max = m_active; }
static struct timeval t_add(struct timeval a, struct timeval b)
{
	struct timeval r; r.tv_sec = a.tv_sec + b.tv_sec; r.tv_usec = a.tv_usec + b.tv_usec;
	if (r.tv_usec >= 1000000) { r.tv_sec++; r.tv_usec -= 1000000; }
	return r;
}
static int t_le(struct timeval a, struct timeval b) { return a.tv_sec < b.tv_sec || (a.tv_sec == b.tv_sec && a.tv_usec <= b.tv_usec); }
static int t_lt(struct timeval a, struct timeval b) { return a.tv_sec < b.tv_sec || (a.tv_sec == b.tv_sec && a.tv_usec < b.tv_usec); }
static int is_io(int k) { return (m[k].events & (EV_READ | EV_SIGNAL)) != 0; }
static int persist(int k) { return (m[k].events & EV_PERSIST) != 0; }

static void m_activate(int k, short res, short ncalls)
{
	if (m[k].active) { m[k].res |= res; return; }
	m[k].active = 1; m[k].res = res; m[k].seq = m_seq++;
	if (m[k].events & EV_SIGNAL) m[k].ncalls = ncalls;
	inc(); inc_active();
}
static void m_deactivate(int k) { if (m[k].active) { m[k].active = 0; dec(); m_active--; } }
static void m_del(int k)
{
	if (m[k].has_to) { m[k].has_to = 0; dec(); }
	m_deactivate(k);
	if (m[k].inserted) { m[k].inserted = 0; dec(); }
}
/* documented: after event_add() returns 0 the event is pending on its I/O / signal events
 * and (if a timeout was given) on the timeout, which replaces any previous one */
static int m_queue_of_next_add = -1; static long m_to_seq;
static int m_add(int k, const struct timeval *tv, int absolute, int backend_refuses)
{
	if (is_io(k) && !m[k].inserted) {
		if (backend_refuses) return -1;
		m[k].inserted = 1; inc();
	}
	if (tv) {
		if (persist(k) && !absolute) m[k].interval = *tv;
		if (m[k].has_to) { m[k].has_to = 0; dec(); }
		if (m[k].active && (m[k].res & EV_TIMEOUT)) m_deactivate(k);   /* re-adding a timed-out event cancels the pending timeout callback */
		m[k].deadline = absolute ? *tv : t_add(vp_now, *tv);
		m[k].has_to = 1; inc();
		m[k].to_queue = m_queue_of_next_add; m[k].to_seq = m_to_seq++;
	}
	return 0;
}
/* one event_base_loop(EVLOOP_NONBLOCK) with nothing reported by the back end */
/* head of common-timeout queue qi: the member inserted first (FIFO) */
static int m_qhead(int qi)
{
	int k, h = -1;
	for (k = 0; k < 2; k++) if (m[k].has_to && m[k].to_queue == qi && (h < 0 || m[k].to_seq < m[h].to_seq)) h = k;
	return h;
}
static void m_expire(int k)
{
	if (!m[k].active) { m_del(k); m_activate(k, EV_TIMEOUT, 1); }
	else { m[k].has_to = 0; dec(); m[k].res |= EV_TIMEOUT; }     /* already active: keeps its result flags, gains EV_TIMEOUT */
}
static int m_loop(void)
{
	/* iq_*: the internal timer event of each common-timeout queue (priority 0, not counted as
	 * an added event, but it is an active callback while queued) */
	int iq_active[2] = { 0, 0 }; long iq_seq[2] = { 0, 0 };
	int round, k, j, qi, p;
	for (round = 0; round < NPRI + 3; round++) {
		int any = 0;
		if (m_count == 0) return 1;          /* nothing pending or active: the loop exits with 1 */
		/* expiry (timeout_process): heap entries = ordinary timers and one internal timer per
		 * non-empty queue (deadline of the queue head), earliest deadline first */
		for (j = 0; j < 4; j++) {
			int best = -1, bestq = -1; struct timeval bd = { 0, 0 };
			for (k = 0; k < 2; k++)
				if (m[k].has_to && m[k].to_queue < 0 && t_le(m[k].deadline, vp_now) && (best < 0 || t_lt(m[k].deadline, bd))) { best = k; bd = m[k].deadline; }
			for (qi = 0; qi < 2; qi++) {
				int h = m_qhead(qi);
				if (h >= 0 && !iq_active[qi] && t_le(m[h].deadline, vp_now) && ((best < 0 && bestq < 0) || t_lt(m[h].deadline, bd))) { bestq = qi; best = -1; bd = m[h].deadline; }
			}
			if (best < 0 && bestq < 0) break;
			/* equal deadlines among heap entries: their relative order is unspecified */
			for (k = 0; k < 2; k++)
				if (k != best && m[k].has_to && m[k].to_queue < 0 && t_le(m[k].deadline, vp_now) && !t_lt(bd, m[k].deadline) && !t_lt(m[k].deadline, bd)) m_tie = 1;
			for (qi = 0; qi < 2; qi++) {
				int h = m_qhead(qi);
				if (qi != bestq && h >= 0 && !iq_active[qi] && !t_lt(bd, m[h].deadline) && !t_lt(m[h].deadline, bd)) m_tie = 1;
			}
			if (bestq >= 0) { iq_active[bestq] = 1; iq_seq[bestq] = m_seq++; inc_active(); }
			else m_expire(best);
		}
		/* run priority levels in ascending order; stop after the first level in which a
		 * non-internal callback ran */
		for (p = 0; p < NPRI; p++) {
			int ran = 0;
			for (j = 0; j < 6; j++) {
				int best = -1, bestq = -1; long bs = 0; short res; int n, c;
				for (k = 0; k < 2; k++)
					if (m[k].active && m[k].pri == p && ((best < 0 && bestq < 0) || m[k].seq < bs)) { best = k; bs = m[k].seq; }
				if (p == 0) for (qi = 0; qi < 2; qi++)
					if (iq_active[qi] && ((best < 0 && bestq < 0) || iq_seq[qi] < bs)) { bestq = qi; best = -1; bs = iq_seq[qi]; }
				if (best < 0 && bestq < 0) break;
				any = 1;
				if (bestq >= 0) {
					/* common_timeout_callback: every due member of the queue, in FIFO order */
					int h, g;
					iq_active[bestq] = 0; m_active--;
					for (g = 0; g < 2; g++) { h = m_qhead(bestq); if (h < 0 || !t_le(m[h].deadline, vp_now)) break; m_expire(h); }
					continue;
				}
				res = m[best].res;
				if (persist(best)) {
					m_deactivate(best);
					if (m[best].interval.tv_sec || m[best].interval.tv_usec) {
						struct timeval at = t_add((res & EV_TIMEOUT) ? m[best].deadline : vp_now, m[best].interval);
						if (t_lt(at, vp_now)) at = t_add(vp_now, m[best].interval);
						m_queue_of_next_add = -1;
						m_add(best, &at, 1, 0);
					}
				} else {
					m_del(best);
				}
				n = (m[best].events & EV_SIGNAL) ? m[best].ncalls : 1;
				for (c = 0; c < n; c++) { if (nwant < MAXCB) { want[nwant].ev = best; want[nwant].res = res; } nwant++; }
				ran++;
			}
			if (ran) break;
		}
		if (!any) return 0;
	}
	return 0;
}

/* ---- observation --------------------------------------------------------- */
static void cb(evutil_socket_t fd, short res, void *arg)
{
	int k;
	(void)fd;
	for (k = 0; k < 2; k++) if (arg == (void *)evp[k]) {
		if (ngot < MAXCB) { got[ngot].ev = k; got[ngot].res = res; }
		ngot++;
	}
}
static void observe(void)
{
	int k, i;
	for (k = 0; k < 2; k++) {
		struct timeval tv = { -1, -1 };
		short want_flags = 0;
		int r;
		if (m[k].inserted) want_flags |= m[k].events & (EV_READ | EV_WRITE | EV_CLOSED | EV_SIGNAL);
		if (m[k].active) want_flags |= m[k].res;
		if (m[k].has_to) want_flags |= EV_TIMEOUT;
		r = event_pending(evp[k], ALLEV, &tv);
		VP_ASSERT(r == (want_flags & ALLEV), "C02: event_pending differs from the reference model");
		if (m[k].has_to) {
			/* reported on the wall clock: deadline + the base's (wall - monotonic) offset */
			struct timeval d = t_add(base->tv_clock_diff, m[k].deadline);
			VP_ASSERT(tv.tv_sec == d.tv_sec && tv.tv_usec == d.tv_usec, "C02: expiry time reported by event_pending differs from the model deadline");
		} else if (!(want_flags & EV_TIMEOUT)) {   /* (active with EV_TIMEOUT: the library reports the stale deadline; unspecified) */
			VP_ASSERT(tv.tv_sec == -1 && tv.tv_usec == -1, "C02: event_pending must not report an expiry time for an event without timeout");
		}
		VP_ASSERT(event_initialized(evp[k]) == 1, "C02: event_initialized");
		VP_ASSERT(event_get_priority(evp[k]) == m[k].pri, "C02: event priority differs from the model");
	}
	VP_ASSERT(event_base_get_num_events(base, EVENT_BASE_COUNT_ACTIVE) == m_active, "C02: number of active events differs from the model");
	VP_ASSERT(event_base_get_num_events(base, EVENT_BASE_COUNT_ADDED) == m_count, "C02: number of added events (list memberships) differs from the model");
	VP_ASSERT(event_base_get_num_events(base, EVENT_BASE_COUNT_VIRTUAL) == 0, "C02: virtual event count");
	VP_ASSERT(event_base_get_num_events(base, EVENT_BASE_COUNT_ACTIVE | EVENT_BASE_COUNT_ADDED) == m_active + m_count, "C02: combined count");
	VP_ASSERT(event_base_get_max_events(base, EVENT_BASE_COUNT_ACTIVE, 0) == m_active_max, "C02: max active events differs from the model");
	VP_ASSERT(event_base_get_max_events(base, EVENT_BASE_COUNT_ADDED, 0) == m_count_max, "C02: max added events differs from the model");
	VP_ASSERT(ngot == nwant && ngot <= MAXCB, "C02: number of callbacks invoked differs from the model");
	for (k = 0; k < 2; k++) {
		int ig = 0, iw = 0;        /* per event: same number of callbacks with the same result flags, in order */
		for (;;) {
			while (ig < MAXCB && ig < ngot && got[ig].ev != k) ig++;
			while (iw < MAXCB && iw < nwant && want[iw].ev != k) iw++;
			if (!(ig < MAXCB && ig < ngot) || !(iw < MAXCB && iw < nwant)) break;
			VP_ASSERT(got[ig].res == want[iw].res, "C02: callback result flags differ from the model");
			ig++; iw++;
		}
		VP_ASSERT(!(ig < MAXCB && ig < ngot) && !(iw < MAXCB && iw < nwant), "C02: an event's callback count differs from the model");
	}
	if (!m_tie)        /* equal deadlines: either order is correct */
		for (i = 0; i < MAXCB; i++) if (i < ngot && i < nwant)
			VP_ASSERT(got[i].ev == want[i].ev, "C02: callback order differs from the model (priority, then activation order)");
	EVBASE_ACQUIRE_LOCK(base, th_base_lock);
	event_base_assert_ok_nolock_(base);
	EVBASE_RELEASE_LOCK(base, th_base_lock);
	VP_ASSERT_NO_LOCKS("an event API call");
}

/* ---- the history tree ----------------------------------------------------- */
static const struct timeval TV[3] = { { 0, 0 }, { 1, 0 }, { 2, 0 } };
static const struct timeval *ctv[2];   /* common-timeout handles for 1 s and 2 s */
static int n_leaves_add_tv, n_leaves_loop_cb, n_refused;

#define C02_NSEL 26
#ifndef C02_SELMIN
#define C02_SELMIN 0
#endif
#ifndef C02_SELMAX
#define C02_SELMAX (C02_NSEL - 1)
#endif
#ifndef C02_PREFIX
#define C02_PREFIX_LEN 0
static const int c02_prefix[1] = { 0 };
#else
static const int c02_prefix[] = { C02_PREFIX };
#define C02_PREFIX_LEN ((int)(sizeof(c02_prefix) / sizeof(c02_prefix[0])))
#endif
static void run(int depth);
static void op_add(int k, int tvi, int depth)
{
	int refuse = 0, r;
	const struct timeval *tv = tvi < 0 ? NULL : &TV[tvi + ((persist(k) || kind[k] == K_CTIMER) ? 1 : 0)];
	const struct timeval *tv_arg = (tv && kind[k] == K_CTIMER) ? ctv[tvi] : tv;   /* same duration, with the common-timeout tag */
	m_queue_of_next_add = (tv && kind[k] == K_CTIMER) ? tvi : -1;
	if (is_io(k) && !m[k].inserted) refuse = vp_bool();
	/* branch on the back end's answer BEFORE the call, so that inside each branch the library
	 * runs with a concrete answer and nothing is merged; the rest of the history runs inside */
	if (refuse) {
		vp_be_fail_add = 1; vp_sig_fail = 1;
		r = event_add(evp[k], tv_arg);
		vp_be_fail_add = 0; vp_sig_fail = 0;
		VP_ASSERT(r == -1, "C02: event_add must fail when the back end refuses the registration");
		VP_ASSERT(m_add(k, tv, 0, 1) == -1, "C02: model");
		n_refused++;
		observe(); run(depth + 1);
	} else {
		r = event_add(evp[k], tv_arg);
		VP_ASSERT(r == 0, "C02: event_add must succeed");
		m_add(k, tv, 0, 0);
		if (tv) n_leaves_add_tv++;
		observe(); run(depth + 1);
	}
}
static void op_del(int k, int depth)
{
	int r = event_del(evp[k]);
	VP_ASSERT(r == 0, "C02: event_del succeeds");
	m_del(k);
	observe(); run(depth + 1);
}
static void op_active(int k, short res, short ncalls, int depth)
{
	event_active(evp[k], res, ncalls);
	m_activate(k, res, ncalls);
	observe(); run(depth + 1);
}
static void op_rmtimer(int k, int depth)
{
	int r = event_remove_timer(evp[k]);
	VP_ASSERT(r == 0, "C02: event_remove_timer succeeds");
	if (m[k].has_to) { m[k].has_to = 0; dec(); m[k].interval.tv_sec = 0; m[k].interval.tv_usec = 0; }
	observe(); run(depth + 1);
}
static void op_prio(int k, int p, int depth)
{
	int r = event_priority_set(evp[k], p);
	if (m[k].active) {
		VP_ASSERT(r == -1, "C02: event_priority_set must fail on an active event");
	} else {
		VP_ASSERT(r == 0, "C02: event_priority_set succeeds on an inactive event");
		m[k].pri = p;
	}
	observe(); run(depth + 1);
}
static void op_loop(int dsec, int depth)
{
	int r, mr;
	vp_now.tv_sec += dsec;
	r = event_base_loop(base, EVLOOP_NONBLOCK);
	mr = m_loop();
	VP_ASSERT(r == mr, "C02: event_base_loop must return 1 exactly when it stopped because nothing was pending or active");
	if (nwant > 0) n_leaves_loop_cb++;
	observe(); run(depth + 1);
}
#define PER_EVENT(CALL) do { if (k == 0) { enum { K = 0 }; CALL; } else { enum { K = 1 }; CALL; } } while (0)
static void run(int depth)
{
	int op, k;
	if (depth >= C02_LEN) {
		if (n_leaves_add_tv) VP_WITNESS("history with a timed add");
#ifdef C02_EXPECT_CB
		if (n_leaves_loop_cb) VP_WITNESS("history in which a callback ran");
#endif
#ifdef C02_HAS_IO
		if (n_refused) VP_WITNESS("history with a refused registration");
#endif
		VP_WITNESS("history complete");
		return;
	}
	/* selector: 12 calls per event x 2 events + 2 loop calls = 26 alternatives.  The first
	 * C02_PREFIX_LEN calls are fixed by the obligation (the driver enumerates all of them), the
	 * remaining ones are chosen by the solver. */
	op = depth < C02_PREFIX_LEN ? c02_prefix[depth] : (int)vp_range(C02_SELMIN, C02_SELMAX);
	k = op >= 12 && op < 24;
	/* cbmc limitation (measured): struct event keeps {ev_io_next, ev_io_timeout} and
	 * {ev_signal_next, ev_ncalls, ev_pncalls} in a union; once two members of it have been
	 * written, reads of the first are byte_extract(byte_update(byte_update(..))) terms that
	 * the simplifier does not fold and symex walks every infeasible list operation.  So a
	 * persistent I/O event is never given a timeout and a signal event is never activated by
	 * hand in these histories (stated in OUT); all other combinations are explored. */
	if (op < 24) {
		int o = op % 12;
#ifndef C02_NOUNION
		if (kind[k] == K_IO_P) __CPROVER_assume(o != 1 && o != 2);
		if (kind[k] == K_SIG_P) __CPROVER_assume(o < 4 || o > 8);
#endif
#ifndef KF_ONLY_sigtimeout
		/* known finding KF-C02-signal-timeout-drops-persistent-signal: a persistent signal event
		 * that is given a timeout is deleted (signal registration included) when the timeout
		 * fires; excluded here, confirmed to still fail by obligation kf_sigtimeout */
		if (kind[k] == K_SIG_P) __CPROVER_assume(o != 1 && o != 2);
#endif
	}
	switch (op < 24 ? op % 12 : op - 12) {
	case 0: PER_EVENT(op_add(K, -1, depth)); break;
	case 1: PER_EVENT(op_add(K, 0, depth)); break;
	case 2: PER_EVENT(op_add(K, 1, depth)); break;
	case 3: PER_EVENT(op_del(K, depth)); break;
	/* result flags and ncalls are alternatives too: each branch runs the library with concrete
	 * values (a symbolic ev_res makes event_add's "active because of a timeout?" test symbolic) */
	case 4: PER_EVENT(op_active(K, EV_READ, 1, depth)); break;
	case 5: PER_EVENT(op_active(K, EV_READ, 2, depth)); break;
	case 6: PER_EVENT(op_active(K, EV_TIMEOUT, 1, depth)); break;
	case 7: PER_EVENT(op_active(K, EV_READ | EV_WRITE | EV_TIMEOUT, 1, depth)); break;
	case 8: PER_EVENT(op_active(K, 0, 1, depth)); break;
	case 9: PER_EVENT(op_rmtimer(K, depth)); break;
	case 10: PER_EVENT(op_prio(K, 0, depth)); break;
	case 11: PER_EVENT(op_prio(K, 1, depth)); break;
	case 12: op_loop(0, depth); break;
	default: op_loop(2, depth); break;
	}
}

void harness_history(void)
{
	int k;
	base = vp_base_new(NPRI, 1);
	k = min_heap_reserve_(&base->timeheap, 4);
	__CPROVER_assume(k == 0);
	for (k = 0; k < 2; k++) {
		short events = 0; evutil_socket_t fd = -1;
		switch (kind[k]) {
		case K_TIMER: break;
		case K_TIMER_P: events = EV_PERSIST; break;
		case K_IO: events = EV_READ; fd = 5 + k; break;
		case K_IO_P: events = EV_READ | EV_PERSIST; fd = 5 + k; break;
		case K_CTIMER: break;
		default: events = EV_SIGNAL | EV_PERSIST; fd = 10 + k; break;
		}
		VP_ASSERT(event_assign(evp[k], base, fd, events, cb, evp[k]) == 0, "C02: event_assign");
		m[k].events = events; m[k].pri = NPRI / 2;
	}
	/* the fd and signal tables are sized once, before the tree (their growth inside every
	 * branch costs 20x in formula size); same call evmap_io_add_/evmap_signal_add_ would make */
	k = evmap_make_space(&base->io, 8, sizeof(struct evmap_io *));
	__CPROVER_assume(k == 0);
	k = evmap_make_space(&base->sigmap, 12, sizeof(struct evmap_signal *));
	__CPROVER_assume(k == 0);
	if (kind[0] == K_CTIMER || kind[1] == K_CTIMER) {
		ctv[0] = event_base_init_common_timeout(base, &TV[1]);
		ctv[1] = event_base_init_common_timeout(base, &TV[2]);
		VP_ASSERT(ctv[0] != NULL && ctv[1] != NULL && ctv[0] != ctv[1], "C01: event_base_init_common_timeout");
		VP_ASSERT(ctv[0]->tv_sec == 1 && (ctv[0]->tv_usec & COMMON_TIMEOUT_MICROSECONDS_MASK) == 0, "C01: common timeout keeps its duration");
	}
	observe();
	run(0);
}
