/* C44 -- listener.c: the accept loop, enable/disable/set_cb/free (also from inside the callbacks).
 *
 * Unit: the real listener.c (#included, statics reachable).  NOT part of the unit, replaced by contract stubs:
 *   - the event core: event_assign/event_add/event_del are recording stubs for the ONE event the listener owns
 *     ("pending" flag; what add/del mean is C02's subject).  The harness plays the event loop: it invokes the
 *     recorded callback iff the event is pending.
 *   - evutil_accept4_(): a solver-chosen sequence of results (kernel contract, see vp_accept below)
 *   - evutil_closesocket(): recording fd table
 *   - socket/bind/listen/setsockopt helpers for evconnlistener_new_bind: each fails by solver choice
 * Everything symbolic goes through vp.h.
 */
#include "vp.h"
#include "log_stub.h"
#include "locks.h"
#include "alloc.h"
#include <sys/types.h>
#include <sys/socket.h>
#include <errno.h>
#include <string.h>
#include "event2/event.h"
#include "event2/event_struct.h"
#include "event2/listener.h"
#include "util-internal.h"

#ifndef VP_NACC
#define VP_NACC 3            /* successful accepts per history */
#endif
#define VP_ADDRMAX 16        /* sizeof(struct sockaddr_in) */
#define VP_LISTEN_FD 7
#define VP_FD0 20            /* accepted fds are VP_FD0, VP_FD0+1, ... (the kernel never hands out an open fd twice) */

/* ---- libc entry points used by evconnlistener_new/new_bind ---------------------------------------------------- */
static int vp_listen_calls, vp_listen_backlog, vp_bind_calls;
static int vp_sys_may_fail;              /* harness switch: setup calls fail by solver choice */
static int vp_sys_fail(void) { return vp_sys_may_fail && vp_bool(); }
static int vp_listen(int fd, int backlog) { (void)fd; vp_listen_calls++; vp_listen_backlog = backlog; if (vp_sys_fail()) { errno = EADDRINUSE; return -1; } return 0; }
static int vp_bind(int fd, const struct sockaddr *sa, socklen_t len) { (void)fd; (void)sa; (void)len; vp_bind_calls++; if (vp_sys_fail()) { errno = EADDRINUSE; return -1; } return 0; }
#define listen(fd, b) vp_listen((fd), (b))
#define bind(fd, sa, l) vp_bind((fd), (sa), (l))

#include "listener.c"

/* ---- fd table ------------------------------------------------------------------------------------------------- */
static int vp_listen_closed;             /* close() calls on the listening socket */
static int vp_acc_n;                     /* successful accepts so far */
static int vp_acc_calls;                 /* accept calls so far */
static int vp_acc_last_errno;            /* 0: last accept call succeeded; otherwise its errno */
static int vp_acc_closed[VP_NACC], vp_acc_delivered[VP_NACC];
static socklen_t vp_acc_len[VP_NACC];
static unsigned char vp_acc_addr[VP_NACC][VP_ADDRMAX];
static int vp_other_closed;              /* close() of an fd that is neither: must stay 0 */
static int vp_sock_created, vp_sock_fd_closed;

int evutil_closesocket(evutil_socket_t s)
{
	int i;
	if (s == VP_LISTEN_FD) { vp_listen_closed++; return 0; }
	for (i = 0; i < VP_NACC; i++)
		if (s == VP_FD0 + i) { vp_acc_closed[i]++; return 0; }
	vp_other_closed++;
	return 0;
}

/* ---- the one event ---------------------------------------------------------------------------------------------- */
static struct event *vp_ev; static int vp_ev_pending, vp_ev_fd; static short vp_ev_events;
static void (*vp_ev_cb)(evutil_socket_t, short, void *); static void *vp_ev_arg;
static int vp_ev_add_calls, vp_ev_del_calls, vp_ev_unassigned;
static int vp_ev_add_may_fail;
static struct event_base *vp_the_base;
int event_assign(struct event *ev, struct event_base *base, evutil_socket_t fd, short events, event_callback_fn cb, void *arg)
{
	VP_ASSERT(vp_ev == NULL, "harness: one event per listener");
	vp_ev = ev; vp_ev_fd = fd; vp_ev_events = events; vp_ev_cb = cb; vp_ev_arg = arg; vp_ev_pending = 0;
	ev->ev_base = base; ev->ev_fd = fd;
	return 0;
}
int event_add(struct event *ev, const struct timeval *tv)
{
	VP_ASSERT(ev == vp_ev && !vp_ev_unassigned, "C44: event_add on an event the listener does not own (any more)");
	VP_ASSERT(tv == NULL, "C44: the accept event has no timeout");
	vp_ev_add_calls++;
	if (vp_ev_add_may_fail && vp_bool()) return -1;
	vp_ev_pending = 1;
	return 0;
}
int event_del(struct event *ev)
{
	VP_ASSERT(ev == vp_ev && !vp_ev_unassigned, "C44: event_del on an event the listener does not own (any more)");
	vp_ev_del_calls++;
	vp_ev_pending = 0;
	return 0;
}
evutil_socket_t event_get_fd(const struct event *ev) { VP_ASSERT(ev == vp_ev, "harness: foreign event"); return vp_ev_fd; }
struct event_base *event_get_base(const struct event *ev) { VP_ASSERT(ev == vp_ev, "harness: foreign event"); return vp_the_base; }
void event_debug_unassign(struct event *ev) { VP_ASSERT(ev == vp_ev, "harness: foreign event"); VP_ASSERT(!vp_ev_pending, "C44: listener event unassigned while still pending"); vp_ev_unassigned++; }

/* ---- harness view of the listener --------------------------------------------------------------------------------- */
static struct evconnlistener *g_lev;
static unsigned g_flags;
static int g_enabled;        /* what the application asked for: last enable/disable (initially !LEV_OPT_DISABLED) */
static int g_cbsel;          /* 0: no callback, 1: user_cb with g_arg1, 2: user_cb2 with g_arg2 */
static int g_errcb_set;
static int g_freed;          /* evconnlistener_free() was called */
static int g_in_cb;          /* depth of user callbacks */
static int g_cb_calls, g_errcb_calls;
static int g_arg1, g_arg2;
static void *g_uarg;         /* the user pointer currently installed */
static int g_expect_acc_flags;

static void user_cb(struct evconnlistener *, evutil_socket_t, struct sockaddr *, int, void *);
static void user_cb2(struct evconnlistener *, evutil_socket_t, struct sockaddr *, int, void *);
static void user_errcb(struct evconnlistener *, void *);

/* ---- accept: kernel contract -------------------------------------------------------------------------------------
 * each call, by solver choice: a new connection (fresh fd, *addrlen in 0..16 -- 0 is the "old kernels / nmap" case the
 * code mentions --, address bytes arbitrary), or -1 with errno in {EAGAIN, EINTR, ECONNABORTED, EMFILE, ENFILE,
 * ENOMEM, EBADF}.  After VP_NACC connections the backlog is empty (-1/EAGAIN-or-other error). */
evutil_socket_t evutil_accept4_(evutil_socket_t sockfd, struct sockaddr *addr, ev_socklen_t *addrlen, int flags)
{
	unsigned k; int i, e;
	vp_acc_calls++;
	VP_ASSERT(!g_freed, "C44: accept() after the listener was freed");
	VP_ASSERT(g_enabled, "C44: accept() while the listener is disabled");
	VP_ASSERT(sockfd == VP_LISTEN_FD, "C44: accept() on a socket that is not the listening socket");
	VP_ASSERT(flags == g_expect_acc_flags, "C44: accept4 flags do not match LEV_OPT_LEAVE_SOCKETS_BLOCKING / LEV_OPT_CLOSE_ON_EXEC");
	VP_ASSERT(*addrlen >= VP_ADDRMAX, "C44: address buffer offered to accept() is too small");
	if (vp_acc_n < VP_NACC && vp_bool()) {
		socklen_t len = (socklen_t)vp_range(0, VP_ADDRMAX);
		i = vp_acc_n++;
		vp_acc_len[i] = len;
		for (k = 0; k < VP_ADDRMAX; k++) {
			unsigned char b = vp_u8();
			vp_acc_addr[i][k] = b;
			if (k < len) ((unsigned char *)addr)[k] = b;
		}
		*addrlen = len;
		vp_acc_last_errno = 0;
		return VP_FD0 + i;
	}
	k = (unsigned)vp_range(0, 6);
	e = k == 0 ? EAGAIN : k == 1 ? EINTR : k == 2 ? ECONNABORTED : k == 3 ? EMFILE : k == 4 ? ENFILE : k == 5 ? ENOMEM : EBADF;
	errno = e;
	vp_acc_last_errno = e;
	return -1;
}
static int vp_retriable(int e) { return e == EAGAIN || e == EINTR || e == ECONNABORTED; }

/* ---- setup-call stubs (evconnlistener_new_bind) ----------------------------------------------------------------- */
static int vp_opt_calls;
evutil_socket_t evutil_socket_(int domain, int type, int protocol)
{
	(void)domain; (void)type; (void)protocol;
	if (vp_sys_fail()) { errno = EMFILE; return -1; }
	vp_sock_created++;
	return VP_LISTEN_FD;
}
static int vp_opt(evutil_socket_t fd) { VP_ASSERT(fd == VP_LISTEN_FD && vp_listen_closed == 0, "C44: socket option on a closed/foreign socket"); vp_opt_calls++; if (vp_sys_fail()) { errno = EINVAL; return -1; } return 0; }
int evutil_set_tcp_keepalive(evutil_socket_t fd, int on, int timeout) { (void)on; (void)timeout; return vp_opt(fd); }
int evutil_make_listen_socket_reuseable(evutil_socket_t fd) { return vp_opt(fd); }
int evutil_make_listen_socket_reuseable_port(evutil_socket_t fd) { return vp_opt(fd); }
int evutil_make_tcp_listen_socket_deferred(evutil_socket_t fd) { return vp_opt(fd); }
int evutil_make_listen_socket_ipv6only(evutil_socket_t fd) { return vp_opt(fd); }
int evutil_make_listen_socket_not_ipv6only(evutil_socket_t fd) { return vp_opt(fd); }

/* ---- application actions ------------------------------------------------------------------------------------------- */
enum { A_NONE = 0, A_DISABLE, A_ENABLE, A_FREE, A_CLEARCB, A_SETCB1, A_SETCB2, A_DIS_EN, A_CLRERR, A_N };
static void do_free(void)
{
	g_freed = 1;
	evconnlistener_free(g_lev);
}
/* one API call chosen by the solver; `allow_free`: the listener may be freed here */
static void app_action(unsigned a, int allow_free)
{
	int r;
	if (g_freed) return;
	switch (a) {
	case A_DISABLE:
		g_enabled = 0; r = evconnlistener_disable(g_lev);
		VP_ASSERT(r == 0, "C44: evconnlistener_disable failed");
		VP_ASSERT(!vp_ev_pending, "C44: accept event still pending after evconnlistener_disable");
		break;
	case A_ENABLE:
		g_enabled = 1; r = evconnlistener_enable(g_lev);
		VP_ASSERT((r == 0) == (g_cbsel == 0 || vp_ev_pending), "C44: evconnlistener_enable result does not tell whether the listener listens");
		break;
	case A_FREE:
		if (allow_free) do_free();
		break;
	case A_CLEARCB:
		g_cbsel = 0; g_uarg = NULL; evconnlistener_set_cb(g_lev, NULL, NULL);
		break;
	case A_SETCB1:
		g_cbsel = 1; g_uarg = &g_arg1; evconnlistener_set_cb(g_lev, user_cb, &g_arg1);
		break;
	case A_SETCB2:
		g_cbsel = 2; g_uarg = &g_arg2; evconnlistener_set_cb(g_lev, user_cb2, &g_arg2);
		break;
	case A_DIS_EN:
		g_enabled = 0; evconnlistener_disable(g_lev);
		g_enabled = 1; evconnlistener_enable(g_lev);
		break;
	case A_CLRERR:
		g_errcb_set = 0; evconnlistener_set_error_cb(g_lev, NULL);
		break;
	default: break;
	}
}

static void deliver(int which, struct evconnlistener *lev, evutil_socket_t fd, struct sockaddr *sa, int socklen, void *arg)
{
	int i, k, same = 1;
	g_cb_calls++;
	VP_ASSERT(!g_freed, "C44: connection callback after evconnlistener_free");
	VP_ASSERT(g_enabled, "C44: connection callback while the listener is disabled");
	VP_ASSERT(g_cbsel == which, "C44: a callback that is no longer (or not yet) installed was invoked");
	VP_ASSERT(lev == g_lev, "C44: callback got a different listener");
	VP_ASSERT(arg == g_uarg && arg == (which == 1 ? (void *)&g_arg1 : (void *)&g_arg2), "C44: callback got the wrong user pointer");
	VP_ASSERT(fd >= VP_FD0 && fd < VP_FD0 + vp_acc_n, "C44: callback got an fd that was never accepted");
	for (i = 0; i < VP_NACC; i++)
		if (fd == VP_FD0 + i) {
			vp_acc_delivered[i]++;
			VP_ASSERT(vp_acc_closed[i] == 0, "C44: callback got an fd that was already closed");
			VP_ASSERT(socklen == (int)vp_acc_len[i] && socklen > 0, "C44: callback got the wrong address length");
			for (k = 0; k < VP_ADDRMAX; k++)
				if (k < socklen && ((unsigned char *)sa)[k] != vp_acc_addr[i][k]) same = 0;
			VP_ASSERT(same, "C44: callback got an address that is not the peer address accept() stored");
		}
	g_in_cb++;
	app_action((unsigned)vp_range(0, A_N - 1), 1);
	g_in_cb--;
}
static void user_cb(struct evconnlistener *lev, evutil_socket_t fd, struct sockaddr *sa, int socklen, void *arg) { deliver(1, lev, fd, sa, socklen, arg); }
static void user_cb2(struct evconnlistener *lev, evutil_socket_t fd, struct sockaddr *sa, int socklen, void *arg) { deliver(2, lev, fd, sa, socklen, arg); }
static void user_errcb(struct evconnlistener *lev, void *arg)
{
	g_errcb_calls++;
	VP_ASSERT(!g_freed, "C44: error callback after evconnlistener_free");
	VP_ASSERT(g_errcb_set, "C44: error callback invoked although it was cleared");
	VP_ASSERT(lev == g_lev, "C44: error callback got a different listener");
	VP_ASSERT(arg == g_uarg, "C44: error callback got the wrong user pointer");
	VP_ASSERT(vp_acc_last_errno != 0 && !vp_retriable(vp_acc_last_errno), "C44: error callback for a retriable (or no) accept error");
	g_in_cb++;
	app_action((unsigned)vp_range(0, A_N - 1), 1);
	g_in_cb--;
}

/* every accepted fd: handed to the callback exactly once, or closed exactly once -- never both, never neither */
static void check_fds(void)
{
	int i;
	for (i = 0; i < VP_NACC; i++) {
		if (i < vp_acc_n) {
			VP_ASSERT(vp_acc_delivered[i] + vp_acc_closed[i] == 1, "C44: an accepted connection was neither delivered exactly once nor closed exactly once (leak / double delivery / double close)");
			VP_ASSERT(vp_acc_len[i] != 0 || vp_acc_closed[i] == 1, "C44: connection without a peer address was not closed");
		} else
			VP_ASSERT(vp_acc_delivered[i] == 0 && vp_acc_closed[i] == 0, "C44: fd that was never accepted was delivered or closed");
	}
	VP_ASSERT(vp_other_closed == 0, "C44: a foreign fd was closed");
}
/* listener object state between API calls */
static void check_quiescent(const char *unused)
{
	(void)unused;
	VP_ASSERT_NO_LOCKS("listener API / accept loop");
	if (!g_freed) {
		VP_ASSERT(g_lev->refcnt == 1, "C44: listener reference count not back to 1 outside callbacks");
		VP_ASSERT(g_enabled || !vp_ev_pending, "C44: accept event pending while the listener is disabled");
		VP_ASSERT(vp_listen_closed == 0, "C44: listening socket closed before free");
		VP_ASSERT(vp_ev_unassigned == 0 && vp_free_calls == 0, "C44: listener torn down without evconnlistener_free");
	} else {
		VP_ASSERT(!vp_ev_pending && vp_ev_unassigned == 1, "C44: accept event not removed by evconnlistener_free");
		VP_ASSERT(vp_listen_closed == ((g_flags & LEV_OPT_CLOSE_ON_FREE) ? 1 : 0), "C44: listening socket closed on free iff LEV_OPT_CLOSE_ON_FREE violated");
		VP_ASSERT(vp_free_calls == 1, "C44: listener memory not released exactly once");
#ifndef VP_LOCKS_OFF
		VP_ASSERT(!(g_flags & LEV_OPT_THREADSAFE) || !vp_lockpool[0].alive, "C44: listener lock not freed");
#endif
	}
}

/* the event loop's part: run the accept event's callback iff it is pending */
static int run_event(void)
{
	int calls0 = g_cb_calls, err0 = g_errcb_calls, acc0 = vp_acc_calls, errset, cbsel;
	if (g_freed || !vp_ev_pending) return 0;
	VP_ASSERT(vp_ev_cb == listener_read_cb && vp_ev_fd == VP_LISTEN_FD && (vp_ev_events & EV_READ) && (vp_ev_events & EV_PERSIST),
	    "C44: accept event not a persistent read event on the listening socket");
	errset = g_errcb_set; cbsel = g_cbsel;
	listener_read_cb(vp_ev_fd, EV_READ, vp_ev_arg);
	VP_ASSERT(vp_acc_calls > acc0, "C44: readable listening socket but accept() not called");
	check_fds();
	check_quiescent("accept loop");
	/* the loop ended with a failing accept(): non-retriable errors reach the error callback (when one is set and the
	 * listener still exists), retriable ones never do */
	if (vp_acc_last_errno != 0) {
		/* g_errcb_set may have been changed by a connection callback; the value that counts is the one at the time
		 * of the failing accept, which is the current one unless the error callback itself cleared it */
		if (vp_retriable(vp_acc_last_errno))
			VP_ASSERT(g_errcb_calls == err0, "C44: error callback for a retriable accept error");
		else if (g_errcb_calls == err0)
			VP_ASSERT(!g_errcb_set, "C44: non-retriable accept error not reported to the error callback");
		else
			VP_ASSERT(g_errcb_calls == err0 + 1, "C44: accept error reported more than once");
	} else
		VP_ASSERT(g_errcb_calls == err0, "C44: error callback without a failing accept");
	(void)calls0; (void)errset; (void)cbsel;
	return 1;
}

/* main history: new -> [op] -> accept event -> [op] -> accept event -> free */
void harness_accept(void)
{
	unsigned flags = 0, a;
	int ran1, ran2;
	static int base_obj;
	vp_the_base = (struct event_base *)&base_obj;
	if (vp_bool()) flags |= LEV_OPT_CLOSE_ON_FREE;
	if (vp_bool()) flags |= LEV_OPT_DISABLED;
	if (vp_bool()) flags |= LEV_OPT_LEAVE_SOCKETS_BLOCKING;
	if (vp_bool()) flags |= LEV_OPT_CLOSE_ON_EXEC;
#ifndef VP_LOCKS_OFF
	if (vp_bool()) flags |= LEV_OPT_THREADSAFE;
#endif
	g_flags = flags;
	g_expect_acc_flags = ((flags & LEV_OPT_LEAVE_SOCKETS_BLOCKING) ? 0 : EVUTIL_SOCK_NONBLOCK) | ((flags & LEV_OPT_CLOSE_ON_EXEC) ? EVUTIL_SOCK_CLOEXEC : 0);
	g_cbsel = vp_bool() ? 1 : 0;
	g_enabled = !(flags & LEV_OPT_DISABLED);
	g_uarg = &g_arg1;
	g_lev = evconnlistener_new(vp_the_base, g_cbsel ? user_cb : NULL, &g_arg1, flags, 0, VP_LISTEN_FD);
	__CPROVER_assume(g_lev != NULL);
	VP_ASSERT(vp_listen_calls == 0, "C44: backlog 0 means the socket is already listening");
	VP_ASSERT(evconnlistener_get_fd(g_lev) == VP_LISTEN_FD && evconnlistener_get_base(g_lev) == vp_the_base, "C44: get_fd/get_base");
	if (vp_bool()) { g_errcb_set = 1; evconnlistener_set_error_cb(g_lev, user_errcb); }
	check_quiescent("new");
	VP_ASSERT(vp_ev_pending == (g_enabled && g_cbsel), "C44: a new listener listens iff it is enabled and has a callback");

	a = (unsigned)vp_range(0, A_N - 1);
	app_action(a, 0);
	check_quiescent("op");
	VP_ASSERT(!(g_enabled && g_cbsel) || vp_ev_pending, "C44: enabled listener with a callback is not listening");

	ran1 = run_event();
	if (ran1 && vp_acc_n == VP_NACC && g_cb_calls == VP_NACC) VP_WITNESS("VP_NACC connections delivered in one accept event");
	if (ran1 && g_freed) VP_WITNESS("listener freed from inside a callback");
	if (ran1 && g_errcb_calls == 1) VP_WITNESS("non-retriable accept error reported");
	if (ran1 && !g_freed && !g_enabled) VP_WITNESS("listener disabled from inside the callback");
	if (ran1 && vp_acc_n > g_cb_calls) VP_WITNESS("an accepted connection was closed instead of delivered");

#ifndef VP_ONE_EVENT
	a = (unsigned)vp_range(0, A_N - 1);
	app_action(a, 1);
	check_quiescent("op2");
	VP_ASSERT(g_freed || !(g_enabled && g_cbsel) || vp_ev_pending, "C44: enabled listener with a callback is not listening");

	ran2 = run_event();
	if (ran1 && ran2 && g_cb_calls >= 2) VP_WITNESS("connections delivered in two accept events");
#else
	(void)ran2;
#endif

	if (!g_freed) do_free();
	check_fds();
	check_quiescent("free");
	VP_ASSERT(vp_alloc_calls == 1, "harness: one allocation per listener");
	if (vp_listen_closed) VP_WITNESS("listening socket closed on free");
	else VP_WITNESS("listening socket left open on free");
}

/* evconnlistener_new_bind / evconnlistener_new with every setup call failing by solver choice:
 * no socket, lock or memory leak on failure; on success the socket is open, listening, and closed on free iff asked */
void harness_new_bind(void)
{
	unsigned flags = (unsigned)vp_range(0, 0x3ff);
	int backlog = (int)vp_range(0, 2) - 1;            /* -1, 0, 1 */
	int with_sa = vp_bool();
	struct sockaddr_in sin;
	static int base_obj;
	vp_the_base = (struct event_base *)&base_obj;
#ifdef VP_LOCKS_OFF
	flags &= ~LEV_OPT_THREADSAFE;
#endif
	memset(&sin, 0, sizeof(sin));
	sin.sin_family = vp_bool() ? AF_INET : AF_UNIX;
	vp_sys_may_fail = 1;
	vp_alloc_fail_enabled = 1;
	g_flags = flags;
	g_enabled = !(flags & LEV_OPT_DISABLED);
	g_cbsel = 1; g_uarg = &g_arg1;
	g_lev = evconnlistener_new_bind(vp_the_base, user_cb, &g_arg1, flags, backlog, with_sa ? (struct sockaddr *)&sin : NULL, sizeof(sin));
	vp_sys_may_fail = 0;
	vp_alloc_fail_enabled = 0;
	VP_ASSERT_NO_LOCKS("evconnlistener_new_bind");
	if (g_lev == NULL) {
		VP_ASSERT(vp_listen_closed == vp_sock_created, "C44: evconnlistener_new_bind failed and leaked (or double-closed) its socket");
		VP_ASSERT(vp_alloc_calls - vp_alloc_failed == vp_free_calls, "C44: evconnlistener_new_bind failed and leaked memory");
		VP_ASSERT(!vp_ev_pending, "C44: failed constructor left an event pending");
		VP_ASSERT(backlog != 0 || vp_sock_created == 0, "C44: backlog 0 is rejected before a socket is created");
		VP_WITNESS("new_bind failed");
		return;
	}
	VP_ASSERT(backlog != 0, "C44: evconnlistener_new_bind must reject backlog 0");
	VP_ASSERT(vp_sock_created == 1 && vp_listen_closed == 0, "C44: new listener's socket is open");
	VP_ASSERT(vp_listen_calls == 1 && vp_listen_backlog == (backlog > 0 ? backlog : 128), "C44: listen() backlog");
	VP_ASSERT(vp_bind_calls == (with_sa ? 1 : 0), "C44: bind() iff an address was given");
	VP_ASSERT(!(flags & (LEV_OPT_REUSEABLE | LEV_OPT_REUSEABLE_PORT)) || !with_sa || sin.sin_family != AF_UNIX, "C44: REUSEABLE on AF_UNIX must be refused");
	VP_ASSERT(vp_ev_pending == g_enabled, "C44: a new listener listens iff not LEV_OPT_DISABLED");
	check_quiescent("new_bind");
	do_free();
	check_quiescent("free");
	if (flags & LEV_OPT_CLOSE_ON_FREE) VP_WITNESS("new_bind ok, closed on free");
	else VP_WITNESS("new_bind ok, left open");
}
