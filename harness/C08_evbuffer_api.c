/* C08 (extension) -- buffer.c entry points return with every lock released.
 *
 * Two evbuffers A and B, each with its OWN lock (evbuffer_enable_locking(buf, NULL) through the lock
 * monitor of env/locks.h, lock debugging on: every ASSERT_EVBUFFER_LOCKED in buffer.c is an obligation).
 * Concrete prefix: A holds 5 + 20 bytes in two chains (scaled MIN_BUFFER_SIZE=64), B holds 7 bytes, a change
 * callback is installed on A.  Then ONE call (-DC08B_OP) with sizes from a small set (PICK: unmerged branch per
 * value), symbolic payload bytes, and the k-th allocation of the call failing for k in {none, 1, 2, 3}
 * (concrete schedule per branch, chosen by the solver).  After the call: vp_lock_depth_total == 0.
 * Only lock balance is asserted here; contents/callback semantics are C12..C15.
 */
#include "vp.h"
#include "log_stub.h"
#include "locks.h"
#include "evbuf_alloc.h"
#include "evbuf_copy.h"
#include "buffer.c"

#define B_ADD 0
#define B_PREPEND 1
#define B_EXPAND 2
#define B_DRAIN 3
#define B_REMOVE 4
#define B_COPYOUT 5
#define B_PULLUP 6
#define B_RESERVE_COMMIT 7
#define B_ADD_REFERENCE 8
#define B_ADD_BUFFER 9
#define B_PREPEND_BUFFER 10
#define B_REMOVE_BUFFER 11
#define B_ADD_BUFFER_REFERENCE 12
#define B_SEARCH 13
#define B_SEARCH_EOL 14
#define B_READLN 15
#define B_PEEK 16
#define B_PTR_SET 17
#define B_FREEZE 18
#define B_GETTERS 19
#define B_CALLBACKS 20
#define B_FREE 21
#define B_DEFER 22
#define B_ENABLE_LOCKING 23
#define B_ADD_IOVEC 24
#define B_COPYOUT_FROM 25
#define B_NEW_FREE 26
#ifndef C08B_OP
#define C08B_OP B_ADD
#endif

/* ---- event.c / bufferevent.c entry points buffer.c links against ---- */
static int n_sched;
void event_deferred_cb_init_(struct event_callback *cb, ev_uint8_t priority, deferred_cb_fn fn, void *arg)
{ (void)priority; (void)fn; memset(cb, 0, sizeof(*cb)); cb->evcb_arg = arg; }
int event_deferred_cb_schedule_(struct event_base *base, struct event_callback *cb) { (void)base; (void)cb; n_sched++; return 1; }
void event_deferred_cb_cancel_(struct event_base *base, struct event_callback *cb) { (void)base; (void)cb; }
int event_base_get_npriorities(struct event_base *base) { (void)base; return 1; }
void bufferevent_incref_(struct bufferevent *bufev) { (void)bufev; VP_ASSERT(0, "harness: no parent bufferevent here"); }
int bufferevent_decref_(struct bufferevent *bufev) { (void)bufev; VP_ASSERT(0, "harness: no parent bufferevent here"); return 0; }

static struct evbuffer *A, *B;
static int ncb;
static unsigned char data[40];
static char needle[2];
static unsigned char refstore[16];
static int ref_cleaned;
static void cbfn(struct evbuffer *b, const struct evbuffer_cb_info *info, void *arg)
{
	(void)b; (void)info; (void)arg; ncb++;
	VP_ASSERT(evthread_is_debug_lock_held_(A->lock) || evthread_is_debug_lock_held_(B->lock), "evbuffer callback runs under the buffer's lock");
}
static void ref_cleanup(const void *d, size_t n, void *extra) { (void)d; (void)n; (void)extra; ref_cleaned++; }

static size_t g_n; static int g_fail;
#define CALL(stmt) do { vp_evb_fail_at = g_fail; vp_evb_fail_seen = 0; stmt; vp_evb_fail_at = 0; VP_ASSERT_NO_LOCKS("evbuffer call"); } while (0)

static void the_call(void)
{
	int r = 0;
#if C08B_OP == B_ADD
	CALL(r = evbuffer_add(A, data, g_n));
#elif C08B_OP == B_PREPEND
	CALL(r = evbuffer_prepend(A, data, g_n));
#elif C08B_OP == B_EXPAND
	CALL(r = evbuffer_expand(A, g_n));
#elif C08B_OP == B_DRAIN
	CALL(r = evbuffer_drain(A, g_n));
#elif C08B_OP == B_REMOVE
	{ unsigned char out[40]; CALL(r = evbuffer_remove(A, out, g_n)); }
#elif C08B_OP == B_COPYOUT
	{ unsigned char out[40]; CALL(r = (int)evbuffer_copyout(A, out, g_n)); }
#elif C08B_OP == B_COPYOUT_FROM
	{
		unsigned char out[40]; struct evbuffer_ptr p;
		CALL(r = evbuffer_ptr_set(A, &p, 3, EVBUFFER_PTR_SET));
		CALL(r = (int)evbuffer_copyout_from(A, &p, out, g_n));
	}
#elif C08B_OP == B_PULLUP
	{ unsigned char *p; if (g_n == 0) CALL(p = evbuffer_pullup(A, -1)); else CALL(p = evbuffer_pullup(A, (ev_ssize_t)g_n)); (void)p; }
#elif C08B_OP == B_RESERVE_COMMIT
	{
		struct evbuffer_iovec v[2]; int n;
		CALL(n = evbuffer_reserve_space(A, (ev_ssize_t)g_n, v, 2));
		if (n > 0) { v[0].iov_len = v[0].iov_len ? 1 : 0; CALL(r = evbuffer_commit_space(A, v, 1)); }
	}
#elif C08B_OP == B_ADD_REFERENCE
	CALL(r = evbuffer_add_reference(A, refstore, g_n, ref_cleanup, NULL));
#elif C08B_OP == B_ADD_BUFFER
	CALL(r = evbuffer_add_buffer(A, B));
	CALL(r = evbuffer_add_buffer(A, A));          /* same buffer: refused */
#elif C08B_OP == B_PREPEND_BUFFER
	CALL(r = evbuffer_prepend_buffer(A, B));
#elif C08B_OP == B_REMOVE_BUFFER
	CALL(r = evbuffer_remove_buffer(A, B, g_n));
#elif C08B_OP == B_ADD_BUFFER_REFERENCE
	CALL(r = evbuffer_add_buffer_reference(A, B));
#elif C08B_OP == B_SEARCH
	{
		struct evbuffer_ptr p, q;
		/* needle per scenario: present in the first chain / spanning the chain boundary / absent / first byte only */
		if (g_n == 0) { needle[0] = 'c'; needle[1] = 'd'; } else if (g_n == 3) { needle[0] = 'e'; needle[1] = 'a'; }
		else if (g_n == 16) { needle[0] = 'z'; needle[1] = 'q'; } else { needle[0] = 'a'; needle[1] = 'q'; }
		CALL(p = evbuffer_search(A, needle, 2, NULL));
		CALL(r = evbuffer_ptr_set(A, &q, 20, EVBUFFER_PTR_SET));
		CALL(p = evbuffer_search_range(A, needle, 2, NULL, &q));
	}
#elif C08B_OP == B_SEARCH_EOL
	{ struct evbuffer_ptr p; size_t l; CALL(p = evbuffer_search_eol(A, NULL, &l, g_n == 0 ? EVBUFFER_EOL_LF : g_n == 3 ? EVBUFFER_EOL_CRLF : g_n == 16 ? EVBUFFER_EOL_CRLF_STRICT : EVBUFFER_EOL_NUL)); (void)p; }
#elif C08B_OP == B_READLN
	{ char *l; size_t n; CALL(l = evbuffer_readln(A, &n, g_n == 0 ? EVBUFFER_EOL_NUL : g_n == 3 ? EVBUFFER_EOL_LF : g_n == 16 ? EVBUFFER_EOL_CRLF_STRICT : EVBUFFER_EOL_CRLF)); if (l) mm_free(l); }
#elif C08B_OP == B_PEEK
	{ struct evbuffer_iovec v[3]; CALL(r = evbuffer_peek(A, (ev_ssize_t)g_n - 1, NULL, v, 3)); }
#elif C08B_OP == B_PTR_SET
	{ struct evbuffer_ptr p; CALL(r = evbuffer_ptr_set(A, &p, g_n, EVBUFFER_PTR_SET)); if (r == 0) CALL(r = evbuffer_ptr_set(A, &p, 2, EVBUFFER_PTR_ADD)); }
#elif C08B_OP == B_FREEZE
	CALL(r = evbuffer_freeze(A, g_n & 1));
	CALL(r = evbuffer_add(A, data, 3));
	CALL(r = evbuffer_drain(A, 3));
	CALL(r = evbuffer_unfreeze(A, g_n & 1));
#elif C08B_OP == B_GETTERS
	CALL(r = (int)evbuffer_get_length(A));
	CALL(r = (int)evbuffer_get_contiguous_space(A));
	CALL(r = (int)evbuffer_get_max_read(A));
	CALL(r = evbuffer_set_max_read(A, 100));
	CALL(r = evbuffer_set_flags(A, EVBUFFER_FLAG_DRAINS_TO_FD));
	CALL(r = evbuffer_clear_flags(A, EVBUFFER_FLAG_DRAINS_TO_FD));
#elif C08B_OP == B_CALLBACKS
	{
		struct evbuffer_cb_entry *e;
		CALL(e = evbuffer_add_cb(A, cbfn, &ncb));
		if (e) {
			CALL(r = evbuffer_cb_clear_flags(A, e, EVBUFFER_CB_ENABLED));
			CALL(r = evbuffer_cb_set_flags(A, e, EVBUFFER_CB_ENABLED));
			if (g_n) CALL(r = evbuffer_remove_cb_entry(A, e)); else CALL(r = evbuffer_remove_cb(A, cbfn, &ncb));
		}
		CALL(r = evbuffer_remove_cb(A, cbfn, data));          /* not installed */
	}
#elif C08B_OP == B_FREE
	CALL(evbuffer_free(A));
	A = NULL;
#elif C08B_OP == B_NEW_FREE
	{ struct evbuffer *n; CALL(n = evbuffer_new()); if (n) { if (g_n) CALL(r = evbuffer_enable_locking(n, NULL)); CALL(evbuffer_free(n)); } }
#elif C08B_OP == B_DEFER
	CALL(r = evbuffer_defer_callbacks(A, (struct event_base *)data));
	CALL(r = evbuffer_add(A, data, 3));
#elif C08B_OP == B_ENABLE_LOCKING
	CALL(r = evbuffer_enable_locking(A, NULL));            /* already has a lock: refused */
	VP_ASSERT(r == -1, "second evbuffer_enable_locking is refused");
#elif C08B_OP == B_ADD_IOVEC
	{ struct evbuffer_iovec v[2]; v[0].iov_base = data; v[0].iov_len = g_n; v[1].iov_base = data + 20; v[1].iov_len = 4; CALL(r = (int)evbuffer_add_iovec(A, v, 2)); }
#else
#error "unknown C08B_OP"
#endif
	(void)r;
}

/* one complete scenario (all choices concrete): the call, then both buffers are released -- inside the branch, a
 * chain list merged over 16 scenarios makes evbuffer_free walk symbolic pointers (measured: > 200 s) */
static void scenario(void)
{
	the_call();
	VP_ASSERT_NO_LOCKS("evbuffer API call");
	if (A) evbuffer_free(A);
	evbuffer_free(B);
	VP_ASSERT_NO_LOCKS("evbuffer_free");
}

#ifdef C08B_SMALL     /* the expensive calls (pullup, multicast): two sizes, first allocation may fail */
#define PICK_N(stmt) do { if (vp_bool()) { g_n = 0; stmt; } else { g_n = 16; stmt; } } while (0)
#define PICK_FAIL(stmt) do { if (vp_bool()) { g_fail = 0; stmt; } else { g_fail = 1; stmt; } } while (0)
#else
#define PICK_N(stmt) do { int c_ = (int)vp_range(0, 3); \
	if (c_ == 0) { g_n = 0; stmt; } else if (c_ == 1) { g_n = 3; stmt; } \
	else if (c_ == 2) { g_n = 16; stmt; } else { g_n = 30; stmt; } } while (0)
#define PICK_FAIL(stmt) do { int f_ = (int)vp_range(0, 3); \
	if (f_ == 0) { g_fail = 0; stmt; } else if (f_ == 1) { g_fail = 1; stmt; } \
	else if (f_ == 2) { g_fail = 2; stmt; } else { g_fail = 3; stmt; } } while (0)
#endif

void harness_evbuffer_api(void)
{
	int r;
#if C08B_OP == B_SEARCH || C08B_OP == B_SEARCH_EOL || C08B_OP == B_READLN
	/* (scanning calls branch on every payload byte: concrete text with CRLF, LF and NUL in it, symbolic needle) */
	{ size_t i; for (i = 0; i < sizeof data; i++) data[i] = (unsigned char)('a' + i % 5); data[7] = '\r'; data[8] = '\n'; data[18] = '\n'; data[22] = 0; }
#else
	vp_bytes(data, sizeof data);
#endif
	A = evbuffer_new(); B = evbuffer_new();
	__CPROVER_assume(A && B);
	r = evbuffer_enable_locking(A, NULL); VP_ASSERT(r == 0, "locking enabled");
	r = evbuffer_enable_locking(B, NULL); VP_ASSERT(r == 0, "locking enabled");
	r = evbuffer_add(A, data, 5); __CPROVER_assume(r == 0);
	r = evbuffer_add(A, data + 5, 20); __CPROVER_assume(r == 0);
	r = evbuffer_add(B, data + 25, 7); __CPROVER_assume(r == 0);
	__CPROVER_assume(evbuffer_add_cb(A, cbfn, NULL) != NULL);
	VP_ASSERT_NO_LOCKS("setup");
	PICK_FAIL(PICK_N(scenario()));
	VP_WITNESS("end of harness");
}
