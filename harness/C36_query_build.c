/* C36: the query the resolver puts on the wire, decoded by the reference
 * decoder ref/dns_ref.h.
 *
 *  harness_build      evdns_request_data_build (+ dnsname_to_labels) on a symbolic
 *                     name of <= C36_N bytes (any byte values), symbolic id/type/class
 *                     and symbolic global_max_udp_size (EDNS on/off); output buffer is
 *                     an exact-size object of evdns_request_len() bytes.
 *  harness_long       the same for long names over {'a','.'} with symbolic dot
 *                     positions (label limit 63/64, name limit 253..255).
 *  harness_request_new  request_new() on a constructed evdns_base: 0x20 case
 *                     randomisation (symbolic random bits), id from the RNG recorder.
 *
 * A name is *encodable* (RFC 1035 2.3.4/3.1) iff every label has 1..63 bytes
 * (one trailing dot allowed = absolute name; "" is the root) and the wire form
 * has <= 255 octets.  Decided: success => well-formed message (header: RD only,
 * QDCOUNT 1, AN/NS 0, ARCOUNT = EDNS), one question whose name == requested
 * name (without the trailing dot), type, class as requested, OPT RR iff EDNS,
 * nothing after it; not encodable => failure; encodable => success.
 * The single name "." (root written as a dot) is left open: it may fail or be
 * encoded as the root, but must not be transmitted malformed.
 */
#define VP_LOCKS_OFF 1
#include "vp.h"
#include "log_stub.h"
#ifdef C36_LITERAL_ALLOC
/* request_new allocates sizeof(struct request) + evdns_request_len(): symbolic in name_len and
 * EDNS.  A symbolic malloc size does not fit in memory (DESIGN 3.3), so for harness_request_new
 * the allocator hands out literal-size objects (request <= size asserted); the exact-size check
 * of the query bytes is harness_build's. */
#define VP_HAVE_EVENT_C 1
#endif
#include "alloc.h"
#include "locks.h"
#include "dns_env.h"
#include "evdns.c"
#ifndef C36_N
#define C36_N 8
#endif
#ifdef C36_LITERAL_ALLOC
/* one typed object: header struct + payload array (a flat byte object would turn every header
 * field access into a byte_update over the whole array: 6M variables at N=4) */
struct c36_reqobj { struct request hdr; u8 payload[96 + C36_N + 2 + 4 + 11]; };
void *event_mm_malloc_(size_t sz)
{
	void *p;
	VP_ASSERT(sz <= sizeof(struct c36_reqobj), "harness: allocation larger than the request object");
	p = malloc(sizeof(struct c36_reqobj));
	__CPROVER_assume(p != NULL);
	return p;
}
void event_mm_free_(void *p) { free(p); }
#endif
#ifndef C36_N
#define C36_N 8
#endif
/* step budget of the reference name decoder: a query name of <= C36_N text bytes has
 * <= C36_N/2+1 labels; a smaller budget than the message length can only make the
 * reference reject more (stricter check), never accept more. */
#ifndef C36_STEPS
#define C36_STEPS (C36_N + 3)
#endif
#define DNSREF_NAME_STEPS C36_STEPS
#include "dns_ref.h"
#define C36_BUFMAX (96 + C36_N + 2 + 4 + 11)

/* checks shared by the entries: msg[0..rlen) must be the well-formed query for `name` */
static void c36_check_query(const u8 *msg, int rlen, const char *name, int name_len,
    unsigned id, unsigned type, unsigned klass, int edns, unsigned udp_size, int caseless)
{
	struct dnsref_hdr h; struct dnsref_q q;
	char qn[C36_N + 2];
	int r, i, tlen, qtext = -1, qnext = -1;
	r = dnsref_header(msg, rlen, &h);
	VP_ASSERT(r == DNSREF_OK, "C36: query shorter than a DNS header");
	VP_ASSERT(h.id == id, "C36: transaction id on the wire != id of the request");
	VP_ASSERT(h.qr == 0 && h.opcode == 0 && h.rd == 1 && h.flags == 0x0100, "C36: flags are not 'standard query, recursion desired'");
	VP_ASSERT(h.qd == 1 && h.an == 0 && h.ns == 0, "C36: counts are not QDCOUNT=1, ANCOUNT=0, NSCOUNT=0");
	VP_ASSERT(h.ar == (edns ? 1u : 0u), "C36: ARCOUNT != 1 iff EDNS configured");
	r = dnsref_name(msg, rlen, 12, qn, (int)sizeof(qn), &qnext, &qtext, NULL);
	VP_ASSERT(r == DNSREF_OK, "C36: question name on the wire is not a well-formed name");
	tlen = (name_len > 0 && name[name_len - 1] == '.') ? name_len - 1 : name_len;
	VP_ASSERT(qtext == tlen, "C36: question name on the wire has a different length than the requested name");
	for (i = 0; i < tlen; i++) {
		if (caseless)
			VP_ASSERT(dnsref_lower((unsigned char)qn[i]) == dnsref_lower((unsigned char)name[i]), "C36: question name != requested name (ignoring case)");
		else
			VP_ASSERT(qn[i] == name[i], "C36: question name != requested name");
	}
	VP_ASSERT(qnext + 4 <= rlen, "C36: question truncated");
	VP_ASSERT(dnsref_u16(msg + qnext) == type, "C36: QTYPE != requested type");
	VP_ASSERT(dnsref_u16(msg + qnext + 2) == klass, "C36: QCLASS != requested class");
	if (!edns) {
		VP_ASSERT(qnext + 4 == rlen, "C36: bytes after the question in a non-EDNS query");
	} else {
		struct dnsref_rr rr; char on[4];
		r = dnsref_rr(msg, rlen, qnext + 4, on, (int)sizeof(on), &rr);
		VP_ASSERT(r == DNSREF_OK && on[0] == 0, "C36: OPT record malformed or not owned by the root");
		VP_ASSERT(rr.type == 41 && rr.klass == udp_size && rr.ttl == 0 && rr.rdlen == 0, "C36: OPT record fields (type 41, class = max UDP size, ttl 0, no rdata)");
		VP_ASSERT(rr.next == rlen, "C36: bytes after the OPT record");
	}
}

/* one call of evdns_request_data_build on (name, name_len) + all checks */
static void c36_run(struct evdns_base *base, const char *name, int name_len)
{
	u8 *bobj = malloc(C36_BUFMAX);
	u8 *buf;
	int rlen, encodable, edns, is_dot;
	size_t buf_len, need_len;
	u16 id = vp_u16(), type = vp_u16(), klass = vp_u16();
	__CPROVER_assume(bobj);
	base->global_max_udp_size = vp_u16();
	edns = base->global_max_udp_size > 512;
	buf_len = evdns_request_len(base, (size_t)name_len); /* what request_new allocates */
	VP_ASSERT(buf_len <= C36_BUFMAX, "harness: buffer bound");
	need_len = buf_len;
#ifdef C36_BUFLIT
	/* long names: literal buffer length (a symbolic one makes every offset after the name an
	 * if-then-else over the overflow exits); that the query fits what request_new allocates is
	 * asserted explicitly below, the canary covers [need_len, C36_BUFMAX). */
	buf_len = C36_BUFMAX;
#endif
#ifdef C36_TAIL
	buf = bobj + (C36_BUFMAX - buf_len); /* exact: [buf, buf+buf_len) ends with the object */
#else
	/* front-aligned (concrete base: a symbolic base makes every store a symbolic-index array
	 * update, 15M variables for long names); the object is exact when buf_len == C36_BUFMAX and
	 * the bytes in [buf_len, C36_BUFMAX) are a canary that must survive the call. */
	buf = bobj;
	{ size_t ci; for (ci = 0; ci < C36_BUFMAX; ci++) bobj[ci] = 0xA5; }
#endif

	encodable = dnsref_name_encodable(name, name_len);
	is_dot = (name_len == 1 && name[0] == '.');
#ifdef C36_ONLY_WELLFORMED
	/* part of the claim that does not depend on the rejection of unencodable names */
	__CPROVER_assume(encodable);
#endif

	rlen = evdns_request_data_build(base, name, (size_t)name_len, id, type, klass, buf, buf_len);

#ifndef C36_TAIL
	{ size_t ci; for (ci = 0; ci < C36_BUFMAX; ci++) if (ci >= need_len) VP_ASSERT(bobj[ci] == 0xA5, "C36: evdns_request_data_build wrote beyond the evdns_request_len() bytes request_new allocates"); }
#endif
	if (rlen < 0) {
		if (!is_dot)
			VP_ASSERT(!encodable, "C36: encodable name rejected by evdns_request_data_build");
#ifndef C36_ONLY_WELLFORMED
		if (!encodable) VP_WITNESS("unencodable name refused");
#endif
		return;
	}
	VP_ASSERT((size_t)rlen <= need_len, "C36: query longer than its buffer");
	if (!is_dot) {
		VP_ASSERT(encodable, "C36: unencodable name (empty label: leading/consecutive dots; label > 63; wire form > 255 octets) was encoded and would be transmitted malformed");
		if (!encodable) return;
	} else {
		/* "." may be refused or sent as the root name, nothing else */
		int root_len = 12 + 1 + 4 + (edns ? 11 : 0);
		VP_ASSERT(rlen == root_len, "C36: the name \".\" is transmitted malformed (a second zero octet follows the root name)");
		if (rlen != root_len) return;
	}
	c36_check_query(buf, rlen, name, name_len, id, type, klass, edns, base->global_max_udp_size, 0);
	if (edns) VP_WITNESS("EDNS query built");
	if (!edns && name_len > 3) VP_WITNESS("plain query built");
	if (name_len > 1 && name[name_len - 1] == '.') VP_WITNESS("absolute name (trailing dot) built");
}

/* every name of <= C36_N arbitrary bytes */
void harness_build(void)
{
	struct evdns_base *base = calloc(1, sizeof(*base));
	char *name = malloc(C36_N + 1);
	__CPROVER_assume(base && name);
	vp_bytes(name, C36_N);
	name[C36_N] = 0;
	c36_run(base, name, (int)strlen(name));
}

/* long names: C36_FULL labels of 63 x 'a' followed by a last label of symbolic length
 * 0..64 and an optional trailing dot: label limit 63/64 and name limit (wire 255) with
 * the boundary chosen by the solver.  C36_N must be >= 64*C36_FULL + 66. */
#ifndef C36_FULL
#define C36_FULL 3
#endif
void harness_long(void)
{
	struct evdns_base *base = calloc(1, sizeof(*base));
	char *name = malloc(C36_N + 1);
#ifdef C36_LAST /* literal length of the last label: with a symbolic length every later offset in
                 * the 370-byte buffer is symbolic (12M variables, no verdict in 10 min); the
                 * driver enumerates the boundary lengths instead, everything else stays symbolic */
	int p, n, last = C36_LAST, dot = vp_bool();
#else
	int p, n, last = (int)vp_range(0, 64), dot = vp_bool();
#endif
	const int pre = 64 * C36_FULL; /* "a{63}." x C36_FULL */
	__CPROVER_assume(base && name);
	__CPROVER_assume(last > 0 || C36_FULL > 0);
	/* text: prefix, then `last` x 'a', then '.' iff dot; with last == 0 the prefix's final dot is
	 * the trailing dot (kept iff dot).  All stores at concrete indices. */
	n = last > 0 ? pre + last + (dot ? 1 : 0) : (dot ? pre : pre - 1);
	for (p = 0; p <= C36_N; p++) {
		char c;
		if (p < pre - 1) c = (p % 64 == 63) ? '.' : 'a'; /* concrete prefix (n >= pre-1 always) */
		else if (p >= n) c = 0;
		else if (p < pre) c = '.';
		else if (p < pre + last) c = 'a';
		else c = '.';
		name[p] = c;
	}
	c36_run(base, name, n);
}

/* request_new() on a constructed base: 0x20 randomisation with solver-chosen random bits,
 * transaction id from the (solver-chosen) RNG, type as requested, class IN. */
void harness_request_new(void)
{
	struct evdns_base *base = calloc(1, sizeof(*base));
	char *name = malloc(C36_N + 1);
	struct request *req;
	int name_len, encodable, edns, issuing, type, i, flips = 0;
	__CPROVER_assume(base && name);
	base->n_req_heads = 1;
	base->req_heads = calloc(1, sizeof(struct request *));
	__CPROVER_assume(base->req_heads);
	issuing = vp_bool();
	vp_dns_rng_fair_ids = 1;
	base->global_max_requests_inflight = issuing ? 1 : 0; /* nothing inflight: issue now iff allowed */
	base->global_randomize_case = vp_bool();
	base->global_max_udp_size = vp_u16();
	edns = base->global_max_udp_size > 512;
	type = vp_u8();
	vp_bytes(name, C36_N);
	name[C36_N] = 0;
	name_len = (int)strlen(name);
	encodable = dnsref_name_encodable(name, name_len);
#ifdef C36_ONLY_WELLFORMED
	__CPROVER_assume(encodable);
#endif

	req = request_new(base, NULL, type, name, vp_int());

	if (!req) {
		VP_ASSERT(!encodable, "C36: request_new failed for an encodable name (allocation cannot fail here)");
#ifndef C36_ONLY_WELLFORMED
		VP_WITNESS("request_new refused the name");
#endif
		return;
	}
	VP_ASSERT(encodable || (name_len == 1 && name[0] == '.'), "C36: request_new built a request for an unencodable name");
	if (!encodable) return;
	VP_ASSERT(req->request == (u8 *)req + sizeof(struct request) && req->request_appended, "C36: request bytes follow the header");
	VP_ASSERT(req->request_len <= evdns_request_len(base, (size_t)name_len), "C36: request_len beyond the allocation");
	VP_ASSERT(req->request_type == type, "C36: request_type");
	VP_ASSERT(issuing ? req->trans_id != 0xffff : req->trans_id == 0xffff, "C36: transaction id 0xffff iff the request is not issued now");
	c36_check_query(req->request, (int)req->request_len, name, name_len, req->trans_id, (unsigned)type, 1 /* IN */,
	    edns, base->global_max_udp_size, base->global_randomize_case);
	for (i = 0; i < name_len; i++) if (req->request[13 + i] != (u8)name[i]) flips++;
	if (base->global_randomize_case && flips > 0) VP_WITNESS("0x20: case of a letter changed on the wire");
	if (!base->global_randomize_case) VP_WITNESS("request built without 0x20");
	if (!issuing) VP_WITNESS("request built for the waiting queue");
	mm_free(req);
}

/* ---- the 63/64 label-length boundary through dnsname_to_labels alone, both branches ----
 * Label structure is concrete (the driver gives the label length C36_LBL = 63 or 64 and whether the
 * label is the final one, C36_MID=0, or is followed by ".b", C36_MID=1); the label's bytes are
 * symbolic (any octet but '.' and NUL).  63: must be encoded and decode back; 64: must be refused
 * with -1 (a length octet 0x40 is not a label, RFC 1035 2.3.4/4.1.4). */
#ifndef C36_LBL
#define C36_LBL 63
#endif
#ifndef C36_MID
#define C36_MID 0
#endif
void harness_label_limit(void)
{
	char name[C36_LBL + 3];
	u8 buf[C36_LBL + 6];
	int i, n = C36_LBL + (C36_MID ? 2 : 0);
	off_t r;
	for (i = 0; i < C36_LBL; i++) { name[i] = (char)vp_u8(); __CPROVER_assume(name[i] != '.' && name[i] != 0); }
	if (C36_MID) { name[C36_LBL] = '.'; name[C36_LBL + 1] = 'b'; }
	name[n] = 0;
	r = dnsname_to_labels(buf, sizeof(buf), 0, name, (size_t)n, NULL);
#if C36_LBL > 63
	VP_ASSERT(r == -1, "C36: a label of 64 octets was encoded (length octet 0x40 is not a valid label length)");
	VP_WITNESS("64-octet label refused or encoded");
	(void)i;
#else
	VP_ASSERT(r == n + 2, "C36: a name with a 63-octet label was refused or mis-sized");
	if (r != n + 2) return;
	VP_ASSERT(buf[0] == C36_LBL, "C36: length octet of the 63-octet label");
	for (i = 0; i < C36_LBL; i++) VP_ASSERT(buf[1 + i] == (u8)name[i], "C36: label bytes differ");
	if (C36_MID) VP_ASSERT(buf[1 + C36_LBL] == 1 && buf[2 + C36_LBL] == 'b' && buf[3 + C36_LBL] == 0, "C36: second label / terminator");
	else VP_ASSERT(buf[1 + C36_LBL] == 0, "C36: terminator");
	VP_WITNESS("63-octet label encoded");
#endif
}
