/* C35: the message evdns_server_request_format_response builds, decoded by the
 * reference decoder ref/dns_ref.h.
 *
 * State: a struct server_request as request_parse leaves it (UDP, no client),
 * C35_Q (0/1) questions, then C35_R records added through the real
 * evdns_server_request_add_reply with symbolic owner names (<= C35_N bytes, any
 * encodable name, so shared and distinct suffixes are both covered), symbolic
 * type/class/ttl/section, data either a name (compressed) or raw bytes of
 * symbolic length <= C35_D.  Sections are non-decreasing in add order (the wire
 * order of the three lists is then the add order).
 *
 * Decided: the response decodes into header (id, flags|QR|rcode, counts), the
 * question, and exactly the records added, in order, with rdata as given;
 * every compression pointer points strictly backwards; nothing follows the
 * last record; when the message exceeds max_udp_reply_size it is cut to that
 * size with TC set.
 */
#define VP_LOCKS_OFF 1
#define VP_HAVE_EVENT_C 1 /* own allocator below */
#include "vp.h"
#include "log_stub.h"
#include "alloc.h"
#include "locks.h"
#include "dns_env.h"
#ifdef C35_EVDNS_SRC
/* formatter-level obligations: the driver's copy of $VERIF_REPO/evdns.c in which the single
 * declaration `unsigned char buf[1024 * 64];` of evdns_server_request_format_response reads
 * `unsigned char buf[C35_FMTBUF];` (a 64 KiB symbolic buffer does not fit in memory; the formatter
 * is parametric in that size; see props/C35.py gen_scaled_source and NOTE). */
#include C35_EVDNS_SRC
#else
#include "evdns.c"
#endif
#ifndef C35_N
#define C35_N 3
#endif
#ifndef C35_R
#define C35_R 2
#endif
#ifndef C35_Q
#define C35_Q 1
#endif
#ifndef C35_D
#define C35_D 4
#endif
#define DNSREF_NAME_STEPS (C35_N + 4)
#include "dns_ref.h"

/* allocator: struct-typed objects for the reply items, literal-size byte objects for
 * strings / raw data / the response (symbolic malloc sizes do not fit, DESIGN 3.3) */
#define C35_BYTES (12 + (C35_Q + 2 * C35_R) * (C35_N + 2) + C35_Q * 4 + C35_R * (10 + C35_D) + 8)
int c35_live; /* allocations - frees: leak check */
void *event_mm_malloc_(size_t sz)
{
	void *p;
	if (sz == 0) return NULL;
	if (sz == sizeof(struct server_reply_item)) p = malloc(sizeof(struct server_reply_item));
	else { VP_ASSERT(sz <= C35_BYTES, "harness: byte allocation larger than the literal object"); p = malloc(C35_BYTES); }
	__CPROVER_assume(p != NULL);
	c35_live++;
	return p;
}
char *event_mm_strdup_(const char *s)
{
	size_t n = strlen(s); char *p;
	VP_ASSERT(n + 1 <= C35_N + 1, "harness: strdup longer than a name");
	p = malloc(C35_N + 1);
	__CPROVER_assume(p != NULL);
	c35_live++;
	vp_memcpy(p, s, n + 1);
	return p;
}
void event_mm_free_(void *p) { if (p) c35_live--; free(p); }
void *event_mm_calloc_(size_t a, size_t b) { void *p = calloc(a, b); __CPROVER_assume(p != NULL); c35_live++; return p; }
void *event_mm_realloc_(void *p, size_t n) { (void)p; (void)n; VP_ASSERT(0, "harness: realloc not expected"); return NULL; }

struct c35_rec { char name[C35_N + 1]; char dname[C35_N + 1]; unsigned char raw[C35_D > 0 ? C35_D : 1];
	int section, type, klass, ttl, is_name, datalen; };
static struct c35_rec rec[C35_R > 0 ? C35_R : 1];

/* text of an encodable name in buf[0..N], NUL-terminated; returns its length */
static int c35_name(char *buf)
{
	int n;
#ifdef C35_CONCRETE
	/* reduced formatter obligation: concrete, pairwise distinct one-letter names ("a", "b", ...): every
	 * offset is concrete, so the size-limit / TC logic is isolated; compression is harness_labels' subject */
	{ static int serial; buf[0] = (char)('a' + serial++); for (n = 1; n <= C35_N; n++) buf[n] = 0; }
	return 1;
#endif
	vp_bytes(buf, C35_N);
	buf[C35_N] = 0;
#ifdef C35_FIXLEN
	/* formatter-level obligations: single-label names of exactly C35_N bytes (label structure
	 * concrete, bytes symbolic, so equal and distinct names both occur); arbitrary label
	 * structures are the subject of harness_labels */
	for (n = 0; n < C35_N; n++) __CPROVER_assume(buf[n] != 0 && buf[n] != '.');
#ifdef C35_DISTINCT
	/* pairwise distinct concrete first letters: no compression can happen, every offset in the
	 * message is concrete; this isolates the formatter's own logic (header, counts, section order,
	 * record layout, size limit / TC); compression is the subject of harness_labels */
	{ static int serial; buf[0] = (char)('a' + serial++); }
#endif
	return C35_N;
#endif
	n = (int)strlen(buf);
	__CPROVER_assume(dnsref_name_encodable(buf, n));
	return n;
}
/* decoded text (no trailing dot) == given text minus one trailing dot */
static int c35_same_name(const char *dec, int dec_len, const char *txt)
{
	int n = (int)strlen(txt), i;
	if (n > 0 && txt[n - 1] == '.') n--;
	if (dec_len != n) return 0;
	for (i = 0; i < n; i++) if (dec[i] != txt[i]) return 0;
	return 1;
}

void harness_format(void)
{
	struct server_request *req = calloc(1, sizeof(*req));
	struct evdns_server_port *port = calloc(1, sizeof(*port));
	struct evdns_server_question *q = calloc(1, sizeof(*q) + C35_N);
	struct evdns_server_question *qv[1];
	const u8 *m; int len, off, r, k, err, i, prev_section = 0, expect_len, txt, nx, truncated;
	struct dnsref_hdr h; char dn[C35_N + 2];
	int cnt[3] = {0, 0, 0};
	__CPROVER_assume(req && port && q);
	req->port = port; port->refcnt = 1;
	req->trans_id = vp_u16();
	req->base.flags = vp_u16() & (0x7800 | 0x0100 | 0x0010 | 0x0400 | 0x0080); /* opcode, RD, CD copied from the query; AA/RA set by the caller */
#ifdef C35_CONCRETE
	/* complete response: header 12 + question "a" (3+4) + per record: owner (3) + 10 + C35_D */
#define C35_FULLLEN (12 + C35_Q * 7 + C35_R * (13 + C35_D))
	req->max_udp_reply_size = (u16)vp_range(C35_FULLLEN - 2, C35_FULLLEN + 2); /* limit around the complete length */
#else
	req->max_udp_reply_size = vp_u16();
	__CPROVER_assume(req->max_udp_reply_size >= 12);
#endif
	req->base.nquestions = C35_Q;
	qv[0] = q; req->base.questions = qv;
	if (C35_Q) { c35_name(q->name); q->type = vp_u16(); q->dns_question_class = vp_u16(); }

	for (k = 0; k < C35_R; k++) {
		struct c35_rec *x = &rec[k];
		c35_name(x->name);
#ifdef C35_SECMODE
		/* formatter-level obligations: concrete section per record (a symbolic section makes each of
		 * the three lists possibly hold each record: 3x the formatter body per record).
		 * mode 0: all answers; mode 1: record k in section min(k,2); mode 2: record k in section 2-min(k,2)
		 * (added in reverse section order: wire order is by section, not by add order) */
		x->section = C35_SECMODE == 0 ? 0 : C35_SECMODE == 1 ? (k < 2 ? k : 2) : 2 - (k < 2 ? k : 2);
#else
		x->section = (int)vp_range(prev_section, 2); prev_section = x->section;
#endif
		x->type = vp_u16(); x->klass = vp_u16(); x->ttl = (int)vp_u32();
#ifdef C35_CONCRETE
		x->is_name = 0; /* raw records only */
#else
		x->is_name = vp_bool();
#endif
		if (x->is_name) { c35_name(x->dname); x->datalen = -1; }
#ifdef C35_CONCRETE
		else { x->datalen = C35_D; vp_bytes(x->raw, C35_D); }
#else
		else { x->datalen = (int)vp_range(0, C35_D); vp_bytes(x->raw, C35_D); }
#endif
		r = evdns_server_request_add_reply(&req->base, x->section, x->name, x->type, x->klass, x->ttl,
		    x->datalen, x->is_name, x->is_name ? x->dname : (x->datalen ? (const char *)x->raw : NULL));
		VP_ASSERT(r == 0, "C35: evdns_server_request_add_reply failed (no allocation failure, valid section)");
		cnt[x->section]++;
	}
	VP_ASSERT(req->n_answer == cnt[0] && req->n_authority == cnt[1] && req->n_additional == cnt[2], "C35: per-section record counters != records added");
	err = (int)vp_range(0, 15);

	r = evdns_server_request_format_response(req, err);

	VP_ASSERT(r == 0, "C35: format_response failed for encodable names");
	if (r != 0) return;
	m = (const u8 *)req->response; len = (int)req->response_len;
	VP_ASSERT(req->answer == NULL && req->authority == NULL && req->additional == NULL, "C35: reply items not released after formatting");
	VP_ASSERT(c35_live == 1, "C35: memory leaked by add_reply/format_response (only the response may stay allocated)");
	r = dnsref_header(m, len, &h);
	VP_ASSERT(r == DNSREF_OK, "C35: response shorter than a header");
	VP_ASSERT(h.id == req->trans_id, "C35: response id != request id");
	truncated = h.tc;
#ifdef C35_NOTRUNC
	__CPROVER_assume(req->max_udp_reply_size >= C35_BYTES);
#endif
	VP_ASSERT((h.flags & ~0x0200u) == (((unsigned)req->base.flags | 0x8000u | (unsigned)err) & 0xffffu), "C35: flags != request flags | QR | rcode");
	VP_ASSERT(len <= req->max_udp_reply_size, "C35: UDP response longer than the client's size limit");
#ifdef C35_CONCRETE
	VP_ASSERT(truncated == (C35_FULLLEN > req->max_udp_reply_size), "C35: TC must be set iff the complete response exceeds the client's size limit");
	if (!truncated) VP_ASSERT(len == C35_FULLLEN, "C35: untruncated response length != encoded length");
	if (req->max_udp_reply_size == C35_FULLLEN) VP_WITNESS("response of exactly the size limit");
#endif
	/* walk what the reference decoder sees */
	off = 12;
	VP_ASSERT(h.qd == C35_Q, "C35: QDCOUNT");
	if (C35_Q && !truncated) {
		struct dnsref_q rq;
		r = dnsref_question(m, len, off, dn, (int)sizeof(dn), &rq);
		VP_ASSERT(r == DNSREF_OK, "C35: question does not decode");
		if (r != DNSREF_OK) return;
		VP_ASSERT(c35_same_name(dn, (int)strlen(dn), q->name), "C35: question name differs");
		VP_ASSERT(rq.type == (unsigned)q->type && rq.klass == (unsigned)q->dns_question_class, "C35: question type/class differ");
		off = rq.next;
	}
	if (!truncated) {
		VP_ASSERT(h.an == (unsigned)cnt[0] && h.ns == (unsigned)cnt[1] && h.ar == (unsigned)cnt[2], "C35: header counts != records added per section");
		/* expected wire order: by section, add order within a section */
		int order[C35_R > 0 ? C35_R : 1], no = 0, sec;
		for (sec = 0; sec < 3; sec++) for (k = 0; k < C35_R; k++) if (rec[k].section == sec) order[no++] = k;
		for (k = 0; k < C35_R; k++) {
			struct c35_rec *x = &rec[order[k]]; struct dnsref_rr rr;
			r = dnsref_rr(m, len, off, dn, (int)sizeof(dn), &rr);
			VP_ASSERT(r == DNSREF_OK, "C35: record does not decode");
			if (r != DNSREF_OK) return;
			VP_ASSERT(c35_same_name(dn, (int)strlen(dn), x->name), "C35: record owner name differs");
			VP_ASSERT(rr.type == (unsigned)x->type && rr.klass == (unsigned)x->klass && rr.ttl == (uint32_t)x->ttl, "C35: record type/class/ttl differ");
			if (x->is_name) {
				r = dnsref_name(m, len, rr.rdata, dn, (int)sizeof(dn), &nx, &txt, NULL);
				VP_ASSERT(r == DNSREF_OK, "C35: name-valued rdata does not decode");
				if (r != DNSREF_OK) return;
				VP_ASSERT(c35_same_name(dn, txt, x->dname), "C35: name-valued rdata differs");
				VP_ASSERT(nx == rr.next, "C35: RDLENGTH != encoded length of the name-valued rdata");
			} else {
				VP_ASSERT((int)rr.rdlen == x->datalen, "C35: RDLENGTH != data length");
				for (i = 0; i < C35_D; i++) if (i < x->datalen) VP_ASSERT(m[rr.rdata + i] == x->raw[i], "C35: raw rdata differs");
			}
			off = rr.next;
		}
		VP_ASSERT(off == len, "C35: bytes after the last record / response_len != encoded length");
		VP_ASSERT(dnsref_name_fwdptr == 0, "C35: a compression pointer does not point strictly backwards");
		VP_WITNESS("untruncated response decoded");
	} else {
		VP_ASSERT(len == req->max_udp_reply_size, "C35: TC set but the message was not cut to the size limit");
#ifdef C35_STRICT_TRUNC_COUNTS
		/* "the header counts never describe records that are not present": walk what the counts announce */
		{ struct dnsref_q rq; struct dnsref_rr rr; int o = 12, ok = 1, c;
		  for (c = 0; c < C35_Q; c++) if (ok && c < (int)h.qd) { if (dnsref_question(m, len, o, dn, (int)sizeof(dn), &rq) != DNSREF_OK) ok = 0; else o = rq.next; }
		  for (c = 0; c < C35_R; c++) if (ok && c < (int)(h.an + h.ns + h.ar)) { if (dnsref_rr(m, len, o, dn, (int)sizeof(dn), &rr) != DNSREF_OK) ok = 0; else o = rr.next; }
		  VP_ASSERT(ok, "C35: truncated response announces (header counts) records that are not completely present"); }
#endif
		VP_WITNESS("truncated response");
	}
}

/* ---- unit step: dnsname_to_labels under an arbitrary valid compression table ----
 * Pre-state (representation invariant of the formatter's loop): a message prefix buf[0..j0)
 * of symbolic bytes and a table of <= C35_T entries, each mapping the text v to a position
 * pos < j0 where the prefix decodes (reference decoder) to exactly v.  One call encodes a
 * symbolic encodable name at j0.  Post: the name decodes back, pointers point strictly
 * backwards, nothing outside [j0, min(r, buf_len)) is written, and every table entry (old and
 * new) still satisfies the invariant w.r.t. the longer message -- so by induction over the calls
 * of one formatting run every name in the response decodes to what was added. */
#ifndef C35_B
#define C35_B 24
#endif
#ifndef C35_J0
#define C35_J0 10
#endif
#ifndef C35_T
#define C35_T 2
#endif
void harness_labels(void)
{
	u8 *buf = malloc(C35_B);
	u8 orig[C35_B];
	struct dnslabel_table table;
	char name[C35_N + 1], dn[C35_N + 2], ev[C35_N + 2];
	int j0 = (int)vp_range(0, C35_J0), n = (int)vp_range(0, C35_T), i, k, nlen, r0, txt, nx, wire;
	size_t buf_len = (size_t)vp_range(0, C35_B);
	off_t r;
	__CPROVER_assume(buf != NULL);
	__CPROVER_assume((size_t)j0 <= buf_len);
	vp_bytes(buf, C35_B);
	for (k = 0; k < C35_B; k++) orig[k] = buf[k];
	dnslabel_table_init(&table);
	for (i = 0; i < C35_T; i++) if (i < n) {
		int pos = (int)vp_range(0, C35_J0);
		__CPROVER_assume(pos < j0);
		r0 = dnsref_name(buf, j0, pos, ev, (int)sizeof(ev) - 1, NULL, &txt, NULL);
		__CPROVER_assume(r0 == DNSREF_OK);
		__CPROVER_assume(dnsref_name_odd == 0);     /* entries come from dotted C strings: no '.'/NUL inside a label */
		__CPROVER_assume(dnsref_name_fwdptr == 0);  /* ... written by this encoder: backward pointers only */
		r0 = dnslabel_table_add(&table, ev, pos);
		VP_ASSERT(r0 == 0, "C35: dnslabel_table_add failed below MAX_LABELS");
	}
	nlen = c35_name(name);
	dnsref_name_fwdptr = 0;

	r = dnsname_to_labels(buf, buf_len, j0, name, (size_t)nlen, &table);

#ifdef C35_KF_EXCLUDE_TERM
	/* executions in which the terminating zero octet is stored at buf[buf_len] (finding
	 * C35-labels-terminator-overflow) are decided by the obligation without this define */
	__CPROVER_assume(r != (off_t)buf_len + 1);
#endif
	for (k = 0; k < C35_B; k++) {
		if (k < j0) VP_ASSERT(buf[k] == orig[k], "C35: dnsname_to_labels changed bytes before its start offset");
		if ((size_t)k >= buf_len) VP_ASSERT(buf[k] == orig[k], "C35: dnsname_to_labels wrote at or beyond buf_len (buffer overflow)");
	}
	wire = nlen + ((nlen > 0 && name[nlen - 1] == '.') ? 1 : 2); /* uncompressed length */
	if (nlen == 0) wire = 1;
	if (r < 0) {
		VP_ASSERT(r == -2, "C35: encodable name refused with a code other than 'does not fit'");
		/* +1: a pointer to an earlier root label costs 2 octets where the root itself costs 1 */
		VP_ASSERT((size_t)(j0 + wire + 1) > buf_len, "C35: name refused although even its uncompressed form fits the buffer");
		VP_WITNESS("name does not fit the buffer");
		dnslabel_clear(&table);
		return;
	}
	VP_ASSERT(r > j0 && (size_t)r <= buf_len, "C35: returned offset not within (j, buf_len]");
	if (!(r > j0 && (size_t)r <= buf_len)) return;
	r0 = dnsref_name(buf, (int)r, j0, dn, (int)sizeof(dn), &nx, &txt, NULL);
	VP_ASSERT(r0 == DNSREF_OK, "C35: encoded name does not decode");
	if (r0 != DNSREF_OK) return;
	VP_ASSERT(c35_same_name(dn, txt, name), "C35: encoded name decodes to a different name");
	VP_ASSERT(nx == (int)r, "C35: returned offset != end of the encoded name");
	VP_ASSERT(dnsref_name_fwdptr == 0, "C35: a compression pointer does not point strictly backwards");
	VP_ASSERT(table.n_labels >= n && table.n_labels <= n + (C35_N + 1) / 2 + 1, "C35: table size after the call");
	for (i = 0; i < C35_T + (C35_N + 1) / 2 + 1; i++) if (i < table.n_labels) {
		int pos = (int)table.labels[i].pos;
		VP_ASSERT(pos >= 0 && pos < (int)r && pos < 0x4000, "C35: table position outside the message / not expressible in 14 bits");
		if (!(pos >= 0 && pos < (int)r)) return;
		r0 = dnsref_name(buf, (int)r, pos, dn, (int)sizeof(dn), NULL, &txt, NULL);
		VP_ASSERT(r0 == DNSREF_OK && c35_same_name(dn, txt, table.labels[i].v), "C35: compression table entry does not decode to its text (later pointers to it would be wrong)");
	}
	if (dnsref_name_nptr > 0) VP_WITNESS("name encoded with a compression pointer");
	if (table.n_labels > n + 1) VP_WITNESS("two new suffixes registered");
	if (nlen > 0 && name[nlen - 1] == '.') VP_WITNESS("absolute name encoded");
	dnslabel_clear(&table);
	VP_ASSERT(c35_live == 0, "C35: dnslabel_clear leaks table strings");
}

/* ---- 14-bit pointer range (TCP responses may reach 64 KiB; evdns_server_request_format_response
 * formats into a 64 KiB buffer and registers every suffix with its offset).  A 64 KiB symbolic
 * buffer does not fit in memory, so the step is cut at the table: a suffix is registered through
 * the real dnslabel_table_add at a symbolic offset P in [0, 65535] -- exactly what
 * dnsname_to_labels does with its current offset j, there is no range check on that path -- and the
 * same name is then encoded into a fresh small buffer.  If a pointer is emitted it must denote P. */
void harness_ptr14(void)
{
	struct dnslabel_table table;
	u8 buf[C35_N + 4];
	char name[C35_N + 1], dn[C35_N + 2];
	int nlen, r0, txt, nx;
	unsigned P = (unsigned)vp_range(0, 65535);
	off_t r;
	dnslabel_table_init(&table);
	nlen = c35_name(name);
	__CPROVER_assume(nlen > 0 && name[0] != '.');
	(void)dnslabel_table_add(&table, name, (off_t)P); /* result ignored, as in dnsname_to_labels */
	vp_bytes(buf, sizeof(buf));
	r = dnsname_to_labels(buf, sizeof(buf), 0, name, (size_t)nlen, &table);
	VP_ASSERT(r > 0, "C35: encoding failed in a sufficient buffer");
	if (r <= 0) { dnslabel_clear(&table); return; }
	if ((buf[0] & 0xc0) == 0xc0) {
		VP_ASSERT(r == 2, "C35: pointer for a whole registered name is 2 octets");
		VP_ASSERT(((unsigned)(buf[0] & 0x3f) << 8 | buf[1]) == P, "C35: compression pointer does not denote the registered offset (offsets >= 0x4000 do not fit the 14-bit pointer and are truncated)");
		VP_WITNESS("registered name compressed");
	} else {
		r0 = dnsref_name(buf, (int)r, 0, dn, (int)sizeof(dn), &nx, &txt, NULL);
		VP_ASSERT(r0 == DNSREF_OK && c35_same_name(dn, txt, name) && nx == (int)r, "C35: uncompressed name does not decode back");
		VP_WITNESS("name at an unrepresentable offset not compressed");
	}
	dnslabel_clear(&table);
}
