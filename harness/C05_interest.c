/* C05: the kernel-facing interest set at every wait == union of the added I/O
 * events, through the real evmap.c + back end (epoll direct / epoll changelist /
 * poll / select) against the kernel contract model env/kernel_io.h.
 *
 * A history is a sequence of steps over 3 events on 2 fds (ev0, ev1 -> fd A,
 * ev2 -> fd B).  Which event/fd a step targets is fixed by the shape
 * (-DVP_STEPS="ADD(0) ADD(2) WAIT DEL(0) CLOSE(0) ADD(1) WAIT"), or, with
 * -DVP_SYMSTEPS=n, chosen by the solver for each of n steps followed by a wait.
 * Interest masks, edge-triggering per fd and (epoll direct) one injected
 * epoll_ctl failure are symbolic.
 *
 * Application contract assumed (ASSUMPTIONS): an fd is closed only while no
 * event is added on it, or every event that was added on it at close time is
 * deleted before anything else is added on that number and before the next
 * wait ("close(fd); event_del(ev)" idiom); all events on one fd agree on EV_ET;
 * EV_CLOSED only on back ends with EV_FEATURE_EARLY_CLOSE, EV_ET only with
 * EV_FEATURE_ET.
 */
#include "event2/event-config.h"
#include "evconfig-private.h"   /* _GNU_SOURCE etc. before any system header, as in the real units */
#include "vp.h"
#include "log_stub.h"
#ifndef VP_LOCKS_ON
#define VP_LOCKS_OFF
#endif
#include "locks.h"
#include "alloc_nogrow.h"
#define VP_NFD 4
#include "kernel_io.h"
#include "typed_alloc.h"
#define mm_realloc(p, sz) vp_realloc_evmap((p), (sz))
#undef mm_calloc
#define mm_calloc(n, sz) vp_calloc_evmap((n), (sz))
#include "evmap.c"
#undef mm_realloc
#undef mm_calloc
#define mm_calloc(n, sz) event_mm_calloc_((n), (sz))
#define mm_realloc(p, sz) vp_realloc_backend((p), (sz))
#define BE_EPOLL 1
#define BE_EPOLL_CL 2
#define BE_POLL 3
#define BE_SELECT 4
#ifndef VP_BACKEND
#define VP_BACKEND BE_EPOLL
#endif
#if VP_BACKEND == BE_EPOLL || VP_BACKEND == BE_EPOLL_CL
#include "epoll.c"
#elif VP_BACKEND == BE_POLL
/* poll.c copies pollfd tables with memcpy(dst, src, nfds * sizeof(struct pollfd)); cbmc's
 * built-in memcpy model (array_copy/array_replace with a symbolic byte count over typed
 * arrays) produced a spurious counterexample (not reproduced natively), so the copies are
 * done element-wise */
#include <string.h>
static void *vp_memcpy_pollfd(void *dst, const void *src, size_t n)
{
	size_t i;
	for (i = 0; i < n / sizeof(struct pollfd); i++) ((struct pollfd *)dst)[i] = ((const struct pollfd *)src)[i];
	return dst;
}
#define memcpy(d, s, n) vp_memcpy_pollfd((d), (s), (n))
#include "poll.c"
#undef memcpy
#else
#include "select.c"
#endif
#include "iobase.h"

#define NEV 3
#define FD_A 0
#define FD_B 1
static const int fd_of[NEV] = { FD_A, FD_A, FD_B };
static struct event_base *base;
static struct event ev[NEV];
static short mask[NEV];          /* requested conditions, subset of READ|WRITE|CLOSED, non-empty */
static int et[2];                /* edge-triggered events on fd A / B */
static int added[NEV], stale[NEV];
static int waits_checked;
static int closes_with_added;   /* close+reopen steps taken while an event was still added on the fd */
static int inject_left;          /* epoll direct: one epoll_ctl may be made to fail */

#ifdef VP_WITH_LOCK
#define LOCK()   EVBASE_ACQUIRE_LOCK(base, th_base_lock)
#define UNLOCK() do { EVBASE_RELEASE_LOCK(base, th_base_lock); VP_ASSERT_NO_LOCKS("back-end call"); } while (0)
#define WITH_LOCK 1
#else
#define LOCK()   ((void)0)
#define UNLOCK() ((void)0)
#define WITH_LOCK 0
#endif

static short want_of(int fd)
{
	int i; short w = 0;
	for (i = 0; i < NEV; i++) if (added[i] && fd_of[i] == fd) w |= mask[i];
	return w;
}

/* ---- the predicate, evaluated inside the kernel's wait entry point ---------- */
static void vp_on_wait(int kind)
{
	int fd;
	waits_checked++;
#ifdef VP_SYM_WITNESSES
	if (waits_checked >= 2 && want_of(FD_A) && want_of(FD_B)) VP_WITNESS("a wait with both fds in the interest set");
	if (waits_checked >= 2 && closes_with_added) VP_WITNESS("a wait after close+reopen of an fd that still had an event added (deleted afterwards)");
#endif
#if VP_BACKEND == BE_EPOLL || VP_BACKEND == BE_EPOLL_CL
	{
		struct epollop *op = base->evbase;
		int k = vp_k_inst_of(op->epfd);
		VP_ASSERT(kind == VP_W_EPOLL && vp_k_snap_epfd == op->epfd && k >= 0, "C05: wait on something else than the base's epoll instance");
		for (fd = 0; fd < 2; fd++) {
			short want = want_of(fd);
			struct vp_kreg *g = &vp_kep[k].reg[fd];
			VP_ASSERT((g->present != 0) == (want != 0), "C05[epoll]: fd registered with the kernel iff some added event wants it (stale or missing registration)");
			if (g->present) {
				VP_ASSERT((g->events & (EPOLLIN | EPOLLOUT | EPOLLRDHUP)) == vp_k_ev2poll(want), "C05[epoll]: registered conditions == union of added events' conditions");
				VP_ASSERT((g->events & ~(unsigned)(EPOLLIN | EPOLLOUT | EPOLLRDHUP | EPOLLET)) == 0, "C05[epoll]: no other epoll flag requested");
				VP_ASSERT(((g->events & EPOLLET) != 0) == (et[fd] != 0), "C05[epoll]: EPOLLET registered iff the added events are edge-triggered");
				VP_ASSERT(g->data_fd == fd, "C05[epoll]: registration carries its own fd as user data");
			}
		}
		for (fd = 2; fd < VP_NFD; fd++)
			VP_ASSERT(!vp_kep[k].reg[fd].present, "C05[epoll]: registration for an fd no event was ever added on");
	}
#elif VP_BACKEND == BE_POLL
	{
		int n = 0, i;
		VP_ASSERT(kind == VP_W_POLL, "C05: poll back end waits in poll()");
#ifdef VP_WITH_LOCK
		VP_ASSERT(vp_locks_held() == 0, "C05: base lock released while waiting");
#endif
		for (fd = 0; fd < 2; fd++) {
			short want = want_of(fd);
			int hits = 0;
			for (i = 0; i < vp_k_snap_nfds && i < VP_K_PSNAP; i++)
				if (vp_k_snap_pfd[i].fd == fd) {
					hits++;
					VP_ASSERT(((unsigned)vp_k_snap_pfd[i].events) == vp_k_ev2poll(want), "C05[poll]: pollfd.events == union of added events' conditions");
				}
			VP_ASSERT(hits == (want ? 1 : 0), "C05[poll]: exactly one pollfd entry per fd with added events, none otherwise (stale/missing/duplicate entry)");
			if (want) n++;
		}
		VP_ASSERT(vp_k_snap_nfds == n, "C05[poll]: nfds == number of fds with added events");
	}
#else
	{
		VP_ASSERT(kind == VP_W_SELECT, "C05: select back end waits in select()");
		for (fd = 0; fd < VP_NFD; fd++) {
			short want = fd < 2 ? want_of(fd) : 0;
			VP_ASSERT(vp_k_snap_rd[fd] == ((want & EV_READ) != 0), "C05[select]: fd in the read set iff an added event wants EV_READ");
			VP_ASSERT(vp_k_snap_wr[fd] == ((want & EV_WRITE) != 0), "C05[select]: fd in the write set iff an added event wants EV_WRITE");
			VP_ASSERT(!vp_k_snap_ex[fd], "C05[select]: no except set");
		}
	}
#endif
}

/* ---- steps ------------------------------------------------------------------ */
static void step_add(int i)
{
	int r, j, fail = 0;
	__CPROVER_assume(!added[i]);
	for (j = 0; j < NEV; j++) __CPROVER_assume(!(added[j] && stale[j] && fd_of[j] == fd_of[i]));
#if VP_BACKEND == BE_EPOLL && defined(VP_INJECT)
	if (inject_left && vp_bool()) { inject_left = 0; vp_k_ctl_fail_next = ENOMEM; fail = 1; }
#endif
	LOCK(); r = evmap_io_add_(base, fd_of[i], &ev[i]); UNLOCK();
	if (fail && vp_k_ctl_fail_next == 0) {
		/* the refused epoll_ctl was the one this add needed */
		VP_ASSERT(r == -1, "C05: evmap_io_add_ reports failure when the kernel refused the registration");
#ifdef VP_INJECT
		VP_WITNESS("add refused by the kernel");
#endif
		return;           /* not added: evmap left it out of the fd's list */
	}
	vp_k_ctl_fail_next = 0;
	VP_ASSERT(r == 0 || r == 1, "C05: evmap_io_add_ succeeds on a legal history");
	added[i] = 1; stale[i] = 0;
}
static void step_del(int i)
{
	int r;
	__CPROVER_assume(added[i]);
	LOCK(); r = evmap_io_del_(base, fd_of[i], &ev[i]); UNLOCK();
	VP_ASSERT(r == 0 || r == 1, "C05: evmap_io_del_ succeeds on a legal history");
	added[i] = 0; stale[i] = 0;
}
/* close(fd) and a later open() returning the same number */
static void step_close(int fd)
{
	int i;
	vp_k_do_close(fd);
	vp_k_open_at(fd);
	for (i = 0; i < NEV; i++) if (added[i] && fd_of[i] == fd) { stale[i] = 1; closes_with_added++; }
}
static void step_wait(void)
{
	struct timeval tv = { 0, 0 };
	int i, before = waits_checked, r;
	for (i = 0; i < NEV; i++) __CPROVER_assume(!(added[i] && stale[i]));
	/* every wait in this harness is interrupted by a signal (EINTR, a legal kernel
	 * answer): dispatch returns without scanning results -- what follows a wait
	 * that reports readiness is C04's subject */
	vp_k_wait_fail = EINTR;
	LOCK(); r = base->evsel->dispatch(base, &tv); UNLOCK();
	VP_ASSERT(r == 0, "C05: dispatch succeeds");
	VP_ASSERT(waits_checked == before + 1, "C05: dispatch waits exactly once");
#if VP_BACKEND == BE_EPOLL_CL
	VP_ASSERT(base->changelist.n_changes == 0, "C05: changelist empty after the wait");
#endif
#if VP_BACKEND == BE_POLL
	/* idxplus1 consistency */
	{
		struct pollop *pop = base->evbase; int fd;
		for (fd = 0; fd < 2; fd++) {
			struct pollidx *ix = (fd < base->io.nentries && base->io.entries[fd]) ? evmap_io_get_fdinfo_(&base->io, fd) : NULL;
			int idx = ix ? ix->idxplus1 : 0;
			VP_ASSERT((idx != 0) == (want_of(fd) != 0), "C05[poll]: idxplus1 set iff the fd has a pollfd entry");
			if (idx) VP_ASSERT(idx <= pop->nfds && pop->event_set[idx - 1].fd == fd, "C05[poll]: idxplus1 points at the fd's own pollfd entry");
		}
	}
#endif
}
#define ADD(i) step_add(i);
#define DEL(i) step_del(i);
#define CLOSE(f) step_close(f);
#define WAIT step_wait();

#ifndef VP_STEPS
#define VP_STEPS ADD(0) ADD(2) WAIT DEL(0) CLOSE(0) ADD(1) WAIT
#endif

static void setup(void)
{
	int i;
	short allowed = EV_READ | EV_WRITE;
	int flags = 0;
	const struct eventop *ops;
#if VP_BACKEND == BE_EPOLL
	ops = &epollops; allowed |= EV_CLOSED;
#elif VP_BACKEND == BE_EPOLL_CL
	ops = &epollops; allowed |= EV_CLOSED; flags = EVENT_BASE_FLAG_EPOLL_USE_CHANGELIST;
#elif VP_BACKEND == BE_POLL
	ops = &pollops; allowed |= EV_CLOSED;
#else
	ops = &selectops;
#endif
	vp_k_open_at(FD_A); vp_k_open_at(FD_B);
	base = vp_iobase_new(ops, flags, WITH_LOCK);
	VP_ASSERT(base->evbase != NULL, "C05: back end initialises");
#if VP_BACKEND == BE_EPOLL_CL
	VP_ASSERT(base->evsel == &epollops_changelist, "C05: changelist variant selected by the config flag");
#endif
#if VP_BACKEND == BE_EPOLL || VP_BACKEND == BE_EPOLL_CL
	et[0] = vp_bool(); et[1] = vp_bool();
#endif
	for (i = 0; i < NEV; i++) {
		mask[i] = (short)(vp_u8() & allowed);
		__CPROVER_assume(mask[i] != 0);
		vp_ioev_init(&ev[i], base, fd_of[i], (short)(mask[i] | (et[fd_of[i]] ? EV_ET : 0) | (vp_bool() ? EV_PERSIST : 0)));
	}
#ifdef VP_WARM
	/* concrete API prefix: one add+del of a plain EV_READ event per fd and one wait,
	 * so that every table (evmap slots, pollfd array, fd_sets, changelist) exists
	 * with a concrete size before the symbolic history starts */
	{
		static struct event warm[2];
		int f;
		for (f = 0; f < 2; f++) {
			vp_ioev_init(&warm[f], base, f, EV_READ);
			LOCK();
			VP_ASSERT(evmap_io_add_(base, f, &warm[f]) == 1, "C05: warm-up add");
			VP_ASSERT(evmap_io_del_(base, f, &warm[f]) == 1, "C05: warm-up del");
			UNLOCK();
		}
		step_wait();
	}
#endif
	inject_left = 1;
}

void harness_shape(void)
{
	setup();
	VP_STEPS
	VP_ASSERT(vp_k_close_ebadf == 0, "C05: no close of a closed fd");
	VP_WITNESS("history completed");
}

#ifndef VP_SYMSTEPS
#define VP_SYMSTEPS 2
#endif
/* the solver picks each step (targets stay concrete inside each branch) */
void harness_sym(void)
{
	int s;
	setup();
	for (s = 0; s < VP_SYMSTEPS; s++) {
		unsigned op = vp_u8();
		__CPROVER_assume(op < 9);
		switch (op) {
		case 0: step_add(0); break;
		case 1: step_add(1); break;
		case 2: step_add(2); break;
		case 3: step_del(0); break;
		case 4: step_del(1); break;
		case 5: step_del(2); break;
		case 6: step_close(FD_A); break;
		case 7: step_close(FD_B); break;
		default: step_wait(); break;
		}
	}
	step_wait();
	VP_WITNESS("symbolic history completed");
}
