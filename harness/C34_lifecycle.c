/* C34: every DNS request reports its outcome exactly once -- unit steps on an evdns_base built by the library's
 * own API (evdns_base_new, evdns_nameserver_add_impl_, evdns_base_resolve_ipv4), with the event core, sockets and
 * bufferevents replaced by recorders (env/dns_unit_env.h).
 *
 * State (per obligation, by -D):  C34_NNS nameservers (1..2), C34_NREQ requests (1..2) for the name "a",
 * C34_MAXINFLIGHT (1: the second request waits; 2: both inflight), C34_ATTEMPTS (global_max_retransmits, set with
 * evdns_base_set_option), C34_TCP (requests carry DNS_QUERY_USEVC).  Transaction ids come from a solver-chosen RNG.
 *
 * Steps: harness_cancel, harness_timeout, harness_reply, harness_free, harness_txid (see each).
 * After every step the base must satisfy the representation invariant c34_check_base() and the per-request
 * callback counters must read: <= 1 always, == 1 with the right code on terminating paths, 0 while the request lives.
 */
#ifndef VP_LOCKS_ON
#define VP_LOCKS_OFF 1
#endif
#include "vp.h"
#include "log_stub.h"
#include "alloc.h"
#include "locks.h"
#define VPE_CUSTOM_RNG 1
#include "dns_unit_env.h"
#include "dns_evutil_stubs.h"
int evutil_parse_sockaddr_port(const char *str, struct sockaddr *out, int *outlen) { (void)str; (void)out; (void)outlen; return -1; }
int evutil_read_file_(const char *filename, char **content_out, size_t *len_out, int is_binary) { (void)filename; (void)content_out; (void)len_out; (void)is_binary; return -1; }

#ifndef C34_NNS
#define C34_NNS 1
#endif
#ifndef C34_NREQ
#define C34_NREQ 2
#endif
#ifndef C34_MAXINFLIGHT
#define C34_MAXINFLIGHT 2
#endif
#ifndef C34_ATTEMPTS
#define C34_ATTEMPTS 1
#endif
#ifndef C34_IDTRIES
#define C34_IDTRIES 3      /* the RNG yields a usable id at the latest on the 3rd draw (assumption) */
#endif

/* ---- RNG ----
 * cbmc does not fold `id % 1`, so with solver-chosen ids every REQ_HEAD(base, id) update is a write at a symbolic
 * index and the request table stops being a constant for symex (minutes per step).  The states are therefore built
 * with the ids 0x1001, 0x1002, ... (any distinct values != 0xffff behave alike: the id only selects the bucket, and
 * there is one bucket); harness_txid switches to solver-chosen bytes for the pick it examines, where every
 * C34_IDTRIES-th two-byte draw is assumed usable (the RNG eventually yields a fresh id). */
static int c34_id_draws, c34_rng_calls, c34_rng_symbolic;
static unsigned short c34_next_id = 0x1001;
static int c34_id_in_use(unsigned short id);
void evutil_secure_rng_get_bytes(void *buf, size_t n)
{
	c34_rng_calls++;
	if (!c34_rng_symbolic) {
		VP_ASSERT(n == 2, "harness: only transaction ids are drawn in these states");
		*(unsigned short *)buf = c34_next_id++;
		return;
	}
	vp_bytes(buf, n);
	if (n == 2) {
		unsigned short id = *(unsigned short *)buf;
		c34_id_draws++;
		if (c34_id_draws % C34_IDTRIES == 0) __CPROVER_assume(id != 0xffff && !c34_id_in_use(id));
	}
}

#define VPD_CLONE_COPY 1
#include "dns_typed_alloc_pre.h"
#include "evdns.c"
#include "dns_typed_alloc_post.h"

/* ---- user callback recorder ---- */
struct c34_rec { int calls; int result; int type; int count; };
static struct c34_rec c34_rec[2];
static struct evdns_request *c34_h[2];
static struct evdns_base *c34_base;
static int c34_base_freed, c34_cb_after_free_touch;
static void c34_cb(int result, char type, int count, int ttl, void *addresses, void *arg)
{
	int j;
	(void)ttl; (void)addresses;
	for (j = 0; j < 2; j++)
		if (arg == &c34_rec[j]) { c34_rec[j].calls++; c34_rec[j].result = result; c34_rec[j].type = type; c34_rec[j].count = count; }
}
/* ids of the requests that are inflight (walks the single bucket: max inflight <= 5 gives n_req_heads == 1) */
static int c34_id_in_use(unsigned short id)
{
	struct request *r, *start; int n = 0;
	if (!c34_base || c34_base_freed || !c34_base->req_heads) return 0;
	start = r = c34_base->req_heads[0];
	if (!r) return 0;
	do { if (r->trans_id == id) return 1; r = r->next; n++; } while (r != start && n < 3);
	return 0;
}
/* what the event loop does with the deferred callbacks at its next iteration */
static void c34_run_deferred(void)
{
	int i;
	for (i = 0; i < VPE_NDEFER; i++) if (i < vpe_ndeferred) {
		struct event_callback *cb = vpe_deferred[i];
		VP_ASSERT(cb->evcb_cb_union.evcb_selfcb == reply_run_callback, "C34: deferred callback of a request is reply_run_callback");
		reply_run_callback(cb, cb->evcb_arg);
	}
	vpe_ndeferred = 0;
}

/* ---- representation invariant of the request tables ---- */
static int c34_ring_len(struct request *head)
{
	struct request *r = head; int n = 0;
	if (!r) return 0;
	do { n++; r = r->next; } while (r != head && n < 4);
	return n;
}
static void c34_check_base(const char *unused)
{
	struct evdns_base *b = c34_base; struct request *r, *q; int ninf, nwait, i, per_ns = 0; struct nameserver *ns;
	(void)unused;
	VP_ASSERT(b->n_req_heads == 1, "harness: one request bucket");
	ninf = c34_ring_len(b->req_heads[0]); nwait = c34_ring_len(b->req_waiting_head);
	VP_ASSERT(ninf <= 2 && nwait <= 2, "C34: request ring longer than the number of requests made");
	VP_ASSERT(b->global_requests_inflight == ninf, "C34: global_requests_inflight differs from the inflight list");
	VP_ASSERT(b->global_requests_waiting == nwait, "C34: global_requests_waiting differs from the waiting list");
	VP_ASSERT(ninf <= b->global_max_requests_inflight, "C34: more requests inflight than max-inflight");
	r = b->req_heads[0];
	for (i = 0; i < 2; i++) if (i < ninf) {
		VP_ASSERT(r->ns != NULL, "C34: inflight request without nameserver");
		VP_ASSERT(r->trans_id != 0xffff, "C34: inflight request with the reserved transaction id 0xffff");
		VP_ASSERT(r->next->prev == r && r->prev->next == r, "C34: inflight ring links broken");
		VP_ASSERT(r->handle != NULL && r->handle->current_req == r, "C34: inflight request and its handle do not point at each other");
		VP_ASSERT(!r->handle->pending_cb, "C34: request still listed although its callback is already scheduled");
		VP_ASSERT(vpe_event_is_pending(&r->timeout_event) || r->transmit_me, "C34: inflight request with neither a timeout pending nor a transmission due (would never complete)");
		if (i == 0 && ninf == 2) { q = r->next; VP_ASSERT(q->trans_id != r->trans_id, "C34: two inflight requests share a transaction id"); }
		r = r->next;
	}
	r = b->req_waiting_head;
	for (i = 0; i < 2; i++) if (i < nwait) {
		VP_ASSERT(r->ns == NULL, "C34: waiting request with a nameserver");
		VP_ASSERT(r->handle != NULL && r->handle->current_req == r, "C34: waiting request and its handle do not point at each other");
		VP_ASSERT(!vpe_event_is_pending(&r->timeout_event), "C34: waiting request with a pending timeout");
		r = r->next;
	}
	/* per-nameserver accounting */
	ns = b->server_head;
	for (i = 0; i < C34_NNS; i++) if (ns) {
		int cnt = 0, k; r = b->req_heads[0];
		for (k = 0; k < 2; k++) if (k < ninf) { if (r->ns == ns) cnt++; r = r->next; }
		VP_ASSERT(ns->requests_inflight == cnt, "C34: nameserver requests_inflight differs from the inflight list");
		per_ns += cnt;
		ns = ns->next;
	}
	VP_ASSERT(per_ns == ninf, "C34: inflight request on a nameserver that is not in the ring");
	/* nothing is left waiting while there is room (it would wait for ever: only request_finished pumps the queue) */
	if (b->server_head)
		VP_ASSERT(!(nwait > 0 && ninf < b->global_max_requests_inflight), "C34: request left in the waiting queue although there is room inflight");
}

/* ---- state construction through the API ---- */
static void c34_setup(void)
{
	struct evdns_base *base = evdns_base_new(NULL, 0);
	int i, r;
	__CPROVER_assume(base != NULL);
	c34_base = base;
	r = evdns_base_set_option(base, "randomize-case", "0"); __CPROVER_assume(r == 0);
	r = evdns_base_set_option(base, "attempts", C34_ATTEMPTS == 1 ? "1" : C34_ATTEMPTS == 2 ? "2" : "3"); __CPROVER_assume(r == 0);
	r = evdns_base_set_option(base, "max-inflight", C34_MAXINFLIGHT == 1 ? "1" : "2"); __CPROVER_assume(r == 0);
	for (i = 0; i < C34_NNS; i++) {
		struct sockaddr_in sin;
		memset(&sin, 0, sizeof(sin)); sin.sin_family = AF_INET; sin.sin_port = htons(53); sin.sin_addr.s_addr = htonl(0x0a000001 + (unsigned)i);
		EVDNS_LOCK(base);
		r = evdns_nameserver_add_impl_(base, (struct sockaddr *)&sin, sizeof(sin));
		EVDNS_UNLOCK(base);
		__CPROVER_assume(r == 0);
	}
	for (i = 0; i < C34_NREQ; i++) {
		int fl = DNS_QUERY_NO_SEARCH;
#ifdef C34_TCP
		fl |= DNS_QUERY_USEVC;
#endif
		c34_h[i] = evdns_base_resolve_ipv4(base, "a", fl, c34_cb, &c34_rec[i]);
		__CPROVER_assume(c34_h[i] != NULL);
	}
	c34_check_base("setup");
	VP_ASSERT(c34_rec[0].calls == 0 && c34_rec[1].calls == 0 && vpe_ndeferred == 0, "C34: callback before any outcome");
#if C34_NREQ == 2 && C34_MAXINFLIGHT == 1
	VP_ASSERT(c34_base->global_requests_waiting == 1, "C34: second request must wait when max-inflight is 1");
#endif
}
/* is request j (still) alive, i.e. owned by the base and without outcome? */
static int c34_alive(int j) { return c34_rec[j].calls == 0; }

/* ------------------------------------------------------------------ cancel */
/* evdns_cancel_request on a solver-chosen request, optionally twice, optionally followed by cancelling the other one:
 * DNS_ERR_CANCEL exactly once for each cancelled request, nothing for the other; a waiting request is promoted. */
#ifndef C34_J
#define C34_J 0            /* which request the step is applied to (structure: enumerated per obligation) */
#endif
#ifndef C34_TWICE
#define C34_TWICE 0
#endif
#ifndef C34_BOTH
#define C34_BOTH 0
#endif
/* library-made cleanup at the end of a step harness (also: nothing may be left allocated, --memory-leak-check) */
static void c34_cleanup(void)
{
	evdns_base_free(c34_base, 0);
	c34_base_freed = 1;
	c34_run_deferred();
}
void harness_cancel(void)
{
	const int j = C34_J, twice = C34_TWICE, both = C34_BOTH;
	c34_setup();
	if (j == 0) { evdns_cancel_request(c34_base, c34_h[0]); if (twice) evdns_cancel_request(c34_base, c34_h[0]); }
	else { evdns_cancel_request(c34_base, c34_h[1]); if (twice) evdns_cancel_request(NULL, c34_h[1]); }
	VP_ASSERT(c34_rec[0].calls == 0 && c34_rec[1].calls == 0, "C34: cancel callback is deferred, not run from evdns_cancel_request");
	c34_check_base("cancel");
	if (both) {
		if (j == 0) evdns_cancel_request(c34_base, c34_h[1]); else evdns_cancel_request(c34_base, c34_h[0]);
		c34_check_base("cancel both");
	}
	c34_run_deferred();
	VP_ASSERT(c34_rec[j].calls == 1 && c34_rec[j].result == DNS_ERR_CANCEL, "C34: cancelled request: callback exactly once with DNS_ERR_CANCEL");
#if C34_NREQ == 2
	if (both) VP_ASSERT(c34_rec[1 - j].calls == 1 && c34_rec[1 - j].result == DNS_ERR_CANCEL, "C34: second cancelled request: callback exactly once with DNS_ERR_CANCEL");
	else {
		VP_ASSERT(c34_rec[1 - j].calls == 0, "C34: callback of a request that was not cancelled");
		VP_ASSERT(c34_base->global_requests_inflight == 1 && c34_base->global_requests_waiting == 0, "C34: the other request must be inflight after the cancel");
	}
#if !C34_BOTH
	VP_WITNESS("C34 cancel: one of two requests cancelled, the other one inflight");
#endif
#endif
	c34_check_base("cancel, callbacks run");
#if C34_TWICE
	VP_WITNESS("C34 cancel: cancelled twice, one callback");
#endif
#if C34_BOTH
	VP_WITNESS("C34 cancel: both cancelled");
#endif
	VP_WITNESS("C34 cancel: done");
	c34_cleanup();
}

/* ----------------------------------------------------------------- timeout */
/* The timeout of a solver-chosen inflight request fires, up to C34_FIRES times in a row (each time for a request that
 * is still alive and has its timer pending).  Decision expected from the documented counters: give up (callback once,
 * DNS_ERR_TIMEOUT) iff the request was already sent global_max_retransmits times, else retransmit (no callback, timer
 * pending again, tx_count + 1). */
#ifndef C34_FIRES
#define C34_FIRES 2
#endif
#ifndef C34_J2
#define C34_J2 C34_J        /* request whose timer fires second */
#endif
static int c34_gave_up, c34_retransmitted;
void harness_timeout(void)
{
	int f, j;
	c34_setup();
	for (f = 0; f < C34_FIRES; f++) {
		struct request *req; int tx, gave_up;
		j = (f == 0) ? C34_J : C34_J2;
		/* the event loop only fires timers that are pending */
		if (!c34_alive(j)) break;
		req = j == 0 ? c34_h[0]->current_req : c34_h[1]->current_req;
		if (!req || !req->ns || !vpe_event_is_pending(&req->timeout_event)) break;
		tx = req->tx_count;
		gave_up = tx >= c34_base->global_max_retransmits;
		(void)event_del(&req->timeout_event);          /* a timer that fires is no longer pending */
		{
			int c0 = c34_rec[0].calls, c1 = c34_rec[1].calls;
			evdns_request_timeout_callback(-1, EV_TIMEOUT, req);
			VP_ASSERT(c34_rec[0].calls == c0 && c34_rec[1].calls == c1, "C34: timeout callback is deferred");
		}
		c34_run_deferred();
		if (gave_up) {
			VP_ASSERT(c34_rec[j].calls == 1 && c34_rec[j].result == DNS_ERR_TIMEOUT, "C34: request that used up its transmissions: callback exactly once with DNS_ERR_TIMEOUT");
			c34_gave_up++;
		} else {
			struct request *now = j == 0 ? c34_h[0]->current_req : c34_h[1]->current_req;
			VP_ASSERT(c34_rec[j].calls == 0, "C34: callback although the request is being retransmitted");
			VP_ASSERT(now == req && req->tx_count == tx + 1, "C34: retransmission must count as a transmission of the same request");
			c34_retransmitted++;
		}
#if C34_NREQ == 2
		VP_ASSERT(c34_rec[1 - j].calls <= 1, "C34: more than one callback for a request");
#endif
		c34_check_base("timeout");
	}
	VP_ASSERT(c34_rec[0].calls <= 1 && c34_rec[1].calls <= 1, "C34: more than one callback for a request");
	VP_ASSERT(c34_gave_up + c34_retransmitted == C34_FIRES, "harness: every planned timer expiry must have been delivered");
	VP_WITNESS("C34 timeout: timer expiries handled (give up / retransmit as decided by the counters)");
	c34_cleanup();
	VP_ASSERT(c34_rec[0].calls <= 1 && c34_rec[1].calls <= 1, "C34: more than one callback for a request (after the base was freed)");
}

/* ------------------------------------------------------------- timeout, TCP */
/* Requests over TCP (DNS_QUERY_USEVC) share the nameserver's one connection: when the timeout of one of them fires
 * and it has transmissions left, the connection is torn down and ALL TCP requests of that nameserver are walked
 * (retransmit_all_tcp_requests_for): those with transmissions left are re-sent, the others are given up.
 * C34_STAGGER=0: both requests were made together (same tx_count), the timer of request C34_J fires.
 * C34_STAGGER=1: request 0 is made, its timer fires once (retransmitted, tx_count 2 of 2), THEN request 1 is made
 *                (tx_count 1) and its timer fires: the walk meets request 0, which has used up its transmissions. */
#ifndef C34_STAGGER
#define C34_STAGGER 0
#endif
void harness_timeout_tcp(void)
{
	struct request *req; int j = C34_J;
	c34_setup();             /* C34_TCP, C34_ATTEMPTS == 2; C34_NREQ == 2 (stagger 0) or 1 (stagger 1) */
#if C34_STAGGER
	req = c34_h[0]->current_req;
	__CPROVER_assume(req != NULL && vpe_event_is_pending(&req->timeout_event));
	(void)event_del(&req->timeout_event);
	evdns_request_timeout_callback(-1, EV_TIMEOUT, req);
	VP_ASSERT(c34_rec[0].calls == 0 && vpe_ndeferred == 0 && c34_h[0]->current_req == req && req->tx_count == 2, "C34: first TCP timeout must retransmit");
	c34_h[1] = evdns_base_resolve_ipv4(c34_base, "a", DNS_QUERY_NO_SEARCH | DNS_QUERY_USEVC, c34_cb, &c34_rec[1]);
	__CPROVER_assume(c34_h[1] != NULL);
	c34_check_base("second request");
	j = 1;
#endif
	req = j == 0 ? c34_h[0]->current_req : c34_h[1]->current_req;
	__CPROVER_assume(req != NULL && vpe_event_is_pending(&req->timeout_event));
	(void)event_del(&req->timeout_event);
#if C34_STAGGER
	VP_WITNESS("C34 tcp timeout: staggered state built, second timer fires");
#endif
	evdns_request_timeout_callback(-1, EV_TIMEOUT, req);
	VP_ASSERT(c34_rec[0].calls == 0 && c34_rec[1].calls == 0, "C34: timeout callback is deferred");
	c34_run_deferred();
#if C34_STAGGER
	VP_ASSERT(c34_rec[0].calls == 1 && c34_rec[0].result == DNS_ERR_TIMEOUT, "C34: TCP request that used up its transmissions: callback exactly once with DNS_ERR_TIMEOUT");
	VP_ASSERT(c34_rec[1].calls == 0, "C34: TCP request with transmissions left must be retransmitted, not answered");
#else
	VP_ASSERT(c34_rec[0].calls == 0 && c34_rec[1].calls == 0, "C34: TCP requests with transmissions left must be retransmitted, not answered");
	VP_ASSERT(c34_h[0]->current_req->tx_count == 2 && c34_h[1]->current_req->tx_count == 2, "C34: both TCP requests of the nameserver are retransmitted");
#endif
	c34_check_base("tcp timeout");
#if !C34_STAGGER
	VP_WITNESS("C34 tcp timeout: connection torn down, requests of the nameserver walked");
#endif
	c34_cleanup();
	VP_ASSERT(c34_rec[0].calls <= 1 && c34_rec[1].calls <= 1, "C34: more than one callback for a request");
}

/* ------------------------------------------------------------------- reply */
/* reply_handle() for a solver-chosen inflight request with solver-chosen header flags and an answer / no answer.
 * Expected outcome from RFC 1035 rcodes and the documented fallbacks. */
#define C34_TC 0x0200
static int c34_expected_error(unsigned flags, int have_reply, int have_answer)
{
	unsigned rcode = flags & 0xf;
	if (!(flags & (0xf | C34_TC)) && have_reply && have_answer) return DNS_ERR_NONE;
	if (flags & C34_TC) return DNS_ERR_TRUNCATED;
	if (rcode) return rcode == 1 ? DNS_ERR_FORMAT : rcode == 2 ? DNS_ERR_SERVERFAILED : rcode == 3 ? DNS_ERR_NOTEXIST :
	    rcode == 4 ? DNS_ERR_NOTIMPL : rcode == 5 ? DNS_ERR_REFUSED : DNS_ERR_UNKNOWN;
	if (have_reply && !have_answer) return DNS_ERR_NODATA;
	return DNS_ERR_UNKNOWN;
}
void harness_reply(void)
{
#ifndef C34_HAVE_REPLY
#define C34_HAVE_REPLY 1
#endif
#ifndef C34_HAVE_ANSWER
#define C34_HAVE_ANSWER 1
#endif
	const int j = C34_J, have_reply = C34_HAVE_REPLY, have_answer = C34_HAVE_ANSWER; int err, tx, terminating;
	unsigned flags = vp_u16();
	struct reply reply; struct request *req; struct nameserver *ns0;
	c34_setup();
#ifdef C34_RCODE     /* outcome class fixed per obligation.  cbmc does not fold (x & ~m | c) & m, so the other header bits are
                      * fixed too (QR RD RA = 0x8180): reply_handle reads nothing but RCODE and TC */
	flags = 0x8180u | (unsigned)C34_RCODE | (C34_TCBIT ? 0x200u : 0u);
#endif
	req = j == 0 ? c34_h[0]->current_req : c34_h[1]->current_req;
	__CPROVER_assume(req != NULL && req->ns != NULL);      /* replies are matched to inflight requests only */
	memset(&reply, 0, sizeof(reply));
	reply.type = TYPE_A; reply.have_answer = have_answer ? 1 : 0;
	if (have_answer) {
		reply.rr_count = 1;
		reply.data.a = mm_malloc(sizeof(u32));
		__CPROVER_assume(reply.data.a != NULL);
		reply.data.a[0] = vp_u32();
	}
	err = c34_expected_error(flags, have_reply, have_answer);
	tx = req->tx_count; ns0 = req->ns;
	EVDNS_LOCK(c34_base);
	reply_handle(req, (u16)flags, 60, have_reply ? &reply : NULL);
	EVDNS_UNLOCK(c34_base);
	VP_ASSERT(c34_rec[0].calls == 0 && c34_rec[1].calls == 0, "C34: reply callback is deferred");
	c34_run_deferred();
	/* non-terminating outcomes (the request goes on): TCP fallback on truncation (unless use-vc / ignore-tc), a
	 * SERVFAIL treated as a timeout with transmissions left, NOTIMPL/REFUSED reissued to another nameserver */
	terminating = 1;
	if (err == DNS_ERR_TRUNCATED) {
#ifndef C34_TCP
		terminating = 0;
#endif
	} else if (err == DNS_ERR_SERVERFAILED) terminating = tx >= c34_base->global_max_retransmits;
	else if (err == DNS_ERR_NOTIMPL || err == DNS_ERR_REFUSED) terminating = (C34_NNS == 1);
	if (terminating) {
		int want = err == DNS_ERR_SERVERFAILED ? DNS_ERR_TIMEOUT : err;
		VP_ASSERT(c34_rec[j].calls == 1, "C34: answered request: callback exactly once");
		VP_ASSERT(c34_rec[j].result == want, "C34: answered request: result code differs from the reply's outcome");
		if (err == DNS_ERR_NONE) VP_ASSERT(c34_rec[j].type == DNS_IPv4_A && c34_rec[j].count == 1, "C34: answer passed to the callback");
	} else {
		struct evdns_request *h = j == 0 ? c34_h[0] : c34_h[1];
		VP_ASSERT(c34_rec[j].calls == 0, "C34: callback although the request goes on (retransmission / TCP fallback / reissue)");
		VP_ASSERT(h->current_req != NULL, "C34: request that goes on has no current request");
		if (err == DNS_ERR_TRUNCATED) VP_ASSERT(h->tcp_flags & DNS_QUERY_USEVC, "C34: truncated reply: request must continue over TCP");
		if (err == DNS_ERR_REFUSED || err == DNS_ERR_NOTIMPL) VP_ASSERT(h->current_req->ns != ns0, "C34: reissued request must go to another nameserver");
	}
#if C34_NREQ == 2
	VP_ASSERT(c34_rec[1 - j].calls == 0, "C34: callback of a request that got no reply");
#endif
	if (have_answer && reply.data.a != NULL) mm_free(reply.data.a);   /* ownership stays with the caller unless delivered */
	c34_check_base("reply");
	VP_WITNESS("C34 reply: reply handled, callbacks run, invariant checked");
	c34_cleanup();
	VP_ASSERT(c34_rec[0].calls <= 1 && c34_rec[1].calls <= 1, "C34: more than one callback for a request (after the base was freed)");
}

/* -------------------------------------------------------------------- free */
/* evdns_base_free(fail_requests) with the requests inflight / waiting / already cancelled (callback scheduled):
 * fail_requests: DNS_ERR_SHUTDOWN exactly once per live request; otherwise no callback; cancelled ones still get their
 * DNS_ERR_CANCEL once; afterwards no event is pending (nothing can fire into freed memory), running the scheduled
 * callbacks touches nothing that was freed, nothing leaks. */
void harness_free(void)
{
#ifndef C34_FAIL
#define C34_FAIL 1
#endif
#ifndef C34_CANCEL0
#define C34_CANCEL0 0
#endif
	const int fail = C34_FAIL, cancel0 = C34_CANCEL0; int pending_before;
	c34_setup();
	if (cancel0) evdns_cancel_request(c34_base, c34_h[0]);
	pending_before = vpe_pending_events;
	evdns_base_free(c34_base, fail);
	c34_base_freed = 1;
	VP_ASSERT(c34_rec[0].calls == 0 && c34_rec[1].calls == 0, "C34: shutdown callbacks are deferred");
	VP_ASSERT(vpe_pending_events == 0, "C34: an event (request timeout, nameserver socket/probe) is still pending after evdns_base_free");
	VP_ASSERT(vpe_sockets_closed == vpe_sockets_open, "C34: nameserver socket not closed by evdns_base_free");
	c34_run_deferred();
	if (cancel0) VP_ASSERT(c34_rec[0].calls == 1 && c34_rec[0].result == DNS_ERR_CANCEL, "C34: request cancelled before the free: DNS_ERR_CANCEL exactly once");
	else VP_ASSERT(c34_rec[0].calls == (fail ? 1 : 0) && (!fail || c34_rec[0].result == DNS_ERR_SHUTDOWN), "C34: evdns_base_free(fail_requests): DNS_ERR_SHUTDOWN exactly once, otherwise no callback");
#if C34_NREQ == 2
	VP_ASSERT(c34_rec[1].calls == (fail ? 1 : 0) && (!fail || c34_rec[1].result == DNS_ERR_SHUTDOWN), "C34: evdns_base_free(fail_requests): DNS_ERR_SHUTDOWN exactly once, otherwise no callback (second request)");
#endif
	(void)pending_before;
	VP_WITNESS("C34 free: base freed, callbacks run");
}

/* -------------------------------------------------------------------- txid */
/* transaction_id_pick with the solver's RNG while 0..2 requests are inflight: never 0xffff, never an inflight id */
void harness_txid(void)
{
	u16 id; struct request *r; int n;
	c34_setup();
	c34_rng_symbolic = 1;
	EVDNS_LOCK(c34_base);
	id = transaction_id_pick(c34_base);
	EVDNS_UNLOCK(c34_base);
	VP_ASSERT(id != 0xffff, "C34: transaction_id_pick returned the reserved id 0xffff");
	r = c34_base->req_heads[0]; n = c34_ring_len(r);
	if (n >= 1) VP_ASSERT(r->trans_id != id, "C34: transaction_id_pick returned the id of an inflight request");
	if (n >= 2) VP_ASSERT(r->next->trans_id != id, "C34: transaction_id_pick returned the id of an inflight request (second)");
	VP_ASSERT(request_find_from_trans_id(c34_base, id) == NULL, "C34: picked id is found inflight");
#if C34_NREQ == 2
	if (n == 2 && c34_id_draws >= 2) VP_WITNESS("C34 txid: fresh id after a rejected draw, two requests inflight");
#endif
	if (n >= 1) VP_WITNESS("C34 txid: id picked with requests inflight");
	c34_rng_symbolic = 0;
	c34_cleanup();
}
