/* C23 (d): chunked request body.  The real evhttp_handle_chunked_read() on a
 * symbolic stream of up to VP_S bytes held in a flat evbuffer
 * (env/http_flatbuf.h) against ref_chunked_decode() (RFC 9112 7.1).
 *
 * Asserted: accepted streams are chunked bodies in the widest permitted reading
 * (body octets, end position); strictly grammatical streams are not refused.
 *
 * Known-finding predicate KF_CHUNK_CRLF: in the widest permitted reading the
 * stream is malformed because chunk-data is not followed by CRLF, or an empty
 * line stands where a chunk-size line is expected (the code skips any number of
 * empty lines before a chunk-size line and does not require the CRLF).
 */
#include "vp.h"
#include "log_stub.h"
#include "http_fmt.h"
#include "http_alloc.h"
#include "http_evutil.h"
#include "http.c"
#ifndef VP_S
#define VP_S 12
#endif
#define VP_FLAT_CAP VP_S
#define VP_FLAT_RANGES 1
#define VP_FLAT_NRANGES REF_MAXCHUNKS
#define REF_MAXSTREAM VP_S
#define REF_MAXLINE VP_S
#define REF_MAXCHUNKS ((VP_S / 5) + 2)
#include "http_flatbuf.h"
#include "http_ref.h"


void harness_chunked(void)
{
	unsigned char stream[VP_S];
	struct evhttp_request req;
	struct evhttp_connection evcon;
	struct evbuffer *in, *body;
	struct ref_chunked S, L;
	size_t n, i;
	enum message_read_status st;

	vp_bytes(stream, VP_S);
	n = (size_t)vp_range(0, VP_S);
	for (i = 0; i < VP_S; i++)
		__CPROVER_assume(i >= n || stream[i] != '\0'); /* NUL bytes in chunk-size lines: see OUT */
	memset(&req, 0, sizeof(req));
	memset(&evcon, 0, sizeof(evcon));
	in = evbuffer_new();
	body = evbuffer_new();
	vp_flat_put(in, stream, 0, n);
	in->is_stream = 1;
	req.evcon = &evcon;
	req.kind = EVHTTP_REQUEST;
	req.input_buffer = body;
	req.chunked = 1;
	req.ntoread = -1;
	evcon.max_body_size = EV_UINT64_MAX;

	ref_chunked_decode(stream, n, 0, &S);
	ref_chunked_decode(stream, n, 1, &L);

	st = evhttp_handle_chunked_read(&req, in);

	VP_ASSERT(st == ALL_DATA_READ || st == MORE_DATA_EXPECTED || st == DATA_CORRUPTED,
	    "C23: chunked read status is ALL_DATA_READ, MORE_DATA_EXPECTED or DATA_CORRUPTED (no limit, no chunk callback)");
	if (st == DATA_CORRUPTED) {
		VP_ASSERT(S.status == REF_C_REJECT, "C23: grammatical chunked body rejected (RFC 9112 7.1; chunk extensions MUST be ignored)");
		VP_WITNESS("chunked stream rejected");
	} else {
		int same = 1;
		/* (octets that cannot start the CRLF after chunk-data are an error; a line-based recipient sees it once
		 * the line is complete and asks for more data until then) */
		VP_ASSERT(L.status != REF_C_REJECT || (L.reject_at_eol && st == MORE_DATA_EXPECTED), "C23: stream accepted as chunked body that is not one (RFC 9112 7.1)");
		VP_ASSERT((st == ALL_DATA_READ) == (L.status == REF_C_DONE), "C23: last-chunk recognised exactly where the chunked body ends");
		if (L.status != REF_C_REJECT) {
			VP_ASSERT(evbuffer_get_length(body) == L.body_len, "C23: body length delivered != octets of the complete chunks");
			/* the body is the concatenation of the chunk-data ranges of the stream, in order */
			VP_ASSERT(body->nr == L.nchunks, "C23: number of chunks delivered != complete chunks on the wire");
			for (i = 0; i < REF_MAXCHUNKS; i++)
				if (i < L.nchunks && i < body->nr && (body->r_off[i] != L.c_off[i] || body->r_len[i] != L.c_len[i])) same = 0;
			VP_ASSERT(same, "C23: body octets delivered != chunk-data on the wire");
			VP_ASSERT(req.body_size == L.body_len || st == MORE_DATA_EXPECTED, "C23: body_size accounts exactly the chunk sizes");
			if (st == ALL_DATA_READ)
				VP_ASSERT(n - evbuffer_get_length(in) == L.consumed, "C23: bytes consumed != chunked body up to the last-chunk line");
		}
		if (st == ALL_DATA_READ && L.body_len == 2) VP_WITNESS("two body octets, last chunk seen");
		if (st == ALL_DATA_READ && L.saw_ext) VP_WITNESS("chunk extension ignored");
		if (st == MORE_DATA_EXPECTED && L.body_len == 1) VP_WITNESS("one octet delivered, more expected");
	}
}
