/* C32: outgoing WebSocket frames, close frame, base64, accept-key composition (ws.c) */
#include "vp.h"
#include "log_stub.h"
#include "locks.h"
#include "alloc.h"
#include "ws_ref.h"
#include "ws_env.h"
#include <stdio.h>
/* builtin_SHA1 is replaced by a recorder here (its equivalence to FIPS 180 SHA-1 is C32_sha1.c):
 * the composition obligation is that it is applied to exactly key || GUID and that the digest bytes
 * it returns are what gets base64-encoded */
#ifndef VP_KEYMAX
#define VP_KEYMAX 40
#endif
static char vp_sha_in[VP_KEYMAX + 40]; static int vp_sha_len, vp_sha_calls; static unsigned char vp_digest[20];
void builtin_SHA1(char *hash_out, const char *str, int len)
{
	int i; vp_sha_calls++; vp_sha_len = len;
	for (i = 0; i < len && i < (int)sizeof(vp_sha_in); i++) vp_sha_in[i] = str[i];
	for (i = 0; i < 20; i++) hash_out[i] = (char)vp_digest[i];
}
/* snprintf(buf, 1024, "%s" WS_UUID, key): C99 semantics */
int snprintf(char *buf, size_t size, const char *fmt, ...)
{
	va_list ap; const char *k; size_t pos = 0, i;
	VP_ASSERT(fmt[0] == '%' && fmt[1] == 's', "harness: unexpected snprintf format in ws.c");
	va_start(ap, fmt); k = va_arg(ap, const char *); va_end(ap);
	for (i = 0; k[i]; i++) { if (size && pos < size - 1) buf[pos] = k[i]; pos++; }
	for (i = 2; fmt[i]; i++) { if (size && pos < size - 1) buf[pos] = fmt[i]; pos++; }
	if (size) buf[pos < size ? pos : size - 1] = 0;
	return (int)pos;
}
#include "ws.c"

static const char B64[] = "ABCDEFGHIJKLMNOPQRSTUVWXYZabcdefghijklmnopqrstuvwxyz0123456789+/";
/* RFC 4648 base64 of n bytes, reference */
static size_t ref_b64(const unsigned char *in, size_t n, char *out)
{
	size_t i, o = 0;
	for (i = 0; i + 2 < n; i += 3) {
		unsigned v = ((unsigned)in[i] << 16) | ((unsigned)in[i + 1] << 8) | in[i + 2];
		out[o++] = B64[(v >> 18) & 63]; out[o++] = B64[(v >> 12) & 63]; out[o++] = B64[(v >> 6) & 63]; out[o++] = B64[v & 63];
	}
	if (n - i == 1) { unsigned v = (unsigned)in[i] << 16; out[o++] = B64[(v >> 18) & 63]; out[o++] = B64[(v >> 12) & 63]; out[o++] = '='; out[o++] = '='; }
	else if (n - i == 2) { unsigned v = ((unsigned)in[i] << 16) | ((unsigned)in[i + 1] << 8); out[o++] = B64[(v >> 18) & 63]; out[o++] = B64[(v >> 12) & 63]; out[o++] = B64[(v >> 6) & 63]; out[o++] = '='; }
	out[o] = 0;
	return o;
}

/* (a) Base64encode for every input of VP_B64N bytes (20 = a SHA-1 digest; 0..6 for the padding cases) */
#ifndef VP_B64N
#define VP_B64N 20
#endif
void harness_base64(void)
{
	unsigned char in[VP_B64N + 1]; char out[40], want[40]; int r; size_t wl, i;
	vp_bytes(in, VP_B64N);
	for (i = 0; i < sizeof(out); i++) out[i] = 'G';
	r = Base64encode(out, (const char *)in, VP_B64N);
	wl = ref_b64(in, VP_B64N, want);
	VP_ASSERT((size_t)r == wl + 1, "C32: Base64encode length differs from RFC 4648");
	i = (size_t)vp_range(0, 39);
	if (i <= wl) VP_ASSERT(out[i] == want[i], "C32: Base64encode output differs from RFC 4648 base64");
	else VP_ASSERT(out[i] == 'G', "C32: Base64encode wrote past its output");
	VP_WITNESS("encoded");
}

/* (b) accept key: SHA-1 is applied to exactly key || GUID, and the accept value is base64(digest) */
void harness_accept(void)
{
	char key[VP_KEYMAX + 1], out[32], want[40]; size_t kl = (size_t)vp_range(0, VP_KEYMAX), i; char *r;
	static const char guid[] = "258EAFA5-E914-47DA-95CA-C5AB0DC85B11";
	vp_bytes(key, VP_KEYMAX);
	for (i = 0; i < VP_KEYMAX; i++) __CPROVER_assume(key[i] != 0);
	key[kl] = 0;
	vp_bytes(vp_digest, 20);
	r = ws_gen_accept_key(key, out);
	VP_ASSERT(r == out && vp_sha_calls == 1, "C32: accept key computation did not hash exactly once");
	VP_ASSERT((size_t)vp_sha_len == kl + 36, "C32: SHA-1 input length is not len(key) + len(GUID)");
	i = (size_t)vp_range(0, VP_KEYMAX + 35);
	if (i < kl) VP_ASSERT(vp_sha_in[i] == key[i], "C32: SHA-1 input does not start with the client key");
	else if (i < kl + 36) VP_ASSERT(vp_sha_in[i] == guid[i - kl], "C32: SHA-1 input does not continue with the RFC 6455 GUID");
	ref_b64(vp_digest, 20, want);
	i = (size_t)vp_range(0, 28);
	VP_ASSERT(out[i] == want[i], "C32: Sec-WebSocket-Accept is not base64 of the SHA-1 digest");
	if (kl == 24) VP_WITNESS("24-character key");
	if (kl == 0) VP_WITNESS("empty key");
}

/* (c) outgoing data frame: single unmasked FIN frame, minimal length form, payload passed through */
void harness_make_frame(void)
{
	static unsigned char payload[16]; size_t len = vp_size(), i; int binary = vp_bool();
	struct ws_ref_frame f; unsigned char hdr[16]; size_t hl;
	struct evws_connection ws;
	__CPROVER_assume(len <= ((size_t)1 << 62));
	memset(&ws, 0, sizeof(ws)); ws.bufev = &vp_bev;
	if (binary) evws_send_binary(&ws, (const char *)payload, len);
	else make_ws_frame(&vp_out_buf, TEXT_FRAME, payload, len);
	VP_ASSERT(vp_nadds == 2, "C32: a message must be written as one header and one payload");
	VP_ASSERT(vp_adds[1].p == (const void *)payload && vp_adds[1].n == len, "C32: payload bytes are not exactly the caller's buffer");
	hl = vp_adds[0].n;
	VP_ASSERT(hl >= 2 && hl <= 10, "C32: frame header length out of range");
	for (i = 0; i < 16; i++) hdr[i] = i < hl ? vp_sink[i] : 0;
	/* decode the header with the reference decoder, pretending the payload follows */
	VP_ASSERT(ws_ref_header(hdr, hl, &f) == (len == 0 ? WSR_OK : WSR_MORE) || f.hdr_len == hl, "C32: header is not a well-formed RFC 6455 frame header");
	VP_ASSERT(f.hdr_len == hl, "C32: header length inconsistent with its length form");
	VP_ASSERT(f.fin == 1 && f.rsv == 0, "C32: outgoing frame must be a single FIN frame with RSV=0");
	VP_ASSERT(f.opcode == (binary ? 2 : 1), "C32: wrong opcode");
	VP_ASSERT(!f.masked, "C32: server frames must not be masked");
	VP_ASSERT(f.payload_len == (uint64_t)len, "C32: encoded length differs from the payload length");
	VP_ASSERT(f.minimal_len, "C32: length is not encoded in the minimal form");
	VP_ASSERT(vp_bev_lock_depth == 0, "C32: bufferevent left locked");
	if (len == 125) VP_WITNESS("len 125"); if (len == 126) VP_WITNESS("len 126");
	if (len == 65535) VP_WITNESS("len 65535"); if (len == 65536) VP_WITNESS("len 65536");
}

/* (d) close frame carries the status code; a second close is a no-op */
void harness_close(void)
{
	struct evws_connection ws; uint16_t code = vp_u16();
	memset(&ws, 0, sizeof(ws)); ws.bufev = &vp_bev;
	evws_close(&ws, code);
	VP_ASSERT(ws.closed, "C32: evws_close must mark the connection closed");
	VP_ASSERT(vp_sink_total == 4 && vp_sink[0] == 0x88 && vp_sink[1] == 2, "C32: close frame is not an unmasked FIN close frame with a 2-byte payload");
	VP_ASSERT(vp_sink[2] == (code >> 8) && vp_sink[3] == (code & 0xff), "C32: close frame does not carry the status code in network byte order");
	evws_close(&ws, (uint16_t)(code + 1));
	VP_ASSERT(vp_sink_total == 4, "C32: a second evws_close must not write another frame");
	VP_WITNESS("closed");
}
