/* C31(b): ws_evhttp_read_cb (ws.c) on a symbolic byte stream delivered in two reads split at a
 * solver-chosen point, vs the RFC 6455 reference message decoder run over the whole stream. */
#include "vp.h"
#include "log_stub.h"
#include "locks.h"
#include "alloc.h"
#ifndef VP_N
#define VP_N 12
#endif
#define WSR_MAXLEN VP_N
#define VP_FCAP (2 * VP_N)
#include "ws_ref.h"
#include "ws_flatbuf.h"
#include "ws.c"

int got_type[4]; size_t got_len[4]; unsigned char got_data[4][VP_N];
int ngot; int got_after_close;
static void on_msg(struct evws_connection *evws, int type, const unsigned char *data, size_t len, void *arg)
{
	size_t i; (void)arg;
	if (evws->closed) got_after_close++;
	if (ngot < 4) { got_type[ngot] = type; got_len[ngot] = len; for (i = 0; i < VP_N; i++) got_data[ngot][i] = i < len ? data[i] : 0; }
	ngot++;
}

void harness_stream(void)
{
	unsigned char s[VP_N]; size_t n = (size_t)vp_range(0, VP_N), k = (size_t)vp_range(0, VP_N), i; int m;
	struct evws_connection ws; struct ws_ref_stream ref;
	vp_bytes(s, VP_N);
	__CPROVER_assume(k <= n);
	/* RSV bits are not interpreted by either side: keep them 0 (outside the claim) */
	ws_ref_run(s, n, &ref);
#ifdef KF_EXCLUDE_fragmentation
	__CPROVER_assume(!ref.saw_fragmentation);
#endif
#ifdef KF_ONLY_fragmentation
	__CPROVER_assume(ref.saw_fragmentation);
#endif
	memset(&ws, 0, sizeof(ws));
	ws.bufev = &vp_bev; ws.cb = on_msg;
	vp_alive[0] = vp_alive[1] = 1;
	vp_bev_readcb = ws_evhttp_read_cb;
	evbuffer_add(VP_EB_IN, s, k);
	if (k > 0) ws_evhttp_read_cb(&vp_bev, &ws);
	if (vp_bev_readcb == ws_evhttp_read_cb && n > k) {   /* after evws_close() the read callback is uninstalled */
		evbuffer_add(VP_EB_IN, s + k, n - k);
		ws_evhttp_read_cb(&vp_bev, &ws);
	}
	VP_ASSERT(got_after_close == 0, "C31: a message was delivered after the connection was closed");
	VP_ASSERT(ngot == ref.nmsg, "C31: number of delivered messages differs from the RFC 6455 reference decoder");
	m = (int)vp_range(0, 2);
	if (m < ngot && m < ref.nmsg) {
		VP_ASSERT(got_type[m] == ref.msg_type[m], "C31: delivered message type differs from the reference");
		VP_ASSERT(got_len[m] == ref.msg_len[m], "C31: delivered message length differs from the reference");
		i = (size_t)vp_range(0, VP_N - 1);
		VP_ASSERT(got_data[m][i] == ref.msg_data[m][i], "C31: delivered payload differs from the reference");
	}
	VP_ASSERT((ws.closed != 0) == (ref.closed != 0), "C31: connection closed state differs from the reference (close frame / protocol error)");
	if (ref.nmsg == 2 && !ref.closed && k > 2 && k < n) VP_WITNESS("two messages, split inside the stream");
	if (ref.nmsg == 1 && ref.closed) VP_WITNESS("message then close");
	if (ref.nmsg == 0 && ref.closed && ref.consumed < n) VP_WITNESS("close followed by more bytes");
#ifndef KF_ONLY_fragmentation
	if (ref.nmsg == 1 && ref.msg_len[0] >= 4) VP_WITNESS("message with payload >= 4");
#endif
#ifndef KF_EXCLUDE_fragmentation
	if (ref.saw_fragmentation && ref.nmsg == 1) VP_WITNESS("fragmented message completed");
#endif
}
