/* C28: URI parsing / joining of http.c.
 *
 *  harness_parse    s = VP_PREFIX (concrete, may be empty) + symbolic tail of at most VP_N bytes (no NUL),
 *                   flags = VP_FLAGS (concrete) or any combination of NONCONFORMANT|HOST_STRIP_BRACKETS|UNIX_SOCKET.
 *                   u1 = evhttp_uri_parse_with_flags(s, flags).  If accepted:
 *                     (a) s is a valid URI-reference and the components of u1 are exactly the components
 *                         of s per ref/rfc3986_ref.h (RFC 3986 + the two documented extensions);
 *                     (b) evhttp_uri_join(u1) succeeds and its output parses, with the same flags, into
 *                         identical scheme, userinfo, host, unix socket, port, path, query, fragment.
 *                   If refused: s is not a valid URI-reference with a port <= 65535 (completeness;
 *                   -DVP_NO_COMPLETENESS drops this direction).
 *                   All memory is released by evhttp_uri_free.
 *  harness_setters  see below.
 *
 * Environment: evbuffer = contract model (C12 establishes it for buffer.c); evutil_inet_pton(AF_INET6) is cut
 * (C40 is the property about that syntax) and replaced by a deterministic oracle: one solver-chosen verdict
 * per run for texts over HEXDIG ":" "." of length >= 2, 0 for every other text; the harness asserts that all
 * texts asked about in one run are equal, so one verdict per run covers every deterministic inet_pton.
 */
#include "vp.h"
#include "log_stub.h"
#include "http_fmt.h"
#include "http_stralloc.h"
#include "event2/buffer.h"
#include "bytes.h"
#include "evbuf_contract.h"
#include "evbuf_contract_printf.h"
#include "http_evutil.h"
#include "evbuf_copy.h"

#ifndef VP_N
#define VP_N 7
#endif
#ifndef VP_PREFIX
#define VP_PREFIX ""
#endif
#define VP_PLEN (sizeof(VP_PREFIX) - 1)
#define VP_L (VP_PLEN + VP_N)          /* longest input */
#define VP_JMAX (2 * VP_L + 2)         /* join buffer */
#define R3986_MAX VP_L
#include "rfc3986_ref.h"

/* ---- oracle for the IPv6address syntax ---- */
static int vp_v6_verdict, vp_v6_calls, vp_v6_mismatch;
static char vp_v6_first[VP_L + 1];
static int vp_cut_inet_pton(int af, const char *src, void *dst)
{
	size_t i, n = 0;
	int cs = 1;
	(void)dst;
	VP_ASSERT(af == AF_INET6, "C28 env: the URI code only asks about AF_INET6 texts");
	for (i = 0; i < VP_L; i++) {
		char c = src[i];
		if (c == '\0') break;
		if (!(r3_hex((unsigned char)c) || c == ':' || c == '.')) cs = 0;
		if (vp_v6_calls == 0) vp_v6_first[i] = c; else if (vp_v6_first[i] != c) vp_v6_mismatch = 1;
		n++;
	}
	if (vp_v6_calls == 0) vp_v6_first[n] = '\0'; else if (vp_v6_first[n] != '\0') vp_v6_mismatch = 1;
	vp_v6_calls++;
	return (cs && n >= 2 && vp_v6_verdict) ? 1 : 0;
}
#define evutil_inet_pton vp_cut_inet_pton
#include "http.c"
#undef evutil_inet_pton

/* both NULL, or equal strings */
static int vp_opt_streq(const char *a, const char *b)
{
	size_t i;
	if (a == NULL || b == NULL) return a == NULL && b == NULL;
	for (i = 0; i <= VP_JMAX; i++) {
		if (a[i] != b[i]) return 0;
		if (a[i] == '\0') return 1;
	}
	return 1;
}
/* a (may be NULL) is the slice s[off..off+len) when present */
static int vp_slice_eq(const char *a, int present, const unsigned char *s, size_t off, size_t len)
{
	size_t i;
	if (!present) return a == NULL;
	if (a == NULL) return 0;
	for (i = 0; i < VP_L; i++)
		if (i < len && (unsigned char)a[i] != s[off + i]) return 0;
	return a[len] == '\0';
}

static unsigned vp_flags(void)
{
#ifdef VP_FLAGS
	return (unsigned)VP_FLAGS;
#else
	unsigned f = 0;
	if (vp_bool()) f |= EVHTTP_URI_NONCONFORMANT;
	if (vp_bool()) f |= EVHTTP_URI_HOST_STRIP_BRACKETS;
	if (vp_bool()) f |= EVHTTP_URI_UNIX_SOCKET;
	return f;
#endif
}

void harness_parse(void)
{
	unsigned char s[VP_L + 1];
	char buf[VP_JMAX];
	struct r3986 R;
	struct evhttp_uri *u1, *u2;
	size_t tlen = (size_t)vp_range(0, VP_N), len, i;
	unsigned flags = vp_flags();
	char *j;

	for (i = 0; i < VP_PLEN; i++) s[i] = (unsigned char)VP_PREFIX[i];
	vp_bytes(s + VP_PLEN, VP_N);
	for (i = 0; i < VP_N; i++) {
		if (i >= tlen) s[VP_PLEN + i] = 0;
		else __CPROVER_assume(s[VP_PLEN + i] != 0);
	}
	s[VP_L] = 0;
	len = VP_PLEN + tlen;
	vp_v6_verdict = vp_bool();

	r3986_split(s, len, (flags & EVHTTP_URI_NONCONFORMANT) != 0, (flags & EVHTTP_URI_UNIX_SOCKET) != 0, vp_v6_verdict, &R);
	u1 = evhttp_uri_parse_with_flags((const char *)s, flags);

	if (u1 == NULL) {
#if !defined(VP_NO_COMPLETENESS) && !defined(VP_ONLY_ROUNDTRIP)
		VP_ASSERT(!(R.valid && !R.port_big), "C28: valid URI-reference (RFC 3986, port <= 65535) refused");
#endif
		if (!R.valid && len == VP_L) VP_WITNESS("parse: invalid reference refused");
		VP_ASSERT(vp_alloc_calls == vp_free_calls, "C28: refused parse leaks memory");
		return;
	}
#ifndef VP_ONLY_ROUNDTRIP
	/* (a) components == RFC 3986 components */
	VP_ASSERT(R.valid, "C28: accepted string is not a valid URI-reference");
	VP_ASSERT(vp_slice_eq(evhttp_uri_get_scheme(u1), R.has_scheme, s, R.scheme_off, R.scheme_len), "C28: scheme != RFC 3986 scheme of the input");
	VP_ASSERT(vp_slice_eq(evhttp_uri_get_userinfo(u1), R.has_userinfo, s, R.ui_off, R.ui_len), "C28: userinfo != RFC 3986 userinfo of the input");
	if (R.host_bracketed && (flags & EVHTTP_URI_HOST_STRIP_BRACKETS))
		VP_ASSERT(vp_slice_eq(evhttp_uri_get_host(u1), 1, s, R.host_off + 1, R.host_len - 2), "C28: host != IP-literal of the input without brackets (HOST_STRIP_BRACKETS)");
	else
		VP_ASSERT(vp_slice_eq(evhttp_uri_get_host(u1), R.has_auth && !R.has_unix, s, R.host_off, R.host_len), "C28: host != RFC 3986 host of the input");
	VP_ASSERT(vp_slice_eq(evhttp_uri_get_unixsocket(u1), R.has_unix, s, R.unix_off, R.unix_len), "C28: unix socket != socket path of the input");
	VP_ASSERT(evhttp_uri_get_port(u1) == R.port, "C28: port != RFC 3986 port of the input");
	VP_ASSERT(vp_slice_eq(evhttp_uri_get_path(u1), 1, s, R.path_off, R.path_len), "C28: path != RFC 3986 path of the input");
	VP_ASSERT(vp_slice_eq(evhttp_uri_get_query(u1), R.has_query, s, R.q_off, R.q_len), "C28: query != RFC 3986 query of the input");
	VP_ASSERT(vp_slice_eq(evhttp_uri_get_fragment(u1), R.has_frag, s, R.f_off, R.f_len), "C28: fragment != RFC 3986 fragment of the input");

#endif
#ifdef VP_ONLY_SPLIT
	if (len == VP_L) VP_WITNESS("parse: accepted at full length");
	if (R.has_scheme && R.has_auth && R.path_len > 0) VP_WITNESS("parse: scheme + authority + path");
	if (R.has_query && R.has_frag) VP_WITNESS("parse: query and fragment");
	evhttp_uri_free(u1);
	VP_ASSERT(vp_alloc_calls == vp_free_calls, "C28: evhttp_uri_free leaves memory behind");
#else
	/* (b) join, parse again */
	j = evhttp_uri_join(u1, buf, sizeof(buf));
	VP_ASSERT(j == buf, "C28: evhttp_uri_join refuses a parsed URI");
	if (j != buf) return;
	u2 = evhttp_uri_parse_with_flags(buf, flags);
	VP_ASSERT(!vp_v6_mismatch, "C28: the joined URI carries a different IP-literal");
	VP_ASSERT(u2 != NULL, "C28: joined URI does not parse with the same flags");
	if (u2 == NULL) return;
	VP_ASSERT(vp_opt_streq(evhttp_uri_get_scheme(u1), evhttp_uri_get_scheme(u2)), "C28: scheme changed by join+parse");
	VP_ASSERT(vp_opt_streq(evhttp_uri_get_userinfo(u1), evhttp_uri_get_userinfo(u2)), "C28: userinfo changed by join+parse");
	VP_ASSERT(vp_opt_streq(evhttp_uri_get_host(u1), evhttp_uri_get_host(u2)), "C28: host changed by join+parse");
	VP_ASSERT(vp_opt_streq(evhttp_uri_get_unixsocket(u1), evhttp_uri_get_unixsocket(u2)), "C28: unix socket changed by join+parse");
	VP_ASSERT(evhttp_uri_get_port(u1) == evhttp_uri_get_port(u2), "C28: port changed by join+parse");
	VP_ASSERT(vp_opt_streq(evhttp_uri_get_path(u1), evhttp_uri_get_path(u2)), "C28: path changed by join+parse");
	VP_ASSERT(vp_opt_streq(evhttp_uri_get_query(u1), evhttp_uri_get_query(u2)), "C28: query changed by join+parse");
	VP_ASSERT(vp_opt_streq(evhttp_uri_get_fragment(u1), evhttp_uri_get_fragment(u2)), "C28: fragment changed by join+parse");

	if (len == VP_L) VP_WITNESS("parse: accepted at full length");
	if (R.has_scheme && R.has_auth && R.path_len > 0) VP_WITNESS("parse: scheme + authority + path");
	if (R.has_query && R.has_frag) VP_WITNESS("parse: query and fragment");
#ifdef VP_WIT_PORT
	if (R.port >= 0 && R.has_userinfo) VP_WITNESS("parse: userinfo and port");
#endif
#ifdef VP_WIT_V6
	if (R.host_bracketed && R.asked_v6) VP_WITNESS("parse: IPv6 literal");
	if (R.host_bracketed && !R.asked_v6) VP_WITNESS("parse: IPvFuture literal");
#endif
#ifdef VP_WIT_UNIX
	if (R.has_unix && R.path_len > 0) VP_WITNESS("parse: unix socket with path");
	if (R.has_unix && R.has_userinfo) VP_WITNESS("parse: unix socket with userinfo");
#endif
	evhttp_uri_free(u1);
	evhttp_uri_free(u2);
	VP_ASSERT(vp_alloc_calls == vp_free_calls, "C28: evhttp_uri_free leaves memory behind");
#endif
}
