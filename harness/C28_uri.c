/* C28: URI parsing / joining of http.c.
 *
 *  harness_parse    s = VP_PREFIX (concrete, may be empty) + symbolic tail of at most VP_N bytes (no NUL),
 *                   flags = VP_FLAGS (concrete) or any combination of NONCONFORMANT|HOST_STRIP_BRACKETS|UNIX_SOCKET.
 *                   u1 = evhttp_uri_parse_with_flags(s, flags).  If accepted:
 *                     (a) s is a valid URI-reference and the components of u1 are exactly the components
 *                         of s per ref/rfc3986_ref.h (RFC 3986 + the two documented extensions);
 *                     (b) evhttp_uri_join(u1) succeeds and its output parses, with the same flags, into
 *                         identical scheme, userinfo, host, unix socket, port, path, query, fragment.
 *                   If refused: s is not a valid URI-reference with a port <= 65535 (completeness;
 *                   -DVP_NO_COMPLETENESS drops this direction).
 *                   All memory is released by evhttp_uri_free.
 *  harness_setters  see below.
 *
 * Environment: evbuffer = contract model (C12 establishes it for buffer.c); evutil_inet_pton(AF_INET6) is cut
 * (C40 is the property about that syntax) and replaced by a deterministic oracle: one solver-chosen verdict
 * per run for texts over HEXDIG ":" "." of length >= 2, 0 for every other text; the harness asserts that all
 * texts asked about in one run are equal, so one verdict per run covers every deterministic inet_pton.
 */
#include "vp.h"
#include "log_stub.h"
#include "http_fmt.h"
#include "http_stralloc.h"
#include "event2/buffer.h"
#include "bytes.h"
#include "evbuf_contract.h"
#include "evbuf_contract_printf.h"
#include "http_evutil.h"
#include "evbuf_copy.h"

#ifndef VP_N
#define VP_N 7
#endif
#ifndef VP_PREFIX
#define VP_PREFIX ""
#endif
#define VP_PLEN (sizeof(VP_PREFIX) - 1)
#define VP_L (VP_PLEN + VP_N)          /* longest input */
#define VP_JMAX (2 * VP_L + 2)         /* join buffer */
#define R3986_MAX VP_L
#include "rfc3986_ref.h"

/* ---- oracle for the IPv6address syntax ---- */
static int vp_v6_verdict, vp_v6_calls, vp_v6_mismatch;
static char vp_v6_first[VP_L + 1];
static int vp_cut_inet_pton(int af, const char *src, void *dst)
{
	size_t i, n = 0;
	int cs = 1;
	(void)dst;
	VP_ASSERT(af == AF_INET6, "C28 env: the URI code only asks about AF_INET6 texts");
	for (i = 0; i < VP_L; i++) {
		char c = src[i];
		if (c == '\0') break;
		if (!(r3_hex((unsigned char)c) || c == ':' || c == '.')) cs = 0;
		if (vp_v6_calls == 0) vp_v6_first[i] = c; else if (vp_v6_first[i] != c) vp_v6_mismatch = 1;
		n++;
	}
	if (vp_v6_calls == 0) vp_v6_first[n] = '\0'; else if (vp_v6_first[n] != '\0') vp_v6_mismatch = 1;
	vp_v6_calls++;
	return (cs && n >= 2 && vp_v6_verdict) ? 1 : 0;
}
#define evutil_inet_pton vp_cut_inet_pton
#include "http.c"
#undef evutil_inet_pton

/* both NULL, or equal strings */
static int vp_opt_streq(const char *a, const char *b)
{
	size_t i;
	if (a == NULL || b == NULL) return a == NULL && b == NULL;
	for (i = 0; i <= VP_JMAX; i++) {
		if (a[i] != b[i]) return 0;
		if (a[i] == '\0') return 1;
	}
	return 1;
}
/* a (may be NULL) is the slice s[off..off+len) when present */
static int vp_slice_eq(const char *a, int present, const unsigned char *s, size_t off, size_t len)
{
	size_t i;
	if (!present) return a == NULL;
	if (a == NULL) return 0;
	for (i = 0; i < VP_L; i++)
		if (i < len && (unsigned char)a[i] != s[off + i]) return 0;
	return a[len] == '\0';
}

static unsigned vp_flags(void)
{
#ifdef VP_FLAGS
	return (unsigned)VP_FLAGS;
#else
	unsigned f = 0;
	if (vp_bool()) f |= EVHTTP_URI_NONCONFORMANT;
	if (vp_bool()) f |= EVHTTP_URI_HOST_STRIP_BRACKETS;
	if (vp_bool()) f |= EVHTTP_URI_UNIX_SOCKET;
	return f;
#endif
}

static void vp_parse_witnesses(const struct r3986 *R, size_t len)
{
	if (len == VP_L) VP_WITNESS("parse: accepted at full length");
#ifndef VP_NO_WIT_QF
	if (R->has_query && R->has_frag) VP_WITNESS("parse: query and fragment");
#endif
#ifdef VP_WIT_SCHEME
	if (R->has_scheme && R->has_auth && R->path_len > 0) VP_WITNESS("parse: scheme + authority + path");
#endif
#ifdef VP_WIT_PORT
	if (R->port >= 0 && R->has_userinfo) VP_WITNESS("parse: userinfo and port");
#endif
#ifdef VP_WIT_V6ONLY   /* '//[' + 4 bytes: "[::]" fits, the shortest IPvFuture literal "[v1.x]" does not */
	if (R->host_bracketed && R->asked_v6) VP_WITNESS("parse: IPv6 literal");
#endif
#ifdef VP_WIT_V6
	if (R->host_bracketed && R->asked_v6) VP_WITNESS("parse: IPv6 literal");
	if (R->host_bracketed && !R->asked_v6) VP_WITNESS("parse: IPvFuture literal");
#endif
#ifdef VP_WIT_UNIX
	if (R->has_unix && R->path_len > 0) VP_WITNESS("parse: unix socket with path");
#endif
#ifdef VP_WIT_UNIX_UI
	if (R->has_unix && R->has_userinfo) VP_WITNESS("parse: unix socket with userinfo");
#endif
}

void harness_parse(void)
{
	unsigned char s[VP_L + 1];
	char buf[VP_JMAX];
	struct r3986 R;
	struct evhttp_uri *u1, *u2;
	size_t tlen = (size_t)vp_range(0, VP_N), len, i;
	unsigned flags = vp_flags();
	char *j;

	for (i = 0; i < VP_PLEN; i++) s[i] = (unsigned char)VP_PREFIX[i];
	vp_bytes(s + VP_PLEN, VP_N);
	for (i = 0; i < VP_N; i++) {
		if (i >= tlen) s[VP_PLEN + i] = 0;
		else __CPROVER_assume(s[VP_PLEN + i] != 0);
	}
	s[VP_L] = 0;
	len = VP_PLEN + tlen;
	vp_v6_verdict = vp_bool();

	r3986_split(s, len, (flags & EVHTTP_URI_NONCONFORMANT) != 0, (flags & EVHTTP_URI_UNIX_SOCKET) != 0, vp_v6_verdict, &R);
	u1 = evhttp_uri_parse_with_flags((const char *)s, flags);

	if (u1 == NULL) {
#if !defined(VP_NO_COMPLETENESS) && !defined(VP_ONLY_ROUNDTRIP)
		VP_ASSERT(!(R.valid && !R.port_big), "C28: valid URI-reference (RFC 3986, port <= 65535) refused");
#endif
		if (!R.valid && len == VP_L) VP_WITNESS("parse: invalid reference refused");
		VP_ASSERT(vp_alloc_calls == vp_free_calls, "C28: refused parse leaks memory");
		return;
	}
#ifndef VP_ONLY_ROUNDTRIP
	/* (a) components == RFC 3986 components */
	VP_ASSERT(R.valid, "C28: accepted string is not a valid URI-reference");
	VP_ASSERT(vp_slice_eq(evhttp_uri_get_scheme(u1), R.has_scheme, s, R.scheme_off, R.scheme_len), "C28: scheme != RFC 3986 scheme of the input");
	VP_ASSERT(vp_slice_eq(evhttp_uri_get_userinfo(u1), R.has_userinfo, s, R.ui_off, R.ui_len), "C28: userinfo != RFC 3986 userinfo of the input");
	if (R.host_bracketed && (flags & EVHTTP_URI_HOST_STRIP_BRACKETS))
		VP_ASSERT(vp_slice_eq(evhttp_uri_get_host(u1), 1, s, R.host_off + 1, R.host_len - 2), "C28: host != IP-literal of the input without brackets (HOST_STRIP_BRACKETS)");
	else
		VP_ASSERT(vp_slice_eq(evhttp_uri_get_host(u1), R.has_auth && !R.has_unix, s, R.host_off, R.host_len), "C28: host != RFC 3986 host of the input");
	VP_ASSERT(vp_slice_eq(evhttp_uri_get_unixsocket(u1), R.has_unix, s, R.unix_off, R.unix_len), "C28: unix socket != socket path of the input");
	VP_ASSERT(evhttp_uri_get_port(u1) == R.port, "C28: port != RFC 3986 port of the input");
	VP_ASSERT(vp_slice_eq(evhttp_uri_get_path(u1), 1, s, R.path_off, R.path_len), "C28: path != RFC 3986 path of the input");
	VP_ASSERT(vp_slice_eq(evhttp_uri_get_query(u1), R.has_query, s, R.q_off, R.q_len), "C28: query != RFC 3986 query of the input");
	VP_ASSERT(vp_slice_eq(evhttp_uri_get_fragment(u1), R.has_frag, s, R.f_off, R.f_len), "C28: fragment != RFC 3986 fragment of the input");

#endif
#ifdef VP_ONLY_SPLIT
	vp_parse_witnesses(&R, len);
	evhttp_uri_free(u1);
	VP_ASSERT(vp_alloc_calls == vp_free_calls, "C28: evhttp_uri_free leaves memory behind");
#else
	/* (b) join, parse again */
	j = evhttp_uri_join(u1, buf, sizeof(buf));
	VP_ASSERT(j == buf, "C28: evhttp_uri_join refuses a parsed URI");
	if (j != buf) return;
	u2 = evhttp_uri_parse_with_flags(buf, flags);
	VP_ASSERT(!vp_v6_mismatch, "C28: the joined URI carries a different IP-literal");
	VP_ASSERT(u2 != NULL, "C28: joined URI does not parse with the same flags");
	if (u2 == NULL) return;
	VP_ASSERT(vp_opt_streq(evhttp_uri_get_scheme(u1), evhttp_uri_get_scheme(u2)), "C28: scheme changed by join+parse");
	VP_ASSERT(vp_opt_streq(evhttp_uri_get_userinfo(u1), evhttp_uri_get_userinfo(u2)), "C28: userinfo changed by join+parse");
	VP_ASSERT(vp_opt_streq(evhttp_uri_get_host(u1), evhttp_uri_get_host(u2)), "C28: host changed by join+parse");
	VP_ASSERT(vp_opt_streq(evhttp_uri_get_unixsocket(u1), evhttp_uri_get_unixsocket(u2)), "C28: unix socket changed by join+parse");
	VP_ASSERT(evhttp_uri_get_port(u1) == evhttp_uri_get_port(u2), "C28: port changed by join+parse");
	VP_ASSERT(vp_opt_streq(evhttp_uri_get_path(u1), evhttp_uri_get_path(u2)), "C28: path changed by join+parse");
	VP_ASSERT(vp_opt_streq(evhttp_uri_get_query(u1), evhttp_uri_get_query(u2)), "C28: query changed by join+parse");
	VP_ASSERT(vp_opt_streq(evhttp_uri_get_fragment(u1), evhttp_uri_get_fragment(u2)), "C28: fragment changed by join+parse");

	vp_parse_witnesses(&R, len);
	evhttp_uri_free(u1);
	evhttp_uri_free(u2);
	VP_ASSERT(vp_alloc_calls == vp_free_calls, "C28: evhttp_uri_free leaves memory behind");
#endif
}

/* ------------------------------------------------------------------ setters
 * A URI is built with evhttp_uri_new + evhttp_uri_set_flags + the setters; which components are set, and
 * their contents (strings of at most VP_K* bytes, port any int in [VP_PORT_LO, VP_PORT_HI]), are chosen by the solver.
 * If every setter accepts:  evhttp_uri_join either refuses (NULL) or its output parses -- with the flags
 * given to evhttp_uri_set_flags -- into exactly the components that were set (a path that was never set,
 * or set to NULL, compares equal to the empty path: a parsed URI always has a path).
 * A refused setter must leave the component as it was (checked through the getters).
 * VP_K* < 0: that component is never set in this obligation.
 */
#ifndef VP_KS
#define VP_KS 1
#endif
#ifndef VP_KU
#define VP_KU 1
#endif
#ifndef VP_KH
#define VP_KH 2
#endif
#ifndef VP_KX
#define VP_KX -1
#endif
#ifndef VP_KP
#define VP_KP 3
#endif
#ifndef VP_KQ
#define VP_KQ 1
#endif
#ifndef VP_KF
#define VP_KF 1
#endif
#define VP_KMAX 8
#ifndef VP_KH2            /* harness_host_seq: longest second host */
#define VP_KH2 VP_KH
#endif
#define VP_POS(k) ((k) > 0 ? (k) : 0)
#ifndef VP_PORT_LO          /* port range; VP_PORT_HI < VP_PORT_LO: the port is never set */
#define VP_PORT_LO -2
#define VP_PORT_HI 70000
#endif
#ifndef VP_SJMAX           /* join buffer: longest possible output + NUL (props/C28.py computes the exact maximum) */
#define VP_SJMAX (VP_POS(VP_KS) + VP_POS(VP_KU) + VP_POS(VP_KH) + VP_POS(VP_KX) + VP_POS(VP_KP) + VP_POS(VP_KQ) + VP_POS(VP_KF) + 22)
#endif

/* draws "set this component?" and a C string of at most k bytes; returns NULL when not set */
static const char *vp_component(char *store, int k)
{
	size_t n, i;
	if (k < 0 || !vp_bool()) return NULL;
	n = (size_t)vp_range(0, (uint64_t)k);
	for (i = 0; i < VP_KMAX; i++) {
		if ((int)i < k) {
			store[i] = (char)vp_u8();
			if (i >= n) store[i] = 0; else __CPROVER_assume(store[i] != 0);
		} else store[i] = 0;
	}
	store[VP_KMAX] = 0;
	return store;
}

void harness_setters(void)
{
	char cs[VP_KMAX + 1], cu[VP_KMAX + 1], ch[VP_KMAX + 1], cx[VP_KMAX + 1], cp[VP_KMAX + 1], cq[VP_KMAX + 1], cf[VP_KMAX + 1];
	char buf[VP_SJMAX];
	const char *scheme, *userinfo, *host, *usock, *path, *query, *fragment;
	struct evhttp_uri *u, *u2;
	unsigned flags = vp_flags();
	int port, setport, r, stripped;
	char *j;

	vp_v6_verdict = vp_bool();
	u = evhttp_uri_new();
	__CPROVER_assume(u != NULL);
	evhttp_uri_set_flags(u, flags);

	scheme = vp_component(cs, VP_KS);
	userinfo = vp_component(cu, VP_KU);
	host = vp_component(ch, VP_KH);
	usock = vp_component(cx, VP_KX);
	path = vp_component(cp, VP_KP);
	query = vp_component(cq, VP_KQ);
	fragment = vp_component(cf, VP_KF);
#if VP_PORT_HI >= VP_PORT_LO
	setport = vp_bool();
	port = (int)vp_range(0, VP_PORT_HI - VP_PORT_LO) + VP_PORT_LO;
#else
	setport = 0; port = -1;
#endif

	r = 0;
	if (scheme && evhttp_uri_set_scheme(u, scheme) < 0) { r = -1; VP_ASSERT(evhttp_uri_get_scheme(u) == NULL, "C28: refused evhttp_uri_set_scheme changed the scheme"); }
	if (userinfo && evhttp_uri_set_userinfo(u, userinfo) < 0) { r = -1; VP_ASSERT(evhttp_uri_get_userinfo(u) == NULL, "C28: refused evhttp_uri_set_userinfo changed the userinfo"); }
	if (host && evhttp_uri_set_host(u, host) < 0) { r = -1; VP_ASSERT(evhttp_uri_get_host(u) == NULL, "C28: refused evhttp_uri_set_host changed the host"); }
	if (usock && evhttp_uri_set_unixsocket(u, usock) < 0) { r = -1; VP_ASSERT(evhttp_uri_get_unixsocket(u) == NULL, "C28: refused evhttp_uri_set_unixsocket changed the socket"); }
	if (setport && evhttp_uri_set_port(u, port) < 0) { r = -1; VP_ASSERT(evhttp_uri_get_port(u) == -1, "C28: refused evhttp_uri_set_port changed the port"); }
	if (path && evhttp_uri_set_path(u, path) < 0) { r = -1; VP_ASSERT(evhttp_uri_get_path(u) == NULL, "C28: refused evhttp_uri_set_path changed the path"); }
	if (query && evhttp_uri_set_query(u, query) < 0) { r = -1; VP_ASSERT(evhttp_uri_get_query(u) == NULL, "C28: refused evhttp_uri_set_query changed the query"); }
	if (fragment && evhttp_uri_set_fragment(u, fragment) < 0) { r = -1; VP_ASSERT(evhttp_uri_get_fragment(u) == NULL, "C28: refused evhttp_uri_set_fragment changed the fragment"); }
	if (r < 0) {
		VP_WITNESS("setters: a component was refused");
		return;
	}
	if (!setport) port = -1;
	stripped = host && host[0] == '[' && (flags & EVHTTP_URI_HOST_STRIP_BRACKETS);
	/* what the getters report is what was set (IP-literal without brackets under HOST_STRIP_BRACKETS) */
	VP_ASSERT(vp_opt_streq(evhttp_uri_get_scheme(u), scheme) && vp_opt_streq(evhttp_uri_get_userinfo(u), userinfo) &&
	    vp_opt_streq(evhttp_uri_get_unixsocket(u), usock) && evhttp_uri_get_port(u) == port && vp_opt_streq(evhttp_uri_get_path(u), path) &&
	    vp_opt_streq(evhttp_uri_get_query(u), query) && vp_opt_streq(evhttp_uri_get_fragment(u), fragment), "C28: getter does not return what the setter accepted");
	if (!stripped)
		VP_ASSERT(vp_opt_streq(evhttp_uri_get_host(u), host), "C28: evhttp_uri_get_host does not return what evhttp_uri_set_host accepted");

	j = evhttp_uri_join(u, buf, sizeof(buf));
	if (j == NULL) {
		VP_WITNESS("setters: join refuses");
		return;
	}
	VP_ASSERT(j == buf, "C28: evhttp_uri_join returns its buffer");
	u2 = evhttp_uri_parse_with_flags(buf, flags);
	VP_ASSERT(u2 != NULL, "C28: URI built with the setters joins into a string that does not parse");
	if (u2 == NULL) return;
	VP_ASSERT(vp_opt_streq(evhttp_uri_get_scheme(u), evhttp_uri_get_scheme(u2)), "C28: setters+join: scheme does not survive");
	VP_ASSERT(vp_opt_streq(evhttp_uri_get_userinfo(u), evhttp_uri_get_userinfo(u2)), "C28: setters+join: userinfo does not survive");
	VP_ASSERT(vp_opt_streq(evhttp_uri_get_host(u), evhttp_uri_get_host(u2)), "C28: setters+join: host does not survive");
	VP_ASSERT(vp_opt_streq(evhttp_uri_get_unixsocket(u), evhttp_uri_get_unixsocket(u2)), "C28: setters+join: unix socket does not survive");
	VP_ASSERT(evhttp_uri_get_port(u) == evhttp_uri_get_port(u2), "C28: setters+join: port does not survive");
	VP_ASSERT(vp_opt_streq(evhttp_uri_get_path(u) ? evhttp_uri_get_path(u) : "", evhttp_uri_get_path(u2)), "C28: setters+join: path does not survive");
	VP_ASSERT(vp_opt_streq(evhttp_uri_get_query(u), evhttp_uri_get_query(u2)), "C28: setters+join: query does not survive");
	VP_ASSERT(vp_opt_streq(evhttp_uri_get_fragment(u), evhttp_uri_get_fragment(u2)), "C28: setters+join: fragment does not survive");
#ifdef VP_WIT_FULL
	if (host && path && path[0] && port >= 0) VP_WITNESS("setters: authority + port + path round trip");
#endif
#ifdef VP_WIT_REL
	if (!scheme && !host && !usock) VP_WITNESS("setters: relative reference round trip");
#endif
	VP_WITNESS("setters: joined URI parsed back");
#if VP_KX >= 0
	if (usock) VP_WITNESS("setters: unix socket URI round trip");
#endif
#ifdef VP_WIT_V6
	if (stripped) VP_WITNESS("setters: stripped IP-literal round trip");
#endif
	evhttp_uri_free(u);
	evhttp_uri_free(u2);
	VP_ASSERT(vp_alloc_calls == vp_free_calls, "C28: evhttp_uri_free leaves memory behind");
}

/* --------------------------------------------------------------- join limit
 * evhttp_uri_join(uri, buf, limit) on a URI with a symbolic host, path and query (each optional, at most
 * VP_KH / VP_KP / VP_KQ bytes) set through the setters, limit any value up to the buffer size: succeeds exactly when the joined text plus its NUL fits
 * into `limit` bytes, then returns buf holding the same text as a join into a large buffer; it never writes at
 * or behind buf[limit] (bytes there keep their solver-chosen values), also when it refuses.
 */
#define VP_LJ (VP_SJMAX + 2)
void harness_join_limit(void)
{
	char ch[VP_KMAX + 1], cp[VP_KMAX + 1], cq[VP_KMAX + 1];
	char big[VP_LJ], buf[VP_LJ], canary[VP_LJ];
	const char *host, *path, *query;
	struct evhttp_uri *u = evhttp_uri_new();
	size_t i, full, limit = (size_t)vp_range(0, VP_LJ);
	int same = 1, intact = 1;
	char *j;

	__CPROVER_assume(u != NULL);
	evhttp_uri_set_flags(u, EVHTTP_URI_NONCONFORMANT);
	host = vp_component(ch, VP_KH); path = vp_component(cp, VP_KP); query = vp_component(cq, VP_KQ);
	if ((host && evhttp_uri_set_host(u, host) < 0) || (path && evhttp_uri_set_path(u, path) < 0) || (query && evhttp_uri_set_query(u, query) < 0))
		return;
	j = evhttp_uri_join(u, big, sizeof(big));
	if (j == NULL) return;                        /* unrepresentable component set (see harness_setters) */
	VP_ASSERT(j == big, "C28: evhttp_uri_join returns its buffer");
	full = strlen(big) + 1;
	vp_bytes(canary, VP_LJ);
	for (i = 0; i < VP_LJ; i++) buf[i] = canary[i];
	j = evhttp_uri_join(u, buf, limit);
	VP_ASSERT((j != NULL) == (limit >= full), "C28: evhttp_uri_join succeeds exactly when the text and its NUL fit into limit");
	VP_ASSERT(j == NULL || j == buf, "C28: evhttp_uri_join returns its buffer or NULL");
	for (i = 0; i < VP_LJ; i++) {
		if (i >= limit && buf[i] != canary[i]) intact = 0;
		if (j != NULL && i < full && buf[i] != big[i]) same = 0;
	}
	VP_ASSERT(intact, "C28: evhttp_uri_join writes outside the limit it was given");
	VP_ASSERT(same, "C28: evhttp_uri_join result depends on the limit");
	if (j == NULL && limit > 0) VP_WITNESS("join: refused, does not fit");
	if (j != NULL && limit == full && full > 3) VP_WITNESS("join: fits exactly");
	evhttp_uri_free(u);
}

/* ------------------------------------------------------------ host sequence
 * Setters are applied to a URI that ALREADY has a host: the first host comes either from
 * evhttp_uri_parse_with_flags("//[::]:8/p") or from evhttp_uri_set_host(first) with a solver-chosen first
 * host (bracketed literals reachable: VP_KH >= 4), the flags are solver-chosen (HOST_STRIP_BRACKETS
 * included: that is the state that carries the internal "host had brackets" mark).  Then
 * evhttp_uri_set_host(second) with a solver-chosen second host (reg-name, IP-literal, "" or NULL = clear).
 * If accepted: the getter returns the second host (without brackets under HOST_STRIP_BRACKETS), and
 * evhttp_uri_join either refuses or its output parses, with the same flags, into exactly the current
 * components -- nothing of the replaced host (in particular not its brackets) may survive.
 */
void harness_host_seq(void)
{
	char c1[VP_KMAX + 1], c2[VP_KMAX + 1], buf[VP_SJMAX + 8];
	const char *h1, *h2;
	struct evhttp_uri *u, *u2;
	unsigned flags = vp_flags();
	int from_parse = vp_bool(), clear = vp_bool(), r, stripped;
	char *j;

	vp_v6_verdict = vp_bool();
	if (from_parse) {
		u = evhttp_uri_parse_with_flags("//[::]:8/p", flags);
		if (u == NULL) { VP_ASSERT(!vp_v6_verdict, "C28: '//[::]:8/p' is refused although '::' is an IPv6 address"); return; }
	} else {
		u = evhttp_uri_new();
		__CPROVER_assume(u != NULL);
		evhttp_uri_set_flags(u, flags);
		h1 = vp_component(c1, VP_KH);
		if (h1 && evhttp_uri_set_host(u, h1) < 0) return;
	}
	h2 = vp_component(c2, VP_KH2);
	if (clear) h2 = NULL;
	r = evhttp_uri_set_host(u, h2);
	if (r < 0) { VP_WITNESS("host sequence: second host refused"); return; }
	stripped = h2 && h2[0] == '[' && (flags & EVHTTP_URI_HOST_STRIP_BRACKETS);
	if (!stripped)
		VP_ASSERT(vp_opt_streq(evhttp_uri_get_host(u), h2), "C28: evhttp_uri_get_host does not return what evhttp_uri_set_host accepted");
	j = evhttp_uri_join(u, buf, sizeof(buf));
	if (j == NULL) { VP_WITNESS("host sequence: join refuses (port without host)"); return; }
	u2 = evhttp_uri_parse_with_flags(buf, flags);
	VP_ASSERT(u2 != NULL, "C28: after replacing the host the URI joins into a string that does not parse");
	if (u2 == NULL) return;
	VP_ASSERT(vp_opt_streq(evhttp_uri_get_host(u), evhttp_uri_get_host(u2)), "C28: replaced host does not survive join+parse");
	VP_ASSERT(evhttp_uri_get_port(u) == evhttp_uri_get_port(u2), "C28: port does not survive join+parse after the host was replaced");
	VP_ASSERT(vp_opt_streq(evhttp_uri_get_path(u) ? evhttp_uri_get_path(u) : "", evhttp_uri_get_path(u2)), "C28: path does not survive join+parse after the host was replaced");
	VP_ASSERT(vp_opt_streq(evhttp_uri_get_userinfo(u), evhttp_uri_get_userinfo(u2)) && vp_opt_streq(evhttp_uri_get_scheme(u), evhttp_uri_get_scheme(u2)) &&
	    vp_opt_streq(evhttp_uri_get_query(u), evhttp_uri_get_query(u2)) && vp_opt_streq(evhttp_uri_get_fragment(u), evhttp_uri_get_fragment(u2)),
	    "C28: a component appears or disappears in join+parse after the host was replaced");
	if (from_parse && (flags & EVHTTP_URI_HOST_STRIP_BRACKETS) && h2 && h2[0] != '[' && h2[0] != 0) VP_WITNESS("host sequence: parsed stripped IP-literal replaced by a reg-name");
	if (!from_parse && (flags & EVHTTP_URI_HOST_STRIP_BRACKETS) && h2 && h2[0] != '[' && h2[0] != 0) VP_WITNESS("host sequence: set-host round trip without a parse");
#ifdef VP_WIT_V6
	if (!from_parse && (flags & EVHTTP_URI_HOST_STRIP_BRACKETS) && evhttp_uri_get_host(u) && h2 && h2[0] != '[' && h2[0] != 0 && c1[0] == '[') VP_WITNESS("host sequence: set stripped IP-literal replaced by a reg-name");
#endif
	if (stripped) VP_WITNESS("host sequence: reg-name or literal replaced by a stripped IP-literal");
	evhttp_uri_free(u);
	evhttp_uri_free(u2);
	VP_ASSERT(vp_alloc_calls == vp_free_calls, "C28: evhttp_uri_free leaves memory behind");
}
