/* C08 (extension) -- bufferevent.c / bufferevent_sock.c entry points return with every lock released.
 *
 * A socket bufferevent on fd 7 of a constructed, locked base, created with BEV_OPT_THREADSAFE | -DC08E_OPTS (0,
 * BEV_OPT_DEFER_CALLBACKS, BEV_OPT_DEFER_CALLBACKS|BEV_OPT_UNLOCK_CALLBACKS): its recursive lock (shared with both
 * evbuffers) and the base lock go through the monitor of env/locks.h.  Real event.c, evmap.c, buffer.c, bufferevent.c,
 * bufferevent_sock.c, bufferevent_ratelim.c.  One scenario = creation (k-th allocation may fail), the call(s) under test
 * (-DC08E_OP) with the back end refusing or not, bufferevent_free, two loop passes (deferred callbacks, finalizer), base
 * free.  Every choice is solver-picked per unmerged scenario (see C08_event_api.c).  No socket I/O happens (the fd never
 * becomes ready): evbuffer_read/evbuffer_write and the connect path are C16/C17's subject.
 * Asserted: vp_lock_depth_total == 0 after every call and after every loop pass, plus the monitor's assertions.
 */
#include "event_struct_nounion.h"
#include "vp.h"
#include "log_stub.h"
#include "locks.h"
#define VP_HAVE_EVENT_C
#include "alloc.h"
#include "event.c"
#include "evmap.c"
#include "evbase.h"
#include "buffer.c"
#include "bufferevent.c"
#include "bufferevent_sock.c"
#include "bufferevent_ratelim.c"

#define E_NEW_FREE 0
#define E_WRITE 1
#define E_READ 2
#define E_ENABLE_DISABLE 3
#define E_WATERMARK 4
#define E_TIMEOUTS 5
#define E_SETCB 6
#define E_FLUSH 7
#define E_TRIGGER 8
#define E_PRIORITY 9
#define E_FD 10
#define E_REF 11
#define E_GETTERS 12
#define E_WRITE_BUFFER 13
#ifndef C08E_OP
#define C08E_OP E_WRITE
#endif
#ifndef C08E_OPTS
#define C08E_OPTS 0
#endif

static struct event_base *base;
static struct bufferevent *bev;
static int g_fail_new, g_fail_call, g_be, g_ch;
static int cur_fail, cur_be;     /* fault setting of the call being made */
static int alloc_no, alloc_fail_at;
static int nread, nwrite, nevent;
static unsigned char data[8];

/* evutil.c is not linked */
ev_uint32_t evutil_weakrand_seed_(struct evutil_weakrand_state *state, ev_uint32_t seed) { state->seed = seed ? seed : 1; return state->seed; }
ev_int32_t evutil_weakrand_range_(struct evutil_weakrand_state *seed, ev_int32_t top) { (void)seed; (void)top; return 0; }
int evutil_make_socket_nonblocking(evutil_socket_t fd) { (void)fd; return 0; }
void evutil_getaddrinfo_cancel_async_(struct evdns_getaddrinfo_request *data_) { VP_ASSERT(data_ == NULL, "harness: no DNS request was started"); }

void *c08e_malloc(size_t sz)
{
	void *p;
	if (alloc_fail_at && ++alloc_no == alloc_fail_at) return NULL;
	if (sz == sizeof(struct bufferevent_private)) p = malloc(sizeof(struct bufferevent_private));
	else if (sz == sizeof(struct evbuffer)) p = malloc(sizeof(struct evbuffer));
	else if (sz == sizeof(struct evbuffer_cb_entry)) p = malloc(sizeof(struct evbuffer_cb_entry));
	else if (sz == sizeof(struct evmap_io)) p = malloc(sizeof(struct evmap_io));
	else if (sz == sizeof(struct event)) p = malloc(sizeof(struct event));
	else p = malloc(sz);
	__CPROVER_assume(p != NULL);
	return p;
}
void *c08e_realloc(void *old, size_t sz) { void *p; if (alloc_fail_at && ++alloc_no == alloc_fail_at) return NULL; p = realloc(old, sz); __CPROVER_assume(p != NULL); return p; }
void c08e_free(void *p) { free(p); }

void readcb(struct bufferevent *b, void *arg) { (void)b; (void)arg; nread++; }
void writecb(struct bufferevent *b, void *arg) { (void)b; (void)arg; nwrite++; }
void eventcb(struct bufferevent *b, short what, void *arg) { (void)b; (void)what; (void)arg; nevent++; }

static int c08e_dispatch(struct event_base *b, struct timeval *tv)
{
	(void)tv;
	EVBASE_RELEASE_LOCK(b, th_base_lock);
	EVBASE_ACQUIRE_LOCK(b, th_base_lock);
	return 0;
}
static const struct eventop c08e_ops = { "c08e", vp_be_init, vp_be_add, vp_be_del, c08e_dispatch, vp_be_dealloc, 0, EV_FEATURE_FDS, 0 };

#define CALL(what, stmt) do { alloc_no = 0; alloc_fail_at = cur_fail; vp_be_fail_add = vp_be_fail_del = cur_be; stmt; alloc_fail_at = 0; vp_be_fail_add = vp_be_fail_del = 0; VP_ASSERT_NO_LOCKS(what); } while (0)
static const struct timeval tv_1 = { 1, 0 };

static void the_calls(void)
{
	int r = 0;
#if C08E_OP == E_NEW_FREE
	/* nothing in between */
#elif C08E_OP == E_WRITE
	CALL("bufferevent_write", r = bufferevent_write(bev, data, g_ch ? 5 : 0));
	CALL("bufferevent_write (again)", r = bufferevent_write(bev, data, 3));
#elif C08E_OP == E_WRITE_BUFFER
	{
		struct evbuffer *src = evbuffer_new();
		if (src) {
			(void)evbuffer_add(src, data, 6);
			CALL("bufferevent_write_buffer", r = bufferevent_write_buffer(bev, src));
			evbuffer_free(src);
		}
	}
#elif C08E_OP == E_READ
	{
		unsigned char out[8];
		struct evbuffer *dst = evbuffer_new();
		CALL("bufferevent_read", r = (int)bufferevent_read(bev, out, sizeof out));
		if (dst) { CALL("bufferevent_read_buffer", r = bufferevent_read_buffer(bev, dst)); evbuffer_free(dst); }
	}
#elif C08E_OP == E_ENABLE_DISABLE
	CALL("bufferevent_enable", r = bufferevent_enable(bev, g_ch ? (EV_READ | EV_WRITE) : EV_READ));
	CALL("bufferevent_get_enabled", r = bufferevent_get_enabled(bev));
	CALL("bufferevent_disable", r = bufferevent_disable(bev, EV_READ));
	CALL("bufferevent_disable (not enabled)", r = bufferevent_disable(bev, EV_READ));
#elif C08E_OP == E_WATERMARK
	CALL("bufferevent_enable", r = bufferevent_enable(bev, EV_READ));
	CALL("bufferevent_setwatermark", bufferevent_setwatermark(bev, g_ch ? EV_READ : (EV_READ | EV_WRITE), 1, 4));
	{ size_t lo, hi; CALL("bufferevent_getwatermark", r = bufferevent_getwatermark(bev, EV_READ, &lo, &hi)); }
	CALL("bufferevent_setwatermark (off)", bufferevent_setwatermark(bev, EV_READ, 0, 0));
#elif C08E_OP == E_TIMEOUTS
	CALL("bufferevent_enable", r = bufferevent_enable(bev, EV_READ | EV_WRITE));
	if (g_ch) CALL("bufferevent_set_timeouts", r = bufferevent_set_timeouts(bev, &tv_1, NULL));
	else CALL("bufferevent_set_timeouts", r = bufferevent_set_timeouts(bev, &tv_1, &tv_1));
	CALL("bufferevent_settimeout", bufferevent_settimeout(bev, 0, 2));
#elif C08E_OP == E_SETCB
	{
		bufferevent_data_cb rc, wc; bufferevent_event_cb ec; void *a;
		CALL("bufferevent_setcb", bufferevent_setcb(bev, g_ch ? NULL : readcb, writecb, eventcb, data));
		CALL("bufferevent_getcb", bufferevent_getcb(bev, &rc, &wc, &ec, &a));
	}
#elif C08E_OP == E_FLUSH
	CALL("bufferevent_flush", r = bufferevent_flush(bev, g_ch ? EV_WRITE : (EV_READ | EV_WRITE), BEV_FLUSH));
#elif C08E_OP == E_TRIGGER
	CALL("bufferevent_trigger", bufferevent_trigger(bev, EV_READ | EV_WRITE, g_ch ? BEV_TRIG_DEFER_CALLBACKS : BEV_TRIG_IGNORE_WATERMARKS));
	CALL("bufferevent_trigger_event", bufferevent_trigger_event(bev, BEV_EVENT_ERROR, g_ch ? BEV_TRIG_DEFER_CALLBACKS : 0));
	r = event_base_loop(base, EVLOOP_NONBLOCK);      /* deferred user callbacks run here (locked or BEV_OPT_UNLOCK_CALLBACKS) */
	VP_ASSERT_NO_LOCKS("event_base_loop running deferred bufferevent callbacks");
	VP_ASSERT(nread >= 1 && nwrite >= 1 && nevent >= 1, "harness: triggered callbacks ran");
	VP_WITNESS("triggered callbacks ran");
#elif C08E_OP == E_PRIORITY
	CALL("bufferevent_priority_set", r = bufferevent_priority_set(bev, g_ch ? 1 : 5));
	CALL("bufferevent_get_priority", r = bufferevent_get_priority(bev));
#elif C08E_OP == E_FD
	CALL("bufferevent_enable", r = bufferevent_enable(bev, EV_READ));
	CALL("bufferevent_setfd", r = bufferevent_setfd(bev, g_ch ? 9 : -1));
	CALL("bufferevent_getfd", r = (int)bufferevent_getfd(bev));
#elif C08E_OP == E_REF
	CALL("bufferevent_incref", bufferevent_incref(bev));
	CALL("bufferevent_decref", r = bufferevent_decref(bev));
#elif C08E_OP == E_GETTERS
	CALL("getters", ((void)bufferevent_get_input(bev), (void)bufferevent_get_output(bev), (void)bufferevent_get_base(bev), (void)bufferevent_get_underlying(bev), (void)bufferevent_get_options_(bev)));
#else
#error "unknown C08E_OP"
#endif
	(void)r;
}

static void scenario(void)
{
	int r;
	cur_fail = g_fail_new; cur_be = 0;
	CALL("bufferevent_socket_new", bev = bufferevent_socket_new(base, 7, BEV_OPT_THREADSAFE | BEV_OPT_CLOSE_ON_FREE | C08E_OPTS));
	cur_fail = 0;
	if (bev) {
		bufferevent_setcb(bev, readcb, writecb, eventcb, NULL);
		VP_ASSERT_NO_LOCKS("bufferevent_setcb");
		cur_fail = g_fail_call; cur_be = g_be;
		the_calls();
		cur_fail = 0;
		CALL("bufferevent_free", bufferevent_free(bev));
		cur_be = 0;
		r = event_base_loop(base, EVLOOP_NONBLOCK); VP_ASSERT_NO_LOCKS("event_base_loop (deferred callbacks, finalizer)");
		r = event_base_loop(base, EVLOOP_NONBLOCK); VP_ASSERT_NO_LOCKS("event_base_loop (second pass)");
		VP_WITNESS("bufferevent created, used, freed");
	} else {
#if C08E_OP == E_NEW_FREE
		VP_WITNESS("bufferevent_socket_new failed");
#endif
	}
	event_base_free(base);
	VP_ASSERT_NO_LOCKS("event_base_free");
	(void)r;
}

#define PICK3(var, stmt) do { int c_ = (int)vp_range(0, 2); if (c_ == 0) { var = 0; stmt; } else if (c_ == 1) { var = 1; stmt; } else { var = 2; stmt; } } while (0)
#define PICK2(var, stmt) do { if (vp_bool()) { var = 0; stmt; } else { var = 1; stmt; } } while (0)
#define PICK5(var, stmt) do { int c_ = (int)vp_range(0, 4); if (c_ == 0) { var = 0; stmt; } else if (c_ == 1) { var = 1; stmt; } else if (c_ == 2) { var = 2; stmt; } else if (c_ == 3) { var = 3; stmt; } else { var = 4; stmt; } } while (0)

void harness_bufferevent_api(void)
{
	vp_bytes(data, sizeof data);
	base = vp_base_new_ops(2, 1, &c08e_ops);
	event_set_mem_functions(c08e_malloc, c08e_realloc, c08e_free);
#if C08E_OP == E_NEW_FREE
	/* creation with the k-th allocation failing, k = none, 1..4 */
	g_fail_call = 0; g_be = 0; g_ch = 0;
	PICK5(g_fail_new, scenario());
#else
	/* the calls with their k-th allocation failing (k = none, 1, 2), the back end refusing or not, variant 0/1 */
	g_fail_new = 0;
	PICK3(g_fail_call, PICK2(g_be, PICK2(g_ch, scenario())));
#endif
	VP_WITNESS("end of harness");
}
