/* C32: builtin_SHA1 (sha1.c) == FIPS 180-4 SHA-1, decided compositionally (a monolithic miter of the
 * 80-round compression function against a textbook implementation does not close on any back end):
 *   S1 schedule  : the in-place 16-word ring expansion (blk0/blk, incl. the little-endian byte swap)
 *                  yields the FIPS message schedule W[0..79] of the big-endian block        (XOR/rotate only)
 *   S2 rounds    : each of the four round macros R0/R1,R2,R3,R4 computes the FIPS round
 *                  T = ROTL5(a)+f_t(b,c,d)+e+K_t+W_t ; b' = ROTL30(b) for arbitrary words   (one round each)
 *   S3 structure : SHA1Transform == 80 FIPS rounds over the FIPS schedule + feed-forward, cut into 16 five-round
 *                  miters at the trace points of the guarded hook LIBEVENT_VERIF_SHA1_TRACE
 *   S4 driver    : builtin_SHA1(msg,len) == FIPS padding (0x80, zeros, 64-bit big-endian bit length) cut into
 *                  blocks, SHA1Transform on each from the FIPS initial value, big-endian output, for every
 *                  message of each length 0..70 (length concrete, bytes symbolic)
 * S1+S2+S3 give SHA1Transform == FIPS compression function for every chaining value and block;
 * with S4: builtin_SHA1 == SHA-1 for all messages up to 70 bytes (ws keys are 24+36 = 60 bytes). */
#include "vp.h"
#include <string.h>
#include <stdint.h>
/* hook LIBEVENT_VERIF_SHA1_TRACE (guarded, off in the real build): working variables after every 5 rounds */
static uint32_t vp_tr[17][5]; static int vp_tr_n;
void libevent_verif_sha1_trace(int rounds_done, uint32_t a, uint32_t b, uint32_t c, uint32_t d, uint32_t e)
{
	int k = rounds_done / 5;
	VP_ASSERT(rounds_done == 5 * (vp_tr_n + 1), "harness: trace points out of order");
	vp_tr[k][0] = a; vp_tr[k][1] = b; vp_tr[k][2] = c; vp_tr[k][3] = d; vp_tr[k][4] = e; vp_tr_n++;
}
#include "sha1.c"

#define ROTL(x, n) (((x) << (n)) | ((x) >> (32 - (n))))
static const uint32_t K_[4] = { 0x5A827999u, 0x6ED9EBA1u, 0x8F1BBCDCu, 0xCA62C1D6u };
static uint32_t f_fips(int t, uint32_t b, uint32_t c, uint32_t d)
{
	if (t < 20) return (b & c) ^ (~b & d);            /* Ch */
	if (t < 40) return b ^ c ^ d;                     /* Parity */
	if (t < 60) return (b & c) ^ (b & d) ^ (c & d);   /* Maj */
	return b ^ c ^ d;
}
struct ring { uint32_t l[16]; };
#ifndef VP_CUT_LO
#define VP_CUT_LO 0
#define VP_CUT_HI 15
#endif

/* S1 */
void harness_schedule(void)
{
	unsigned char blockbytes[64]; struct ring r[1], *block = r; uint32_t W[80]; int t;
	vp_bytes(blockbytes, 64);
	memcpy(block->l, blockbytes, 64);
	for (t = 0; t < 16; t++) W[t] = ((uint32_t)blockbytes[4 * t] << 24) | ((uint32_t)blockbytes[4 * t + 1] << 16) | ((uint32_t)blockbytes[4 * t + 2] << 8) | blockbytes[4 * t + 3];
	for (t = 16; t < 80; t++) W[t] = ROTL(W[t - 3] ^ W[t - 8] ^ W[t - 14] ^ W[t - 16], 1);
	for (t = 0; t < 80; t++) {
		uint32_t w = t < 16 ? blk0(t) : blk(t);
		VP_ASSERT(w == W[t], "C32: SHA-1 message schedule word differs from FIPS 180-4");
	}
	VP_WITNESS("schedule");
}

/* S2: one round of each type; wt stands for the schedule word the macro reads through blk()/blk0() */
void harness_rounds(void)
{
	uint32_t a = vp_u32(), b = vp_u32(), c = vp_u32(), d = vp_u32(), e = vp_u32(), wt = vp_u32();
	int typ = (int)vp_range(0, 4);
	struct ring r[1], *block = r; uint32_t v = a, w = b, x = c, y = d, z = e, T; int t;
	memset(r, 0, sizeof(r));
	/* arrange the ring so that blk0(0) / blk(16) evaluate to wt */
	if (typ == 0) { block->l[0] = (ROTL(wt, 24) & 0xFF00FF00u) | (ROTL(wt, 8) & 0x00FF00FFu); R0(v, w, x, y, z, 0); t = 0; }
	else { block->l[13] = ROTL(wt, 31); /* rol(l[13]^0^0^0,1) == wt */
		if (typ == 1) { R1(v, w, x, y, z, 16); t = 16; }
		else if (typ == 2) { R2(v, w, x, y, z, 16); t = 20; }
		else if (typ == 3) { R3(v, w, x, y, z, 16); t = 40; }
		else { R4(v, w, x, y, z, 16); t = 60; } }
	T = ROTL(a, 5) + f_fips(t, b, c, d) + e + K_[t / 20] + wt;
	VP_ASSERT(z == T, "C32: SHA-1 round macro differs from the FIPS 180-4 round function");
	VP_ASSERT(w == ROTL(b, 30) && v == a && x == c && y == d, "C32: SHA-1 round macro must rotate b by 30 and leave a, c, d");
	if (typ == 3) VP_WITNESS("Maj round"); if (typ == 0) VP_WITNESS("Ch round with blk0");
}

/* S3: SHA1Transform == 80 FIPS rounds in order, with the FIPS message schedule and feed-forward.
 * The 80-round miter does not close on any back end (adders on both sides are never shared), so it is cut
 * at the hook's 16 trace points: for every k the working variables after round 5k+5 must equal five FIPS
 * rounds (textbook formulas, textbook W[t]) applied to the traced variables after round 5k; the first
 * cut starts from the chaining value and the last feeds forward into the state.  Each cut is a 5-round
 * miter over symbolic SSA values of the real function; together they are the whole function. */
void harness_structure(void)
{
	uint32_t st[5], st0[5], W[80], a, b, c, d, e, T; unsigned char buf[64]; int k, t, j;
	for (k = 0; k < 5; k++) st[k] = st0[k] = vp_u32();
	vp_bytes(buf, 64);
	SHA1Transform(st, buf);
	VP_ASSERT(vp_tr_n == 16, "C32: SHA1Transform did not pass all 16 five-round trace points");
	for (t = 0; t < 16; t++) W[t] = ((uint32_t)buf[4 * t] << 24) | ((uint32_t)buf[4 * t + 1] << 16) | ((uint32_t)buf[4 * t + 2] << 8) | buf[4 * t + 3];
	for (t = 16; t < 80; t++) W[t] = ROTL(W[t - 3] ^ W[t - 8] ^ W[t - 14] ^ W[t - 16], 1);
	for (j = 0; j < 5; j++) vp_tr[0][j] = st0[j];
	for (k = VP_CUT_LO; k <= VP_CUT_HI; k++) {
		a = vp_tr[k][0]; b = vp_tr[k][1]; c = vp_tr[k][2]; d = vp_tr[k][3]; e = vp_tr[k][4];
		for (t = 5 * k; t < 5 * k + 5; t++) {
			T = ROTL(a, 5) + f_fips(t, b, c, d) + e + K_[t / 20] + W[t];
			e = d; d = c; c = ROTL(b, 30); b = a; a = T;
		}
		VP_ASSERT(a == vp_tr[k + 1][0] && b == vp_tr[k + 1][1] && c == vp_tr[k + 1][2] && d == vp_tr[k + 1][3] && e == vp_tr[k + 1][4],
		    "C32: five rounds of SHA1Transform differ from five FIPS 180-4 rounds");
	}
	for (j = 0; j < 5; j++) VP_ASSERT(st[j] == st0[j] + vp_tr[16][j], "C32: SHA1Transform feed-forward differs from FIPS 180-4");
	VP_WITNESS("transform");
}

/* S4: padding, length encoding, block cutting, output byte order.
 * Calls of SHA1Transform are replaced (goto-instrument --replace-calls) by a recorder that logs the block
 * and returns an arbitrary new chaining value (the compression function itself is S1-S3): builtin_SHA1 must
 * feed exactly the FIPS-padded message blocks, starting from the FIPS initial value, always into the same
 * chaining state, and output the final chaining value big-endian. */
#ifndef VP_LEN_LO
#define VP_LEN_LO 0
#endif
#ifndef VP_LEN_HI
#define VP_LEN_HI 8
#endif
#ifndef VP_LEN
#define VP_LEN 0
#endif
static unsigned char vp_blk[3][64]; static int vp_nblk; static uint32_t vp_iv_seen[5]; static uint32_t vp_last_state[5]; static uint32_t *vp_state_ptr; static int vp_state_moved;
void vp_rec_transform(uint32_t state[5], const unsigned char buffer[64])
{
	int i;
	if (vp_nblk == 0) { for (i = 0; i < 5; i++) vp_iv_seen[i] = state[i]; vp_state_ptr = state; }
	else { if (state != vp_state_ptr) vp_state_moved = 1; for (i = 0; i < 5; i++) if (state[i] != vp_last_state[i]) vp_state_moved = 1; }
	if (vp_nblk < 3) for (i = 0; i < 64; i++) vp_blk[vp_nblk][i] = buffer[i];
	vp_nblk++;
	for (i = 0; i < 5; i++) state[i] = vp_last_state[i] = vp_u32();
}
void harness_driver(void)
{
	unsigned char msg[VP_LEN_HI + 1], d1[20], pad[192]; size_t len = VP_LEN, total, i; uint64_t bits = (uint64_t)len * 8;
	static const uint32_t IV[5] = { 0x67452301u, 0xEFCDAB89u, 0x98BADCFEu, 0x10325476u, 0xC3D2E1F0u };
	vp_bytes(msg, VP_LEN_HI + 1);
	builtin_SHA1((char *)d1, (const char *)msg, (int)len);
	memset(pad, 0, sizeof(pad));
	for (i = 0; i < len; i++) pad[i] = msg[i];
	pad[len] = 0x80;
	total = ((len + 8) / 64 + 1) * 64;
	for (i = 0; i < 8; i++) pad[total - 1 - i] = (unsigned char)(bits >> (8 * i));
	VP_ASSERT((size_t)vp_nblk * 64 == total, "C32: builtin_SHA1 hashed a different number of blocks than FIPS 180-4 padding produces");
	for (i = 0; i < 5; i++) VP_ASSERT(vp_iv_seen[i] == IV[i], "C32: builtin_SHA1 does not start from the FIPS 180-4 initial hash value");
	VP_ASSERT(!vp_state_moved, "C32: builtin_SHA1 does not chain the compression function on one state");
	i = (size_t)vp_range(0, 191);
	if (i < total) VP_ASSERT(vp_blk[i / 64][i % 64] == pad[i], "C32: builtin_SHA1 block bytes differ from the FIPS 180-4 padded message");
	i = (size_t)vp_range(0, 19);
	VP_ASSERT(d1[i] == (unsigned char)(vp_last_state[i / 4] >> (8 * (3 - i % 4))), "C32: digest is not the big-endian final hash value");
	VP_WITNESS("driver");
}
