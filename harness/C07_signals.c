/* C07: signal events -- signal.c (self-pipe) and signalfd.c through the real
 * event.c (event_add/event_del/event_base_loop/event_signal_closure) and
 * evmap.c, against env/sigmodel.h (sigaction table, blocked mask, bounded
 * self-pipe, signalfd pending flags).  The I/O back end is the recording
 * back end of evbase.h wrapped so that init/dealloc do what every real back end
 * does (sigfd_init_()/evsig_init_() in init, evsig_dealloc_() in dealloc); "the
 * kernel reports the notification fd readable" is the dispatch hook.
 *
 * History = fixed shape (-DVP_STEPS="ADD(0) DELIVER(A) LOOP DEL(0) ..."),
 * symbolic: the dispositions installed before libevent touches the signals,
 * how many times each DELIVER raises the signal (1..2), whether the self-pipe
 * refuses a byte, whether a callback deletes its own event / raises its signal
 * again from inside the callback.
 * Events: ev0, ev1 on signal A, ev2 on signal B (EV_SIGNAL|EV_PERSIST).
 */
#include "event_struct_nounion.h"   /* see that header: unions in struct event compiled as structs */
#include "vp.h"
#include "log_stub.h"
#ifndef VP_LOCKS_ON
#define VP_LOCKS_OFF
#endif
#include "locks.h"
#define VP_HAVE_EVENT_C
#include "alloc.h"
#include "event.c"
/* evmap.c in the same unit with typed map entries / tables (see env/typed_alloc.h: untyped calloc'ed
 * entries make every list link a byte extraction and symex loses the callback pointers) */
#include "typed_alloc.h"
#undef mm_realloc
#undef mm_calloc
#define mm_realloc(p, sz) vp_realloc_evmap((p), (sz))
#define mm_calloc(n, sz) vp_calloc_evmap((n), (sz))
#include "evmap.c"
#include "typed_evmap.h"
#undef mm_realloc
#undef mm_calloc
#define mm_calloc(n, sz) event_mm_calloc_((n), (sz))
#define mm_realloc(p, sz) event_mm_realloc_((p), (sz))
#define VP_HAVE_SIGNAL_C
#include "evbase.h"
#undef mm_malloc
#undef mm_realloc
#define mm_malloc(sz) vp_malloc_signal((sz))
#define mm_realloc(p, sz) vp_realloc_signal((p), (sz))
#include "signal.c"
#include "signalfd.c"
#undef mm_malloc
#undef mm_realloc
#define mm_malloc(sz) event_mm_malloc_((sz))
#define mm_realloc(p, sz) event_mm_realloc_((p), (sz))
#include "sigmodel.h"

#define A VP_SIGA
#define B VP_SIGB
#define NEV 3
static const int sig_of[NEV] = { A, A, B };
static const int idx_of[NEV] = { 0, 1, 2 };
static struct event_base *base;
static struct event sev[NEV];
static int added[NEV];
static int calls[NEV];            /* callback invocations, total */
static int calls_loop[NEV];       /* ... in the current loop iteration */
static int selfdel[NEV];          /* callback deletes its own event on its first call */
static int redeliver[NEV];        /* callback raises its signal once more from inside */
static int due[NEV];              /* accepted deliveries of the event's signal while it was added, not yet answered by a callback */
static int after_del_calls;       /* callbacks that ran while the harness considers the event deleted */
static int bad_what;
static struct sigaction orig[2];  /* dispositions before libevent touched the signals */
static int use_sigfd;
static int freed;
static int in_loop, noted_in_loop[2];   /* deliveries noted by the mechanism while event_base_loop runs (raised from callbacks) */

char *getenv(const char *name) { (void)name; return NULL; }

/* ---- the wrapped recording back end --------------------------------------- */
static void *c07_init(struct event_base *b)
{
	if (use_sigfd) b->flags |= EVENT_BASE_FLAG_USE_SIGNALFD;
	if (sigfd_init_(b) < 0)
		evsig_init_(b);
	return (void *)&vp_be_n;
}
static void c07_dealloc(struct event_base *b) { vp_be_dealloc_calls++; evsig_dealloc_(b); }
static const struct eventop c07_ops = { "c07", c07_init, vp_be_add, vp_be_del, vp_be_dispatch, c07_dealloc, 1, EV_FEATURE_FDS, 0 };

/* what the I/O back end would report: every registered notification fd that is readable */
static void kernel_reports(struct event_base *b, struct timeval *tv)
{
	int i;
	(void)tv;
	if (!use_sigfd) {
		if (b->sig.ev_signal_added && vp_sig_fd_readable(b->sig.ev_signal_pair[0]))
			evmap_io_active_(b, b->sig.ev_signal_pair[0], EV_READ);
	} else {
		for (i = 0; i < VP_NSIGFD; i++)
			if (i < vp_nsigfd && VP_SIGFD_ALIVE(&vp_sigfd[i]) && vp_sig_fd_readable(vp_sigfd[i].fd))
				evmap_io_active_(b, vp_sigfd[i].fd, EV_READ);
	}
}

/* deliveries of signal k that libevent's mechanism has noted and not consumed yet */
static int noted(int k)
{
	int j, n = 0;
	if (use_sigfd) { struct vp_sigfd *f = vp_sigfd_for_sig(k); return (f && f->pending[k]) ? 1 : 0; }
	(void)j; n = vp_sig_undrained[k];   /* counted by the model when the pipe accepted the handler's write -- not by looking at the byte values */
	return n;
}
static void raise_sig(int sig)
{
	int k = vp_sig_idx(sig), i, before = noted(k);
	int has = 0, can_note = use_sigfd ? !before : (!vp_sig_write_fail_next && vp_pipe_n < VP_PIPE_CAP);
	int app0 = vp_sig_app_handled[k] + vp_sig_default_action[k];
	for (i = 0; i < NEV; i++) if (added[i] && sig_of[i] == sig) has = 1;
	vp_sig_deliver(sig);
	if (has) {
		VP_ASSERT(vp_sig_app_handled[k] + vp_sig_default_action[k] == app0, "C07: a signal that has an added event is not handled by the previous disposition (it bypassed libevent)");
		if (can_note) VP_ASSERT(noted(k) > before, "C07: a delivery of a signal that has an added event is noted by libevent's mechanism (self-pipe byte / signalfd pending)");
	}
	if (noted(k) > before) {
		if (in_loop) noted_in_loop[k]++;
		for (i = 0; i < NEV; i++) if (added[i] && sig_of[i] == sig) due[i]++;
	}
}

static int same_disposition(const struct sigaction *x, const struct sigaction *y);
static int others_added(int i);
static void cb(evutil_socket_t fd, short what, void *arg)
{
	int i = *(const int *)arg;   /* (a small integer cast to void* would make event_assign's `arg == event_self_cbarg()` test symbolic) */
	if (what != EV_SIGNAL) bad_what++;
	VP_ASSERT(what == EV_SIGNAL, "C07: signal callback result flags are exactly EV_SIGNAL");
	VP_ASSERT(fd == sig_of[i], "C07: signal callback gets its signal number");
	if (!added[i]) after_del_calls++;
	VP_ASSERT(added[i], "C07: callback ran for an event after event_del returned");
	calls[i]++; calls_loop[i]++;
	due[i] = 0;
	if (redeliver[i]) { redeliver[i] = 0; raise_sig(sig_of[i]); }
	if (selfdel[i]) {
		int r;
		selfdel[i] = 0;
		r = event_del(&sev[i]);
		VP_ASSERT(r == 0, "C07: event_del inside the callback succeeds");
		added[i] = 0;
		if (!others_added(i))
			VP_ASSERT(same_disposition(&vp_sa[vp_sig_idx(sig_of[i])], &orig[vp_sig_idx(sig_of[i])]), "C07: deleting the last event for a signal (from its own callback) restores the previous disposition");
	}
}

static int same_disposition(const struct sigaction *x, const struct sigaction *y)
{
	return x->sa_handler == y->sa_handler && x->sa_flags == y->sa_flags && x->sa_mask.__val[0] == y->sa_mask.__val[0];
}
static int others_added(int i) { int j; for (j = 0; j < NEV; j++) if (j != i && added[j] && sig_of[j] == sig_of[i]) return 1; return 0; }

/* holds between any two steps: every signal that has an added event is wired to libevent's mechanism -- self-pipe:
 * libevent's handler is the installed one; signalfd: the signal is blocked and bound to an open signalfd -- and, in
 * signalfd mode, a signal without added events is not left blocked (the process mask starts empty in this harness):
 * the blocked set == the signals with signalfd events */
static void check_wiring(void)
{
	int k;
	if (freed) return;
	for (k = 0; k < 2; k++) {
		int has = (added[0] && sig_of[0] == (k ? B : A)) || (added[1] && sig_of[1] == (k ? B : A)) || (added[2] && sig_of[2] == (k ? B : A));
		if (!use_sigfd) {
			if (has) VP_ASSERT(vp_sa[k].sa_handler == evsig_handler, "C07: libevent's handler stays installed for every signal that has an added event");
		} else {
			VP_ASSERT((vp_sig_blocked[k] != 0) == (has != 0), "C07[signalfd]: the blocked set is exactly the signals that have added events (a blocked signal reaches only the signalfd)");
			if (has) VP_ASSERT(vp_sigfd_for_sig(k) != NULL, "C07[signalfd]: every signal that has an added event is bound to an open signalfd");
		}
	}
}
static void step_add(int i)
{
	int r;
	__CPROVER_assume(!added[i] && !freed);
	r = event_add(&sev[i], NULL);
	VP_ASSERT(r == 0, "C07: event_add of a signal event succeeds");
	added[i] = 1; due[i] = 0;
	if (!use_sigfd) {
		vp_pipe_rfd = base->sig.ev_signal_pair[0]; vp_pipe_wfd = base->sig.ev_signal_pair[1];
		VP_ASSERT(vp_sa[vp_sig_idx(sig_of[i])].sa_handler == evsig_handler, "C07: libevent's handler is installed while a signal event is added");
	} else {
		VP_ASSERT(vp_sig_blocked[vp_sig_idx(sig_of[i])] && vp_sigfd_for_sig(vp_sig_idx(sig_of[i])) != NULL, "C07: signal is blocked and bound to a signalfd while a signal event is added");
	}
	check_wiring();
}
static void step_del(int i)
{
	int r, k = vp_sig_idx(sig_of[i]);
	__CPROVER_assume(added[i] && !freed);
	r = event_del(&sev[i]);
	VP_ASSERT(r == 0, "C07: event_del of a signal event succeeds");
	added[i] = 0; due[i] = 0;
	if (!others_added(i))
		VP_ASSERT(same_disposition(&vp_sa[k], &orig[k]), "C07: deleting the last event for a signal restores the disposition installed before the first add");
	else if (!use_sigfd)
		VP_ASSERT(vp_sa[k].sa_handler == evsig_handler, "C07: handler stays installed while another event for the signal is added");
	check_wiring();
}
/* one raise of the signal; REFUSE before it makes the self-pipe refuse the byte (EAGAIN).  Counts and refusals
 * are fixed by the shape: symbolic pipe contents make evsig_cb's ncaught[] indices symbolic and symex then walks
 * evmap_signal_active_ for all NSIG signals on every path (measured: no result in 300 s) */
static void step_deliver(int sig)
{
	__CPROVER_assume(!freed);
	raise_sig(sig);
	vp_sig_write_fail_next = 0;
	check_wiring();
}
static void step_refuse(void) { vp_sig_write_fail_next = 1; }
static void step_loop(void)
{
	int i, r, n0, n1;
	int must[NEV];
	__CPROVER_assume(!freed);
	n0 = noted(0); n1 = noted(1);
	for (i = 0; i < NEV; i++) { calls_loop[i] = 0; must[i] = added[i] && due[i] > 0; }
	noted_in_loop[0] = noted_in_loop[1] = 0; in_loop = 1;
	r = event_base_loop(base, EVLOOP_NONBLOCK);
	in_loop = 0;
	VP_ASSERT(r == 0 || r == 1, "C07: loop iteration succeeds");
	for (i = 0; i < NEV; i++) {
		/* (EVLOOP_NONBLOCK polls again while callbacks were run, so a signal raised inside a callback can be answered in the same call) */
		VP_ASSERT(calls_loop[i] <= (sig_of[i] == A ? n0 + noted_in_loop[0] : n1 + noted_in_loop[1]), "C07: call count no larger than the deliveries of the signal");
		if (must[i])
			VP_ASSERT(calls_loop[i] >= 1, "C07: a batch of deliveries raised while the event was added runs its callback at least once");
	}
#ifdef VP_WIT_BOTH
	if (calls_loop[0] && calls_loop[1]) VP_WITNESS("both events of one signal called in one iteration");
#endif
#ifdef VP_WIT_TWICE
	if (calls_loop[0] >= 2) VP_WITNESS("an event called twice for a batch of two deliveries");
#endif
	check_wiring();
}
/* event_reinit() (what a forked child calls; also legal without fork): the back end is torn down -- evsig_dealloc_()
 * runs with saved dispositions still live -- and rebuilt, and every added signal is handed to the mechanism again.
 * Afterwards everything above must still hold, in particular a later del / free must restore the dispositions from
 * before the FIRST add, for every signal including the highest-numbered one. */
static void step_reinit(void)
{
	int r, i;
	__CPROVER_assume(!freed);
	r = event_reinit(base);
	VP_ASSERT(r == 0, "C07: event_reinit succeeds");
	if (!use_sigfd) { vp_pipe_rfd = base->sig.ev_signal_pair[0]; vp_pipe_wfd = base->sig.ev_signal_pair[1]; vp_pipe_n = 0; vp_sig_undrained[0] = vp_sig_undrained[1] = 0; }
	for (i = 0; i < NEV; i++) {
		due[i] = 0;
		VP_ASSERT(((sev[i].ev_flags & EVLIST_INSERTED) != 0) == (added[i] != 0), "C07: event_reinit leaves the events' added state unchanged");
	}
	check_wiring();
	VP_WITNESS("event_reinit returned");
}
static void step_free(void)
{
	int i;
	__CPROVER_assume(!freed);
	event_base_free(base);
	freed = 1;
	for (i = 0; i < NEV; i++) added[i] = 0;
	VP_ASSERT(same_disposition(&vp_sa[0], &orig[0]) && same_disposition(&vp_sa[1], &orig[1]), "C07: freeing the base restores the dispositions installed before the first add");
	VP_WITNESS("base freed");
}
#define ADD(i) step_add(i);
#define DEL(i) step_del(i);
#define DELIVER(s) step_deliver(s);
#define REFUSE step_refuse();
#define LOOP step_loop();
#define FREE step_free();
#define REINIT step_reinit();
#ifndef VP_STEPS
#define VP_STEPS ADD(0) DELIVER(A) LOOP DEL(0)
#endif

void harness_signals(void)
{
	int i, k;
#ifdef VP_SIGFD
	use_sigfd = 1;
#endif
	for (k = 0; k < 2; k++) {
		unsigned h = (unsigned)vp_range(0, 2);
		memset(&orig[k], 0, sizeof(orig[k]));
		orig[k].sa_handler = h == 0 ? SIG_DFL : (h == 1 ? SIG_IGN : vp_app_handler);
		orig[k].sa_flags = (k ? SA_NODEFER | SA_RESETHAND : SA_NODEFER) | VP_SA_APPTAG;   /* concrete: `(sym | TAG) & TAG` is not folded by cbmc and every delivery would fork */
		vp_sig_orig_kind[k] = (int)h;
		orig[k].sa_mask.__val[0] = vp_u64();
		vp_sa[k] = orig[k];
	}
	base = vp_base_new_ops(1, 0, &c07_ops);
	min_heap_reserve_(&base->timeheap, 4);
	vp_dispatch_hook = kernel_reports;
	for (i = 0; i < NEV; i++) {
		event_assign(&sev[i], base, sig_of[i], EV_SIGNAL | EV_PERSIST, cb, (void *)&idx_of[i]);
#ifdef VP_SELFDEL
		selfdel[i] = ((VP_SELFDEL) >> i) & 1;
#endif
#ifdef VP_REDELIVER
		redeliver[i] = ((VP_REDELIVER) >> i) & 1;
#endif
	}
	VP_STEPS
	VP_ASSERT(after_del_calls == 0 && bad_what == 0, "C07: summary");
	VP_ASSERT(vp_sig_bad_io == 0 && vp_sigfd_close_bad == 0, "C07: notification I/O only on the mechanism's own descriptors");
	VP_WITNESS("history completed");
}
