/* C20 -- timeouts of paired bufferevents (generic timeout events): bufferevent.c + bufferevent_pair.c, real code, sink
 * evbuffer, recording event stubs.  One operation (C20_OP) on a pair whose state was built through the API; the
 * timeout invariant (C20_common.h) of BOTH ends is asserted before and after.
 */
#include "vp.h"
#include "log_stub.h"
#include "locks.h"
#include "alloc.h"
#include "bev_pre.h"
#include "bufferevent.c"
#include "bufferevent_pair.c"
#define VP_SINK_DISPATCH(fn, b, i, a) do { \
	if ((fn) == bufferevent_inbuf_wm_cb) bufferevent_inbuf_wm_cb((b), (i), (a)); \
	else if ((fn) == be_pair_outbuf_cb) be_pair_outbuf_cb((b), (i), (a)); \
	else VP_ASSERT(0, "harness: unknown evbuffer callback"); } while (0)
#include "evbuf_sink.h"
#include "bev_env.h"
#include "bev_user.h"
#include "C20_common.h"

const struct bufferevent_ops bufferevent_ops_socket = { "socket-not-linked", 0, NULL, NULL, NULL, NULL, NULL, NULL, NULL };
const struct bufferevent_ops bufferevent_ops_filter = { "filter-not-linked", 0, NULL, NULL, NULL, NULL, NULL, NULL, NULL };

#define A 0      /* the end the operation is applied to */
#define P 1      /* its partner */
#define U_MARK 0x100
#define OP_ENABLE_R 0
#define OP_ENABLE_W 1
#define OP_DISABLE_R 2
#define OP_DISABLE_W 3
#define OP_SET_TIMEOUTS 4
#define OP_SUSPEND 5
#define OP_UNSUSPEND 6
#define OP_WRITE 7            /* A writes: data may move to P */
#define OP_PARTNER_WRITE 8    /* P writes: data may arrive at A */
#define OP_READ_TIMEOUT 9
#define OP_WRITE_TIMEOUT 10
#define OP_FLUSH 11
#ifndef C20_OP
#define C20_OP OP_ENABLE_R
#endif
/* which clauses of the invariant are asserted (the write-side clauses of pairs are recorded findings, see props/C20.py) */
#ifndef C20_CHECK_WRITE
#define C20_CHECK_WRITE 1
#endif

static void inv_read(int w)
{
	struct bufferevent *b = u_bev[w];
	VP_ASSERT(vp_ev_timer_pending(&b->ev_read) == (c20_want_r(w) && tv_isset(&b->timeout_read)),
	    "C20: read timeout pending iff reading is enabled, not suspended and a read timeout is set");
	VP_ASSERT(!vp_ev_timer_pending(&b->ev_read) || tv_eq(&b->ev_read.ev_timeout, &b->timeout_read), "C20: read timeout runs with a stale duration");
}
static void inv_write(int w)
{
	struct bufferevent *b = u_bev[w];
#if C20_CHECK_WRITE == 1
	VP_ASSERT(vp_ev_timer_pending(&b->ev_write) == (c20_want_w(w) && tv_isset(&b->timeout_write)),
	    "C20: write timeout pending iff writing is enabled, not suspended, output is pending and a write timeout is set");
#elif C20_CHECK_WRITE == 2      /* only: never while disabled/suspended/unset */
	VP_ASSERT(!vp_ev_timer_pending(&b->ev_write) || ((b->enabled & EV_WRITE) && !U_PRIV(w)->write_suspended && tv_isset(&b->timeout_write)),
	    "C20: write timeout pending although writing is disabled/suspended or no write timeout is set");
#endif
	VP_ASSERT(!vp_ev_timer_pending(&b->ev_write) || tv_eq(&b->ev_write.ev_timeout, &b->timeout_write), "C20: write timeout runs with a stale duration");
}
static void inv_all(void) { inv_read(A); inv_read(P); inv_write(A); inv_write(P); VP_ASSERT_NO_LOCKS("pair call"); }

/* one end: timeouts, enable bits, a suspension, all solver-chosen, applied through the API */
static void build_end(int w)
{
	struct timeval tr, tw;
	struct bufferevent *b = u_bev[w];
	c20_sym_tv(&tr); c20_sym_tv(&tw);
	bufferevent_set_timeouts(b, vp_bool() ? &tr : NULL, vp_bool() ? &tw : NULL);
#ifdef C20_WM
	/* a read high-water mark (callback installed with concrete marks first, see C18_watermarks.c) */
	bufferevent_setwatermark(b, EV_READ, 0, 1);
	bufferevent_setwatermark(b, EV_READ, 0, vp_size());
#endif
	if (vp_bool()) bufferevent_enable(b, EV_READ);
	if (vp_bool()) bufferevent_disable(b, EV_WRITE);
	if (vp_bool()) bufferevent_suspend_read_(b, BEV_SUSPEND_BW);
	if (vp_bool()) bufferevent_suspend_write_(b, BEV_SUSPEND_BW);
}
static void build_state(void)
{
	static int base_obj;
	struct bufferevent *pair[2];
	int r = bufferevent_pair_new((struct event_base *)&base_obj, 0, pair);
	__CPROVER_assume(r == 0);
	u_install(0, pair[0]); u_install(1, pair[1]);
	/* deferred callbacks already queued: keeps the reference counts concrete (see C18_pair.c) */
	bufferevent_trigger_event(pair[0], U_MARK, 0);
	bufferevent_trigger_event(pair[1], U_MARK, 0);
	build_end(A); build_end(P);
#ifdef C20_WITH_OUTPUT
	{
		/* output pending on A (queued through the API; what the partner accepts moves on) */
		size_t O = vp_size();
		__CPROVER_assume(O >= 1 && O <= (size_t)EV_SSIZE_MAX / 4);
		bufferevent_write(u_bev[A], NULL, O);
	}
#endif
}

void harness_pair_step(void)
{
	struct bufferevent *a, *p;
	size_t in_a, in_p;
	build_state();
	a = u_bev[A]; p = u_bev[P];
	inv_all();
	in_a = evbuffer_get_length(a->input); in_p = evbuffer_get_length(p->input);
	vp_bev_now += 7;
#if C20_OP == OP_ENABLE_R
	bufferevent_enable(a, EV_READ);
#elif C20_OP == OP_ENABLE_W
	bufferevent_enable(a, EV_WRITE);
#elif C20_OP == OP_DISABLE_R
	bufferevent_disable(a, EV_READ);
	VP_ASSERT(!vp_ev_timer_pending(&a->ev_read), "C20: read timeout still armed after disabling reads");
#elif C20_OP == OP_DISABLE_W
	bufferevent_disable(a, EV_WRITE);
	VP_ASSERT(!vp_ev_timer_pending(&a->ev_write), "C20: write timeout still armed after disabling writes");
#elif C20_OP == OP_SET_TIMEOUTS
	{
		struct timeval tr, tw; int hr = vp_bool(), hw = vp_bool(), r;
		c20_sym_tv(&tr); c20_sym_tv(&tw);
		r = bufferevent_set_timeouts(a, hr ? &tr : NULL, hw ? &tw : NULL);
		VP_ASSERT(r == 0, "C20: bufferevent_set_timeouts failed");
		if (vp_ev_timer_pending(&a->ev_read)) VP_ASSERT(vp_rec(&a->ev_read)->armed_at == vp_bev_now, "C20: new read timeout not started at set_timeouts");
	}
#elif C20_OP == OP_SUSPEND
	if (vp_bool()) bufferevent_suspend_read_(a, BEV_SUSPEND_WM); else bufferevent_suspend_write_(a, BEV_SUSPEND_BW_GROUP);
#elif C20_OP == OP_UNSUSPEND
	if (vp_bool()) bufferevent_unsuspend_read_(a, BEV_SUSPEND_BW); else bufferevent_unsuspend_write_(a, BEV_SUSPEND_BW);
#elif C20_OP == OP_WRITE || C20_OP == OP_PARTNER_WRITE
	{
		size_t m = vp_size(); int r;
		struct bufferevent *src = C20_OP == OP_WRITE ? a : p, *dst = C20_OP == OP_WRITE ? p : a;
		size_t before = evbuffer_get_length(dst->input);
		long adds = c20_adds_tv(&dst->ev_read);
		__CPROVER_assume(m >= 1 && m <= (size_t)EV_SSIZE_MAX / 4);
		r = bufferevent_write(src, NULL, m);
		VP_ASSERT(r == 0, "C17: bufferevent_write failed");
		if (evbuffer_get_length(dst->input) > before) {
			/* a successful transfer restarts the receiver's read interval (unless it just got suspended at its high mark) */
			VP_ASSERT(!tv_isset(&dst->timeout_read) || !c20_want_r(C20_OP == OP_WRITE ? P : A) || (c20_adds_tv(&dst->ev_read) > adds && vp_rec(&dst->ev_read)->armed_at == vp_bev_now), "C20: data arrived but the read timeout was not restarted");
			VP_WITNESS("data transferred");
		} else
			VP_WITNESS("nothing transferred");
	}
#elif C20_OP == OP_READ_TIMEOUT
	if (!vp_ev_timer_pending(&a->ev_read)) { VP_WITNESS("read timer not pending"); return; }
	a->ev_read.ev_flags &= ~EVLIST_TIMEOUT;         /* the event core removes a timer before running its callback */
	bufferevent_generic_read_timeout_cb(-1, EV_TIMEOUT, a);
	VP_ASSERT(!(a->enabled & EV_READ), "C20: read timeout disables reading");
	VP_ASSERT(U_PRIV(A)->eventcb_pending == (U_MARK | BEV_EVENT_TIMEOUT | BEV_EVENT_READING), "C20: read timeout must be reported as TIMEOUT|READING");
	VP_ASSERT(!vp_ev_timer_pending(&a->ev_read), "C20: read timer pending after the read timeout");
	VP_WITNESS("read timeout reported");
#elif C20_OP == OP_WRITE_TIMEOUT
	if (!vp_ev_timer_pending(&a->ev_write)) { VP_WITNESS("write timer not pending"); return; }
	a->ev_write.ev_flags &= ~EVLIST_TIMEOUT;
	bufferevent_generic_write_timeout_cb(-1, EV_TIMEOUT, a);
	VP_ASSERT(!(a->enabled & EV_WRITE), "C20: write timeout disables writing");
	VP_ASSERT(U_PRIV(A)->eventcb_pending == (U_MARK | BEV_EVENT_TIMEOUT | BEV_EVENT_WRITING), "C20: write timeout must be reported as TIMEOUT|WRITING");
	VP_ASSERT(!vp_ev_timer_pending(&a->ev_write), "C20: write timer pending after the write timeout");
	VP_WITNESS("write timeout reported");
#elif C20_OP == OP_FLUSH
	{
		int mode = (int)vp_range(0, 2);
		bufferevent_flush(a, (short)(vp_bool() ? EV_WRITE : EV_READ), mode == 0 ? BEV_NORMAL : mode == 1 ? BEV_FLUSH : BEV_FINISHED);
	}
#endif
	inv_all();
	(void)in_a; (void)in_p;
	VP_WITNESS("step done");
}
