/* C06: every row of the epoll change table, through the real
 * epoll_apply_one_change(), against the kernel registration model. */
#include "vp.h"
#include "log_stub.h"
#include "alloc.h"
#include "kernel_epoll.h"
#include "epoll.c"

static int vp_impossible_row;

void harness_table(void)
{
	struct event_base base;
	struct epollop op;
	struct event_change ch;
	short old = (short)(vp_u8() & (EV_READ|EV_WRITE|EV_CLOSED));
	unsigned rc = vp_u8() & 3, wc = vp_u8() & 3, cc = vp_u8() & 3;
	int et = vp_bool();
	short adds = 0, dels = 0, want;
	int any_change, r, dels_in_old;
	const int fd = 1;

	memset(&base, 0, sizeof(base));
	memset(&op, 0, sizeof(op));
	op.epfd = vp_k_epfd;
	vp_k_open(fd);
	if (old) { vp_k[fd].present = 1; vp_k[fd].events = vp_k_ev2ep(old) | (vp_bool() ? EPOLLET : 0); }

	memset(&ch, 0, sizeof(ch));
	ch.fd = fd; ch.old_events = old;
	ch.read_change = rc | (rc && et ? EV_CHANGE_ET : 0);
	ch.write_change = wc | (wc && et ? EV_CHANGE_ET : 0);
	ch.close_change = cc | (cc && et ? EV_CHANGE_ET : 0);
	if (rc & EV_CHANGE_ADD) adds |= EV_READ;
	if (rc & EV_CHANGE_DEL) dels |= EV_READ;
	if (wc & EV_CHANGE_ADD) adds |= EV_WRITE;
	if (wc & EV_CHANGE_DEL) dels |= EV_WRITE;
	if (cc & EV_CHANGE_ADD) adds |= EV_CLOSED;
	if (cc & EV_CHANGE_DEL) dels |= EV_CLOSED;
	vp_impossible_row = (rc == 3 || wc == 3 || cc == 3);
	any_change = (rc | wc | cc) != 0;
	dels_in_old = (dels & ~old) == 0;

	if (vp_impossible_row) {
		/* "Impossible combinations issue no operation": assert-enabled builds abort
		 * (EVUTIL_ASSERT(op==0) on the {0,255} rows), NDEBUG builds return 0; on both
		 * paths no epoll_ctl may have been issued. */
		vp_fatal_is_ok = 1;
#ifndef NDEBUG
		VP_WITNESS("impossible row entered (assert-enabled build aborts inside)");
#endif
		r = epoll_apply_one_change(&base, &op, &ch);
		VP_ASSERT(vp_k_ctl_calls == 0, "C06: impossible (add+del) row issued an epoll_ctl");
		VP_ASSERT(r == 0, "C06: impossible row reported an error");
#ifdef NDEBUG
		VP_WITNESS("impossible row returned");
#endif
		return;
	}
	r = epoll_apply_one_change(&base, &op, &ch);
	want = (short)((old | adds) & ~dels);
	VP_ASSERT(r == 0, "C06: epoll_apply_one_change failed against a kernel holding exactly old_events");
	VP_ASSERT(vp_k_ctl_badfd == 0, "C06: epoll_ctl named a wrong fd or epfd");
	if (!any_change) {
		VP_ASSERT(vp_k_ctl_calls == 0, "C06: no change but an epoll_ctl was issued");
	} else {
		VP_ASSERT((want != 0) == (vp_k[fd].present != 0), "C06: registration presence != (old + adds - dels) non-empty");
		if (want) {
			VP_ASSERT((vp_k[fd].events & (EPOLLIN|EPOLLOUT|EPOLLRDHUP)) == vp_k_ev2ep(want), "C06: registered conditions != (old + adds - dels)");
			VP_ASSERT(((vp_k[fd].events & EPOLLET) != 0) == (et != 0), "C06: EPOLLET registered iff the change requested edge triggering");
		}
		if (dels_in_old) {
			/* rows evmap/changelist can generate: the first operation is accepted as is */
			VP_ASSERT(vp_k_ctl_calls == 1 && vp_k_first_ctl_ok == 1, "C06: first epoll_ctl not accepted by a kernel holding old_events");
		}
	}
	if (want && any_change) VP_WITNESS("row leaving a registration");
	if (!want && old && any_change) VP_WITNESS("row deleting the registration");
	if (!any_change) VP_WITNESS("no-change row");
}
