/* C17 -- byte stream through a socket bufferevent: bufferevent.c + bufferevent_sock.c (real code) over the contract sink
 * evbuffer in BYTE mode (-DVP_SINK_BYTES=8: every buffer holds <= 8 bytes, contents symbolic) and recording event stubs.
 *   harness_read_bytes  : the read event appends exactly the bytes read() delivered, after what was buffered, in order;
 *                         bufferevent_read() hands them to the application in order, nothing lost or duplicated
 *   harness_write_bytes : two bufferevent_write()s, two write events: write() is offered the queued bytes in order and
 *                         exactly the accepted prefix leaves the buffer; the second write continues where the first stopped
 *   harness_eof_after_data : (deferred callbacks) data then EOF arrive before the callbacks run: the application sees the
 *                         data callback (with the bytes) before the EOF report, once
 */
#ifndef VP_SINK_BYTES
#define VP_SINK_BYTES 8
#endif
#include "vp.h"
#include "log_stub.h"
#include "locks.h"
#include "alloc.h"
#include "bev_pre.h"
#include "bufferevent.c"
#include "bufferevent_sock.c"
#define VP_SINK_DISPATCH(fn, b, i, a) do { \
	if ((fn) == bufferevent_inbuf_wm_cb) bufferevent_inbuf_wm_cb((b), (i), (a)); \
	else if ((fn) == bufferevent_socket_outbuf_cb) bufferevent_socket_outbuf_cb((b), (i), (a)); \
	else VP_ASSERT(0, "harness: unknown evbuffer callback"); } while (0)
#include "evbuf_sink.h"
#include "bev_env.h"
#include "bev_user.h"

const struct bufferevent_ops bufferevent_ops_pair = { "pair-not-linked", 0, NULL, NULL, NULL, NULL, NULL, NULL, NULL };
const struct bufferevent_ops bufferevent_ops_filter = { "filter-not-linked", 0, NULL, NULL, NULL, NULL, NULL, NULL, NULL };

#define B 0
#define FD 5
#define N VP_SINK_BYTES
#ifndef C17_OPTS
#define C17_OPTS 0
#endif

static void setup(int opts)
{
	static int base_obj;
	struct bufferevent *b = bufferevent_socket_new((struct event_base *)&base_obj, FD, opts);
	__CPROVER_assume(b != NULL);
	u_install(B, b);
}

/* what the application takes out of the input buffer inside its read callback */
static unsigned char app_got[N]; static size_t app_want, app_n; static int app_reads;
static void app_hook(int who, int kind, short what)
{
	(void)what;
	if (kind == U_READ && app_reads == 0) {
		app_reads++;
		app_n = bufferevent_read(u_bev[who], app_got, app_want);
	}
}

void harness_read_bytes(void)
{
	unsigned char pre[N];
	size_t D = (size_t)vp_range(0, N / 2), i, len1;
	long r;
	setup(0);
	u_hook = app_hook;
	vp_bytes(pre, N);
	vp_sink_preset(u_bev[B]->input, pre, D);
	bufferevent_enable(u_bev[B], EV_READ);
	vp_sink_rd_avail = (size_t)vp_range(1, N / 2);
	app_want = (size_t)vp_range(0, N + 1);
	VP_ASSERT(vp_ev_io_pending(&u_bev[B]->ev_read), "C17: read event not pending on an enabled bufferevent");
	bufferevent_readcb(FD, EV_READ, u_bev[B]);
	r = vp_sink_last_rd;
	VP_ASSERT_NO_LOCKS("bufferevent_readcb");
	if (r <= 0) {
		/* nothing delivered: the buffered bytes are untouched */
		VP_ASSERT(evbuffer_get_length(u_bev[B]->input) == D && u_reads[B] == 0, "C17: failed/empty read changed the input buffer or ran the read callback");
		for (i = 0; i < N; i++) if (i < D) VP_ASSERT(vp_sink_at(u_bev[B]->input, i) == pre[i], "C17: failed read corrupted buffered bytes");
		VP_WITNESS("read delivered nothing");
		return;
	}
	VP_ASSERT(u_reads[B] == 1 && u_in_at_read[B] == D + (size_t)r, "C17: read callback must run once and see old + new bytes");
	/* the application got the first min(want, D+r) bytes of  pre[0..D) ++ rd[0..r)  in order ... */
	VP_ASSERT(app_n == (app_want < D + (size_t)r ? app_want : D + (size_t)r), "C17: bufferevent_read returned the wrong count");
	for (i = 0; i < N; i++)
		if (i < app_n) VP_ASSERT(app_got[i] == (i < D ? pre[i] : vp_sink_rd[i - D]), "C17: bytes handed to the application differ from the bytes received (order/loss/duplication)");
	/* ... and the rest is still buffered, in order */
	len1 = evbuffer_get_length(u_bev[B]->input);
	VP_ASSERT(len1 == D + (size_t)r - app_n, "C17: input length after the read is not old + received - consumed");
	for (i = 0; i < N; i++)
		if (i < len1) { size_t j = i + app_n; VP_ASSERT(vp_sink_at(u_bev[B]->input, i) == (j < D ? pre[j] : vp_sink_rd[j - D]), "C17: bytes left in the input buffer differ from the bytes received"); }
	VP_ASSERT(u_bev[B]->input->freeze_end, "C17: input buffer must be frozen against foreign appends again");
	if (app_n > D) VP_WITNESS("application consumed old and new bytes");
	if (len1) VP_WITNESS("bytes left for later");
}

void harness_write_bytes(void)
{
	unsigned char d1[N], d2[N], all[N];
	size_t n1 = (size_t)vp_range(1, N / 2), n2 = (size_t)vp_range(0, N / 2), i, tot = n1 + n2, len1;
	long r1, r2;
	int rc;
	setup(0);
	vp_bytes(d1, N); vp_bytes(d2, N);
	for (i = 0; i < N; i++) all[i] = i < n1 ? d1[i] : (i - n1 < n2 ? d2[i - n1] : 0);
	rc = bufferevent_write(u_bev[B], d1, n1);
	VP_ASSERT(rc == 0 && vp_ev_io_pending(&u_bev[B]->ev_write), "C17: bufferevent_write must queue the data and arm the write event");
	if (n2) { rc = bufferevent_write(u_bev[B], d2, n2); VP_ASSERT(rc == 0, "C17: second bufferevent_write failed"); }
	VP_ASSERT(evbuffer_get_length(u_bev[B]->output) == tot, "C17: queued byte count");
	VP_ASSERT(u_bev[B]->output->freeze_start, "C17: output buffer must be frozen against foreign drains");

	bufferevent_writecb(FD, EV_WRITE, u_bev[B]);
	r1 = vp_sink_last_wr;
	VP_ASSERT(vp_sink_wr_calls == 1 && vp_sink_wr_offered == tot, "C17: the first write must offer everything queued");
	for (i = 0; i < N; i++) if (i < tot) VP_ASSERT(vp_sink_wr[i] == all[i] || r1 <= 0, "C17: bytes offered to write() differ from the bytes queued (order)");
	if (r1 <= 0) {
		VP_ASSERT(evbuffer_get_length(u_bev[B]->output) == tot, "C17: failed write removed bytes");
		for (i = 0; i < N; i++) if (i < tot) VP_ASSERT(vp_sink_at(u_bev[B]->output, i) == all[i], "C17: failed write corrupted the queue");
		VP_WITNESS("first write accepted nothing");
		return;
	}
	len1 = evbuffer_get_length(u_bev[B]->output);
	VP_ASSERT(len1 == tot - (size_t)r1, "C17: exactly the accepted bytes must leave the output buffer");
	for (i = 0; i < N; i++) if (i < len1) VP_ASSERT(vp_sink_at(u_bev[B]->output, i) == all[i + (size_t)r1], "C17: bytes left in the output buffer are not the unsent suffix");
	if (len1 == 0) { VP_ASSERT(!vp_ev_io_pending(&u_bev[B]->ev_write), "C17: write event pending with nothing to write"); VP_WITNESS("everything written at once"); return; }
	VP_ASSERT(vp_ev_io_pending(&u_bev[B]->ev_write), "C17: unsent bytes but the write event is not pending");

	bufferevent_writecb(FD, EV_WRITE, u_bev[B]);
	r2 = vp_sink_last_wr;
	VP_ASSERT(vp_sink_wr_calls == 2 && vp_sink_wr_offered == len1, "C17: the second write must offer exactly the unsent bytes");
	if (r2 > 0) {
		for (i = 0; i < N; i++) if (i < (size_t)r2) VP_ASSERT(vp_sink_wr[i] == all[(size_t)r1 + i], "C17: second write does not continue where the first stopped (loss/duplication)");
		VP_ASSERT(evbuffer_get_length(u_bev[B]->output) == tot - (size_t)r1 - (size_t)r2, "C17: byte count after the second write");
		VP_WITNESS("two partial writes");
	}
	VP_ASSERT_NO_LOCKS("bufferevent_writecb");
}

/* data, then EOF, both before the deferred callbacks run */
void harness_eof_after_data(void)
{
	size_t i;
	setup(BEV_OPT_DEFER_CALLBACKS);
	u_hook = app_hook; app_want = N;
	bufferevent_enable(u_bev[B], EV_READ);
	vp_sink_rd_avail = 3; vp_sink_force = 3;
	bufferevent_readcb(FD, EV_READ, u_bev[B]);
	{ unsigned char got[N]; for (i = 0; i < N; i++) got[i] = vp_sink_rd[i];
	  VP_ASSERT(u_nlog == 0, "C19: deferred callbacks must not run inline");
	  vp_sink_force = 0;
	  bufferevent_readcb(FD, EV_READ, u_bev[B]);
	  VP_ASSERT(u_nlog == 0 && !(u_bev[B]->enabled & EV_READ), "C17: EOF disables reading; callbacks still deferred");
	  vp_run_deferred();
	  VP_ASSERT(u_nlog == 2 && u_log[0].kind == U_READ && u_log[1].kind == U_EVENT && u_log[1].what == (BEV_EVENT_READING | BEV_EVENT_EOF),
	      "C17: EOF must be reported after the data callback, exactly once");
	  VP_ASSERT(u_log[0].in_len == 3 && app_n == 3 && app_got[0] == got[0] && app_got[1] == got[1] && app_got[2] == got[2], "C17: the bytes that arrived before EOF were not delivered before it");
	}
	vp_run_deferred();
	VP_ASSERT(u_nlog == 2, "C17: EOF reported more than once");
	VP_WITNESS("data delivered, then EOF");
}
