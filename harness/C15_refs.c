/* C15: references, buffer references (multicast) and file segments deliver their bytes and clean up exactly once.
 *
 * buffer.c (real code, 64-byte chains).  SCEN selects a concrete scenario prefix (operation kinds and sizes
 * concrete, every payload/file byte symbolic); then ONE further operation -- kind, target buffer and size
 * solver-chosen by case split (concrete inside each case: DESIGN 3.4) -- then everything is released.
 * After every step:
 *   - each buffer == its byte-string model (length, every byte via a solver-chosen index, chain invariant);
 *     what remove/copyout/pullup hand out == the model's bytes;
 *   - user memory added by reference is byte-identical to its ghost copy ("never modified in place"), and the
 *     payload of a chain shared by evbuffer_add_buffer_reference still reads the same through every buffer;
 *   - reference cleanup: never more than once, and never while some chain of a live buffer still points into the
 *     referenced memory (the callback FREES the memory, so any later access is a cbmc pointer-check failure);
 *   - file segment: mmap called with a page-aligned offset; munmap exactly once with the mapped address/length and
 *     only when no chain points into the mapping; segment cleanup callback at most once, not while chains use it.
 * At the end (all buffers freed, segment released): every cleanup ran exactly once, allocator balanced.
 *
 *   SCEN 1  A: add(3) reference_with_offset(R+2,4) add(2)
 *   SCEN 2  A: reference(R,6)
 *   SCEN 3  S: add(3); A: add_buffer_reference(S) add(5); B: add_buffer_reference(S) add(5)        (KF pullup scenario)
 *   SCEN 4  S: reference(R,4) add(3); A: add_buffer_reference(S); B: add_buffer_reference(S); S drained completely
 *   SCEN 5  file segment, mmap mode: segment(file offset FOFF, length 6); A: add_file_segment(seg,1,4);
 *           B: add_file_segment(seg,0,-1); evbuffer_file_segment_free(seg)     (FOFF in {0,3,8,10}: page size 8)
 *           VP_MMAP_FAIL: mmap refuses, the segment falls back to pread (VP_SCRIPT 7..9)
 *   SCEN 6  file segment, read mode (EVBUF_FS_DISABLE_MMAP): segment(FOFF, 4) filled by the scripted pread results
 *           VP_SCRIPT 0..6 (full read, short reads, error, premature EOF); A: add(2) add_file_segment(seg,0,-1); segment_free
 *   SCEN 7  A: add(3); B: add(2) reference(R,4); evbuffer_add_buffer(A,B) (chains move), evbuffer_remove_buffer(A,S,4)
 * KF_EXCLUDE_PULLUP_MCAST / KF_ONLY_PULLUP_MCAST: predicate-guarded pair for evbuffer_pullup writing into a shared
 * (IMMUTABLE, MULTICAST) chain -- fix: fixes/C12-pullup-immutable-multicast.diff (grpD).
 */
#include "vp.h"
#include "log_stub.h"
#define VP_LOCKS_OFF
#include "locks.h"
#include "evbuf_alloc.h"
#include "evbuf_copy.h"
#include <stdlib.h>
#include "sock_io.h"
#include "buffer.c"
#include "evbuf_link.h"
#include "evbuf_inv.h"
#include "bytes.h"

#ifndef SCEN
#define SCEN 1
#endif
#ifndef FOFF
#define FOFF 3
#endif

enum { F_DRAIN = 0, F_REMOVE, F_COPYOUT, F_PULLUP, F_FREE, F_NKIND };
struct vbuf { struct evbuffer *b; struct vpb m; int freed; };
static struct vbuf V[3];                  /* 0 = A, 1 = B, 2 = S */
#define A_ (&V[0])
#define B_ (&V[1])
#define S_ (&V[2])

/* ---- referenced user memory: exact-size heap object, released by the cleanup callback ---- */
#define RLEN 6
static unsigned char *R; static unsigned char Rghost[RLEN];
static int R_added, R_cleaned; static size_t R_len_seen; static const void *R_ptr_seen;
static void R_cleanup(const void *data, size_t datalen, void *extra)
{
	(void)extra;
	R_cleaned++;
	R_ptr_seen = data; R_len_seen = datalen;
	free(R);               /* what a user does in a cleanup callback: the memory is gone from here on */
}
static void R_new(void)
{
	size_t i;
	R = malloc(RLEN);
	__CPROVER_assume(R != NULL);
	vp_bytes(Rghost, RLEN);
	for (i = 0; i < RLEN; i++) R[i] = Rghost[i];
	R_added = 1;
}
/* ---- file segment bookkeeping ---- */
static struct evbuffer_file_segment *SEG; static int seg_cleaned, seg_used;
static void seg_cleanup(struct evbuffer_file_segment const *seg, int flags, void *arg) { (void)seg; (void)flags; (void)arg; seg_cleaned++; }

static void vnew(struct vbuf *v) { v->b = evbuffer_new(); __CPROVER_assume(v->b != NULL); vpb_init(&v->m); v->freed = 0; }
static unsigned char vp_pay[8];
static void vadd(struct vbuf *v, size_t n)
{
	vp_bytes(vp_pay, n);
	__CPROVER_assume(evbuffer_add(v->b, vp_pay, n) == 0);
	vpb_append(&v->m, vp_pay, n);
}
#ifdef VP_CBMC
#define VP_SAME_OBJ(q, p, n) (__CPROVER_POINTER_OBJECT(q) == __CPROVER_POINTER_OBJECT(p))
#else
#define VP_SAME_OBJ(q, p, n) ((const unsigned char *)(q) >= (p) && (const unsigned char *)(q) < (p) + (n))
#endif
/* number of chains of live buffers whose storage lies inside [p, p+n) */
static int chains_into(const unsigned char *p, size_t n)
{
	int k, cnt = 0, j; const struct evbuffer_chain *c;
	for (k = 0; k < 3; k++) {
		if (!V[k].b || V[k].freed) continue;
		for (c = V[k].b->first, j = 0; c && j < VP_EVB_MAXCH; c = c->next, j++)
			if (c->buffer && c->off && VP_SAME_OBJ(c->buffer, p, n)) cnt++;
	}
	(void)n;
	return cnt;
}
static void check_all(void)
{
	int k; size_t i;
	for (k = 0; k < 3; k++) {
		struct vbuf *v = &V[k];
		if (!v->b || v->freed) continue;
		vp_evb_check(v->b, "");
		VP_ASSERT(evbuffer_get_length(v->b) == v->m.len, "C15: buffer length differs from the byte-string model");
		i = vp_size();
		if (i < v->m.len)
			VP_ASSERT(vp_evb_byte(v->b, i) == vpb_at(&v->m, i), "C15: bytes read back differ from the referenced bytes / file range");
	}
	/* a chain shared through evbuffer_add_buffer_reference only ever shrinks: its data stays inside its parent's data */
	for (k = 0; k < 3; k++) {
		const struct evbuffer_chain *c; int j;
		if (!V[k].b || V[k].freed) continue;
		for (c = V[k].b->first, j = 0; c && j < VP_EVB_MAXCH; c = c->next, j++)
			if (c->flags & EVBUFFER_MULTICAST) {
				const struct evbuffer_chain *par = (EVBUFFER_CHAIN_EXTRA(struct evbuffer_multicast_parent, (struct evbuffer_chain *)c))->parent;
				VP_ASSERT(c->buffer == par->buffer && (size_t)c->misalign + c->off <= (size_t)par->misalign + par->off,
				    "C15: a chain shared by evbuffer_add_buffer_reference was extended in place (write into shared storage)");
			}
	}
	VP_ASSERT(R_cleaned <= 1, "C15: reference cleanup callback ran more than once");
	if (R_added && !R_cleaned) {
		for (i = 0; i < RLEN; i++) VP_ASSERT(R[i] == Rghost[i], "C15: referenced user memory was modified in place");
	}
	if (R_cleaned)
		VP_ASSERT(chains_into(R, RLEN) == 0, "C15: reference cleanup ran while a chain still points into the referenced memory");
	VP_ASSERT(seg_cleaned <= 1, "C15: file segment cleanup callback ran more than once");
	VP_ASSERT(vp_munmap_calls <= vp_mmap_calls, "C15: munmap without a mapping");
}
/* ---- the solver-chosen further operation (concrete kind/size inside the case) ---- */
static void final_op(struct vbuf *v, int kind, size_t n)
{
	unsigned char out[16]; size_t k, i; int r; unsigned char *p;
	if (kind == F_DRAIN) {
		r = evbuffer_drain(v->b, n);
		VP_ASSERT(r == 0, "C15: evbuffer_drain failed");
		vpb_drain(&v->m, n);
	} else if (kind == F_REMOVE) {
		k = vpb_copyout_len(&v->m, 0, n);
		r = evbuffer_remove(v->b, out, n);
		VP_ASSERT(r == (int)k, "C15: evbuffer_remove returned a wrong count");
		i = vp_size();
		if (i < k) VP_ASSERT(out[i] == vpb_at(&v->m, i), "C15: evbuffer_remove delivered bytes that differ from the referenced bytes / file range");
		vpb_drain(&v->m, k);
	} else if (kind == F_COPYOUT) {
		k = vpb_copyout_len(&v->m, 0, n);
		r = (int)evbuffer_copyout(v->b, out, n);
		VP_ASSERT(r == (int)k, "C15: evbuffer_copyout returned a wrong count");
		i = vp_size();
		if (i < k) VP_ASSERT(out[i] == vpb_at(&v->m, i), "C15: evbuffer_copyout delivered bytes that differ from the referenced bytes / file range");
	} else if (kind == F_PULLUP) {
		p = evbuffer_pullup(v->b, (ev_ssize_t)n);
		if (n == 0 || n > v->m.len) {
			VP_ASSERT(p == NULL, "C15: evbuffer_pullup of 0 or more bytes than stored must return NULL");
		} else {
			VP_ASSERT(p != NULL, "C15: evbuffer_pullup failed");
			i = vp_size();
			if (i < n) VP_ASSERT(p[i] == vpb_at(&v->m, i), "C15: evbuffer_pullup result differs from the referenced bytes / file range");
		}
	} else {
		evbuffer_free(v->b);
		v->freed = 1;
	}
}
/* scripted pread results (VP_SCRIPT, enumerated by the driver): full read, short reads, error, premature EOF */
#ifndef VP_SCRIPT
#define VP_SCRIPT 0
#endif
static const long SCRIPTS[][5] = { {1, 4}, {2, 1, 3}, {3, 2, 1, 1}, {2, 3, -1}, {2, 2, 0}, {1, -1}, {1, 0}, {1, 6}, {2, 2, 4}, {2, 5, -1} };   /* {n, r1, r2, ...} */
static void set_script(void)
{
	int i;
	vp_pread_script_n = (int)SCRIPTS[VP_SCRIPT][0];
	for (i = 0; i < 4; i++) vp_pread_script[i] = SCRIPTS[VP_SCRIPT][i + 1];
}
static const size_t NS[] = { 0, 1, 2, 3, 4, 5, 7, 9, 12 };
#define NNS 9

void harness_refs(void)
{
	int t, kd, k; unsigned ni;
	int pt = (int)vp_range(0, 2), pk = (int)vp_range(0, F_NKIND - 1); unsigned pn = (unsigned)vp_range(0, NNS - 1);
	size_t i;
	(void)i;
	/* ---------------- scenario prefix ---------------- */
	vnew(A_);
#if SCEN == 1
	R_new();
	vadd(A_, 3);
	__CPROVER_assume(evbuffer_add_reference_with_offset(A_->b, R, 2, 4, R_cleanup, NULL) == 0);
	vpb_append(&A_->m, Rghost + 2, 4);
	vadd(A_, 2);
#elif SCEN == 2
	R_new();
	__CPROVER_assume(evbuffer_add_reference(A_->b, R, RLEN, R_cleanup, NULL) == 0);
	vpb_append(&A_->m, Rghost, RLEN);
#elif SCEN == 3
	vnew(B_); vnew(S_);
	vadd(S_, 3);
	__CPROVER_assume(evbuffer_add_buffer_reference(A_->b, S_->b) == 0); vpb_append(&A_->m, vpb_data(&S_->m), S_->m.len);
	vadd(A_, 5);
	__CPROVER_assume(evbuffer_add_buffer_reference(B_->b, S_->b) == 0); vpb_append(&B_->m, vpb_data(&S_->m), S_->m.len);
	vadd(B_, 5);
#elif SCEN == 4
	vnew(B_); vnew(S_);
	R_new();
	__CPROVER_assume(evbuffer_add_reference(S_->b, R, 4, R_cleanup, NULL) == 0); vpb_append(&S_->m, Rghost, 4);
	vadd(S_, 3);
	__CPROVER_assume(evbuffer_add_buffer_reference(A_->b, S_->b) == 0); vpb_append(&A_->m, vpb_data(&S_->m), S_->m.len);
	__CPROVER_assume(evbuffer_add_buffer_reference(B_->b, S_->b) == 0); vpb_append(&B_->m, vpb_data(&S_->m), S_->m.len);
	check_all();
	__CPROVER_assume(evbuffer_drain(S_->b, 7) == 0); vpb_drain(&S_->m, 7);
#elif SCEN == 5
	vnew(B_);
	vp_bytes(vp_file, VP_FILE_MAX);
#ifdef VP_MMAP_FAIL     /* mmap refuses: the segment falls back to pread (scripted) */
	vp_mmap_mode = 1; set_script();
#else
	vp_mmap_mode = 0;
#endif
	SEG = evbuffer_file_segment_new(5, FOFF, 6, 0);
	__CPROVER_assume(SEG != NULL);
	seg_used = 1;
	evbuffer_file_segment_add_cleanup_cb(SEG, seg_cleanup, NULL);
	{
		int r5 = evbuffer_add_file_segment(A_->b, SEG, 1, 4);
#ifdef VP_MMAP_FAIL
		if (r5 != 0) {
			/* the fallback read failed: nothing was added; (add_file_segment drops a segment reference on failure) */
			VP_ASSERT(SCRIPTS[VP_SCRIPT][(int)SCRIPTS[VP_SCRIPT][0]] <= 0, "C15: evbuffer_add_file_segment failed although the file could be read");
			VP_ASSERT(evbuffer_get_length(A_->b) == 0, "C15: failed evbuffer_add_file_segment changed the buffer");
#ifdef VP_SCRIPT_FAILS
			VP_WITNESS("C15 segment could not be read (pread error / EOF)");
#endif
			return;
		}
#else
		__CPROVER_assume(r5 == 0);
#endif
	} vpb_append(&A_->m, vp_file + FOFF + 1, 4);
	__CPROVER_assume(evbuffer_add_file_segment(B_->b, SEG, 0, -1) == 0); vpb_append(&B_->m, vp_file + FOFF, 6);
	evbuffer_file_segment_free(SEG);
	VP_ASSERT(seg_cleaned == 0, "C15: file segment cleanup ran while buffers still use the segment");
#elif SCEN == 6
	vp_bytes(vp_file, VP_FILE_MAX);
	set_script();
	SEG = evbuffer_file_segment_new(5, FOFF, 4, EVBUF_FS_DISABLE_MMAP | EVBUF_FS_DISABLE_SENDFILE);
	if (SEG == NULL) {
		VP_ASSERT(SCRIPTS[VP_SCRIPT][(int)SCRIPTS[VP_SCRIPT][0]] <= 0, "C15: evbuffer_file_segment_new failed although the file could be read");
		VP_ASSERT(vp_evb_live == 1, "C15: failed evbuffer_file_segment_new leaked memory");     /* only buffer A is alive */
#ifdef VP_SCRIPT_FAILS
		VP_WITNESS("C15 segment could not be read (pread error / EOF)");
#endif
		return;
	}
	VP_ASSERT(SCRIPTS[VP_SCRIPT][(int)SCRIPTS[VP_SCRIPT][0]] > 0, "C15: evbuffer_file_segment_new succeeded although the file could not be read completely");
	seg_used = 1;
	evbuffer_file_segment_add_cleanup_cb(SEG, seg_cleanup, NULL);
	vadd(A_, 2);
	__CPROVER_assume(evbuffer_add_file_segment(A_->b, SEG, 0, -1) == 0); vpb_append(&A_->m, vp_file + FOFF, 4);
	evbuffer_file_segment_free(SEG);
	VP_ASSERT(seg_cleaned == 0, "C15: file segment cleanup ran while buffers still use the segment");
#elif SCEN == 7
	vnew(B_); vnew(S_);
	R_new();
	vadd(A_, 3);
	vadd(B_, 2);
	__CPROVER_assume(evbuffer_add_reference(B_->b, R, 4, R_cleanup, NULL) == 0); vpb_append(&B_->m, Rghost, 4);
	__CPROVER_assume(evbuffer_add_buffer(A_->b, B_->b) == 0); vpb_move(&A_->m, &B_->m, B_->m.len);
	check_all();
	VP_ASSERT(evbuffer_remove_buffer(A_->b, S_->b, 4) == 4, "C15: evbuffer_remove_buffer moved a wrong number of bytes"); vpb_move(&S_->m, &A_->m, 4);
#else
#error "unknown SCEN"
#endif
	check_all();
	if (SCEN == 5)
		VP_ASSERT(vp_mmap_calls >= 1, "C15: mmap-mode segment did not try to map the file");

	/* ---------------- one more operation: target, kind and size solver-chosen ---------------- */
	for (t = 0; t < 3; t++) for (kd = 0; kd < F_NKIND; kd++) for (ni = 0; ni < NNS; ni++) {
		if (pt != t || pk != kd || pn != ni) continue;
		if (!V[t].b) { __CPROVER_assume(0); }
		if (kd == F_FREE && ni != 0) { __CPROVER_assume(0); }
#ifdef VP_TARGET        /* target buffer / kind enumerated by the driver */
		if (t != VP_TARGET) { __CPROVER_assume(0); }
#endif
#ifdef VP_KIND
		if (kd != VP_KIND) { __CPROVER_assume(0); }
#endif
#if defined(KF_EXCLUDE_PULLUP_MCAST) || defined(KF_ONLY_PULLUP_MCAST)
		{
			/* known finding: pullup of more than a leading shared (multicast) chain holds, when the shared storage has room */
			const struct evbuffer_chain *c = V[t].b->first;
			int kf = kd == F_PULLUP && c && (c->flags & EVBUFFER_MULTICAST) && NS[ni] > c->off && NS[ni] <= V[t].m.len &&
			    c->buffer_len - c->misalign >= NS[ni];
#ifdef KF_EXCLUDE_PULLUP_MCAST
			if (kf) { __CPROVER_assume(0); }
#else
			if (!kf) { __CPROVER_assume(0); }
#endif
		}
#endif
		final_op(&V[t], kd, NS[ni]);
		check_all();
#ifndef VP_SCRIPT_FAILS
		VP_WITNESS("C15 further operation done, buffers compared");
#endif
		/* ---------------- release everything ---------------- */
		for (k = 0; k < 3; k++)
			if (V[k].b && !V[k].freed) { evbuffer_free(V[k].b); V[k].freed = 1; check_all(); }
		if (R_added) VP_ASSERT(R_cleaned == 1, "C15: reference cleanup callback did not run exactly once after the last dependent buffer was freed");
		if (seg_used) {
			VP_ASSERT(seg_cleaned == 1, "C15: file segment cleanup callback did not run exactly once after the last user was freed");
			VP_ASSERT(vp_munmap_calls == vp_mmap_calls - 0 || vp_map_addr == NULL, "C15: mapping not released");
			VP_ASSERT(vp_map_addr == NULL, "C15: file mapping still alive after the segment was released");
			VP_ASSERT(vp_close_calls == 0, "C15: descriptor closed although EVBUF_FS_CLOSE_ON_FREE was not given");
		}
		VP_ASSERT(vp_evb_live == 0, "C15: library objects leaked (or freed twice) after everything was released");
#ifndef VP_SCRIPT_FAILS
		VP_WITNESS("C15 everything released");
#endif
		return;
	}
	__CPROVER_assume(0);
}
