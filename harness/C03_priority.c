/* C03 -- priority order and loop control (event_process_active*, event_base_loop,
 * loopbreak/loopexit/loopcontinue, "later" activation, deferred callbacks).
 *
 * Constructed base with 3 priorities.  Three user events U0..U2 (no fd, no timer: they are
 * made active by event_active, so the timer heap stays out of the picture) and one extra
 * callback X (an event or a deferred callback).  The SOLVER chooses the priorities of
 * U0..U2 and X and the order in which U0..U2 are activated (explored as an unmerged tree,
 * see C02); the action U0's callback performs is fixed per obligation (C03_ACTION):
 *   none | loopbreak | loopcontinue | loopexit(NULL) | event_active(X) | event_active_later_(X)
 *   | schedule deferred X | schedule deferred X beyond the per-iteration quota
 * One event_base_loop(C03_FLAGS) runs, then a second one to show that nothing was lost.
 * Oracle: a scheduler model written from the documented rules (ascending priority; FIFO within
 * a priority; one priority level per poll; break stops after the running callback; continue
 * and activation of a more urgent callback make the loop poll again and restart at the top;
 * exit lets the running pass finish and stops before the next poll; later / over-quota
 * deferred callbacks run after the next poll).  The recorded trace (callback id, poll epoch)
 * must equal the model's.
 */
#include "vp.h"
#include "log_stub.h"
#include "locks.h"
#define VP_HAVE_EVENT_C
#include "alloc.h"
#include "event.c"
#include "evmap.c"
#include "evbase.h"

#define A_NONE 0
#define A_BREAK 1
#define A_CONTINUE 2
#define A_EXIT 3
#define A_ACTIVE_X 4
#define A_LATER_X 5
#define A_DEFER_X 6
#define A_DEFER_X_QUOTA 7
#ifndef C03_ACTION
#define C03_ACTION A_NONE
#endif
#ifndef C03_FLAGS
#define C03_FLAGS EVLOOP_NONBLOCK
#endif
#ifndef C03_MAXCB
#define C03_MAXCB 0          /* >0: max_dispatch_callbacks, with limit_callbacks_after_prio = C03_LIMPRI */
#endif
#ifndef C03_LIMPRI
#define C03_LIMPRI 0
#endif
#ifndef C03_XP
#define C03_XP 0             /* X's priority (enumerated by the driver) */
#endif
#ifndef C03_P0
#define C03_P0 1             /* U0's priority (enumerated by the driver) */
#endif
#define NPRI 3
#define NU 3
#define XID 3                /* id of X in traces */
#define EXITID 4             /* the internal one-shot event behind loopexit (not traced) */

static struct event_base *base;
static struct event U0, U1, U2, XE;
static struct event *const up[NU] = { &U0, &U1, &U2 };
static struct event_callback XD;   /* X as a deferred callback */

struct rec { int id; int epoch; };
#define MAXT 8
static struct rec got[MAXT], want[MAXT];
static int ngot, nwant;

/* ---- model ---------------------------------------------------------------- */
static int q[NPRI][6], qn[NPRI];       /* FIFO per priority */
static int later[6], latern;
static int m_pri[5];
static int m_epoch, m_break, m_term, m_continue, m_ndefer;
static void m_push(int p, int id) { q[p][qn[p]++] = id; }
static int m_nactive(void) { int p, n = latern; for (p = 0; p < NPRI; p++) n += qn[p]; return n; }
static int m_is_active(int id)
{
	int p, i;
	for (p = 0; p < NPRI; p++) for (i = 0; i < 6; i++) if (i < qn[p] && q[p][i] == id) return 1;
	for (i = 0; i < 6; i++) if (i < latern && later[i] == id) return 1;
	return 0;
}
static void m_activate(int id, int running_pri)
{
	if (m_is_active(id)) return;
	if (m_pri[id] < running_pri) m_continue = 1;     /* something more urgent than what is running */
	m_push(m_pri[id], id);
}
static void m_action(int id, int running_pri)
{
	if (id == EXITID) { m_term = 1; return; }
	if (id != 0) return;
	switch (C03_ACTION) {
	case A_BREAK: m_break = 1; break;
	case A_CONTINUE: m_continue = 1; break;
	case A_EXIT: m_activate(EXITID, running_pri); break;
	case A_ACTIVE_X: m_activate(XID, running_pri); break;
	case A_LATER_X: if (!m_is_active(XID)) later[latern++] = XID; break;
	case A_DEFER_X: m_activate(XID, running_pri); break;   /* C03 statement: anything more urgent that becomes pending preempts the rest of the pass */
	case A_DEFER_X_QUOTA: if (!m_is_active(XID)) later[latern++] = XID; break;
	default: break;
	}
}
/* returns the loop's return value */
static int m_loop(int flags)
{
	int round;
	m_break = 0; m_term = 0;
	for (round = 0; round < 12; round++) {
		int p, i, ran = 0;
		m_continue = 0; m_ndefer = 0;
		if (m_term || m_break) return 0;
		if (!(flags & EVLOOP_NO_EXIT_ON_EMPTY) && m_nactive() == 0) return 1;   /* no events at all */
		for (i = 0; i < 6; i++) if (i < latern) m_push(m_pri[later[i]], later[i]);
		latern = 0;
		m_epoch++;                                   /* poll */
		if (m_nactive() == 0) {
			if (flags & EVLOOP_NONBLOCK) return 0;
			continue;
		}
		for (p = 0; p < NPRI && !ran; p++) {
			int budget = (C03_MAXCB > 0 && p >= C03_LIMPRI) ? C03_MAXCB : 1000;
			while (qn[p] > 0) {
				int id = q[p][0];
				for (i = 1; i < 6; i++) if (i < qn[p]) q[p][i - 1] = q[p][i];
				qn[p]--;
				if (id != EXITID) { if (nwant < MAXT) { want[nwant].id = id; want[nwant].epoch = m_epoch; } nwant++; }
				ran++;
				m_action(id, p);
				if (m_break) return 0;
				if (ran >= budget) break;
				if (m_continue) break;
			}
		}
		if ((flags & EVLOOP_ONCE) && m_nactive() == 0 && ran) return 0;
	}
	return 0;
}

/* ---- real callbacks --------------------------------------------------------- */
static void record(int id)
{
	if (ngot < MAXT) { got[ngot].id = id; got[ngot].epoch = vp_be_dispatch_calls; }
	ngot++;
}
static void xd_cb(struct event_callback *cb, void *arg) { (void)cb; (void)arg; record(XID); }
static void u_cb(evutil_socket_t fd, short what, void *arg)
{
	int k;
	(void)fd; (void)what;
	for (k = 0; k < NU; k++) if (arg == (void *)up[k]) record(k);
	if (arg == (void *)&XE) record(XID);
	if (arg != (void *)&U0) return;
	switch (C03_ACTION) {
	case A_BREAK: VP_ASSERT(event_base_loopbreak(base) == 0, "C03: loopbreak returns 0"); break;
	case A_CONTINUE: VP_ASSERT(event_base_loopcontinue(base) == 0, "C03: loopcontinue returns 0"); break;
	case A_EXIT: VP_ASSERT(event_base_loopexit(base, NULL) == 0, "C03: loopexit returns 0"); break;
	case A_ACTIVE_X: event_active(&XE, EV_READ, 1); break;
	case A_LATER_X: event_active_later_(&XE, EV_READ); break;
	case A_DEFER_X: event_deferred_cb_schedule_(base, &XD); break;
	default: break;
	}
}

static void check_trace(const char *unused)
{
	int i;
	(void)unused;
	VP_ASSERT(ngot == nwant && ngot <= MAXT, "C03: number of callbacks run differs from the scheduling rules");
	for (i = 0; i < MAXT; i++) if (i < ngot && i < nwant) {
		VP_ASSERT(got[i].id == want[i].id, "C03: callback order differs from the scheduling rules (ascending priority, FIFO within a priority, loop control)");
		VP_ASSERT(got[i].epoch == want[i].epoch, "C03: a callback ran before/after the wrong poll (restart / later / quota rule)");
	}
}

static void scenario(const int *pri, int xpri, const int *order)
{
	int i, r, mr;
	for (i = 0; i < NU; i++) {
		event_assign(up[i], base, -1, 0, u_cb, up[i]);
		VP_ASSERT(event_priority_set(up[i], pri[i]) == 0, "C03: event_priority_set");
		m_pri[i] = pri[i];
	}
	event_assign(&XE, base, -1, 0, u_cb, &XE);
	event_priority_set(&XE, xpri);
	event_deferred_cb_init_(&XD, (ev_uint8_t)xpri, xd_cb, NULL);
	m_pri[XID] = xpri; m_pri[EXITID] = NPRI / 2;
	for (i = 0; i < NU; i++) {
		int j;
		for (j = 0; j < NU; j++) if (order[i] == j) { event_active(up[j], EV_READ, 1); m_push(m_pri[j], j); }
	}
	r = event_base_loop(base, C03_FLAGS);
	mr = m_loop(C03_FLAGS);
	VP_ASSERT(r == mr, "C03: return value of event_base_loop");
	VP_ASSERT(event_base_got_break(base) == m_break, "C03: event_base_got_break");
	VP_ASSERT(event_base_got_exit(base) == m_term, "C03: event_base_got_exit");
	check_trace("");
	VP_ASSERT(event_base_get_num_events(base, EVENT_BASE_COUNT_ACTIVE) == m_nactive(), "C03: callbacks still queued after the loop returned differ from the rules (lost or duplicated)");
	VP_ASSERT_NO_LOCKS("event_base_loop");
	/* nothing is lost: a second, plain run delivers whatever is still queued */
	r = event_base_loop(base, EVLOOP_NONBLOCK);
	mr = m_loop(EVLOOP_NONBLOCK);
	VP_ASSERT(r == mr, "C03: return value of the second event_base_loop");
	check_trace("");
	VP_ASSERT(event_base_get_num_events(base, EVENT_BASE_COUNT_ACTIVE) == 0 && m_nactive() == 0, "C03: callbacks lost: still queued after a full second run");
	for (i = 0; i < NU; i++) { int j, c = 0; for (j = 0; j < MAXT; j++) if (j < ngot && got[j].id == i) c++; VP_ASSERT(c == 1, "C03: every activated event runs exactly once"); }
#if C03_ACTION == A_ACTIVE_X || C03_ACTION == A_LATER_X || C03_ACTION == A_DEFER_X
	{ int j, c = 0; for (j = 0; j < MAXT; j++) if (j < ngot && got[j].id == XID) c++; VP_ASSERT(c == 1, "C03: the callback activated from inside a callback runs exactly once"); }
#endif
	VP_WITNESS("scenario complete");
#if C03_ACTION == A_BREAK
	if (ngot >= 2 && got[0].id == 0 && got[1].epoch > got[0].epoch) VP_WITNESS("break: the rest ran only in the second loop");
#endif
	/* (event_active(X) with X at U0's own priority appends X to the running queue: no restart and
	 * the next callback always runs in the same pass, so this witness does not exist there) */
#if C03_ACTION == A_CONTINUE || (C03_ACTION == A_ACTIVE_X && C03_XP != C03_P0)
	if (ngot >= 2 && got[0].id == 0 && got[1].epoch == got[0].epoch + 1) VP_WITNESS("restart: next callback ran after a new poll");
#endif
}

void harness_sched(void)
{
	int pri[NU], order[NU], xpri, i, o;
	static const int perms[6][3] = { {0,1,2}, {0,2,1}, {1,0,2}, {1,2,0}, {2,0,1}, {2,1,0} };
	base = vp_base_new(NPRI, 1);
#if C03_MAXCB > 0
	base->max_dispatch_callbacks = C03_MAXCB; base->limit_callbacks_after_prio = C03_LIMPRI;   /* what event_config_set_max_dispatch_interval stores */
#endif
	/* solver-chosen priorities and activation order, explored as a tree of concrete leaves */
	for (i = 0; i < NU; i++) {
		int p = (int)vp_range(0, NPRI - 1);
		if (p == 0) pri[i] = 0; else if (p == 1) pri[i] = 1; else pri[i] = 2;
	}
	xpri = (int)vp_range(0, NPRI - 1);
	o = (int)vp_range(0, 5);
	/* concretise: each combination runs in its own branch */
#define LEAF(P0, P1, P2, XP, O) if (pri[0] == P0 && pri[1] == P1 && pri[2] == P2 && xpri == XP && o == O) { \
		static const int cp[3] = { P0, P1, P2 }; scenario(cp, XP, perms[O]); return; }
#define L_O(P0, P1, P2, XP) LEAF(P0,P1,P2,XP,0) LEAF(P0,P1,P2,XP,1) LEAF(P0,P1,P2,XP,2) LEAF(P0,P1,P2,XP,3) LEAF(P0,P1,P2,XP,4) LEAF(P0,P1,P2,XP,5)
#define L_X(P0, P1, P2) L_O(P0,P1,P2,C03_XP)
#define L_P2(P0, P1) L_X(P0,P1,0) L_X(P0,P1,1) L_X(P0,P1,2)
#define L_P1(P0) L_P2(P0,0) L_P2(P0,1) L_P2(P0,2)
	__CPROVER_assume(pri[0] == C03_P0 && xpri == C03_XP);   /* U0's and X's priority are enumerated by the driver */
	(void)order;
	L_P1(C03_P0)
}
