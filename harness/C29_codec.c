/* C29: URI escaping and HTML escaping of http.c against their specifications.
 *
 *  harness_decode     evhttp_decode_uri_internal(uri, length, ret, ctl) on EXACT-size objects
 *                     (input exactly `length` bytes, output exactly length+1 bytes -- what
 *                     evhttp_uridecode / evhttp_decode_uri / evhttp_parse_query_impl allocate):
 *                     result == reference decoder, returns the number of bytes written,
 *                     NUL-terminates, never reads outside the input nor writes outside
 *                     length+1 bytes (cbmc pointer checks), for all three '+' modes.
 *  harness_uridecode  evhttp_uridecode / evhttp_decode_uri wrappers: allocate strlen+1, pass
 *                     strlen, report the size, '+' mode normalisation (any non-zero = on).
 *  harness_roundtrip  evhttp_uriencode (real code; evbuffer = contract model established by C12)
 *                     on a byte string with explicit length (NUL bytes allowed) or a C string:
 *                     output == reference encoder, alphabet, exact allocation,
 *                     evhttp_uridecode(encoded, same '+' mode) == input.
 *  harness_htmlescape evhttp_htmlescape: no raw markup character, unescapes to the input,
 *                     allocation exactly fits.
 */
#include "vp.h"
#include "log_stub.h"
#include "http_fmt.h"
#include "http_stralloc.h"
#include "event2/buffer.h"
#ifndef VP_BYTES_MAX
#define VP_BYTES_MAX 32
#endif
#include "bytes.h"
#include "evbuf_contract.h"
#include "evbuf_contract_printf.h"
#include "http_evutil.h"
#include "evbuf_copy.h"
#include "http.c"
#include "uricodec_ref.h"

#ifndef VP_N
#define VP_N 6
#endif

/* ------------------------------------------------------------------ decode */
#define DECODE_CASE(L) \
	if (len == (L)) { \
		char in[(L) ? (L) : 1]; char out[(L) + 1]; unsigned char rout[(L) + 1]; \
		size_t rn, k; int j, same = 1; \
		for (k = 0; k < (L); k++) in[k] = (char)src[k]; \
		rn = ruc_decode(src, (L), (L), ctl, rout); \
		j = evhttp_decode_uri_internal(in, (L), out, ctl); \
		VP_ASSERT(j >= 0 && (size_t)j <= (L), "C29: decoding wrote more bytes than its input length"); \
		VP_ASSERT((size_t)j == rn, "C29: decoded length differs from the reference decoder"); \
		for (k = 0; k <= (L); k++) if (k <= rn && (unsigned char)out[k] != rout[k]) same = 0; \
		VP_ASSERT(same, "C29: decoded bytes differ from the reference decoder (or missing NUL terminator)"); \
		if ((size_t)j == (L)) VP_WITNESS("decode: nothing to decode, length " #L); \
		WIT_ESC(j, L) \
	}
#define WIT_ESC(j, L)

void harness_decode(void)
{
	unsigned char src[VP_N + 1];
	size_t len = (size_t)vp_range(0, VP_N);
	int ctl = (int)vp_range(0, 2) - 1;
	vp_bytes(src, VP_N);
	DECODE_CASE(0)
	DECODE_CASE(1)
	DECODE_CASE(2)
#undef WIT_ESC
#define WIT_ESC(j, L) if ((size_t)j < (L)) VP_WITNESS("decode: escape decoded, length " #L);
	DECODE_CASE(3)
	DECODE_CASE(4)
#if VP_N >= 5
	DECODE_CASE(5)
#endif
#if VP_N >= 6
	DECODE_CASE(6)
#endif
#if VP_N >= 7
	DECODE_CASE(7)
#endif
#if VP_N >= 8
	DECODE_CASE(8)
#endif
#if VP_N >= 9
	DECODE_CASE(9)
#endif
#if VP_N >= 10
	DECODE_CASE(10)
#endif
#if VP_N > 10
#error "extend the DECODE_CASE list"
#endif
}

/* a C string of at most VP_N bytes in s[0..VP_N]; returns its length */
static size_t vp_cstring(unsigned char *s)
{
	size_t len = (size_t)vp_range(0, VP_N), i;
	vp_bytes(s, VP_N);
	for (i = 0; i < VP_N; i++) {
		if (i >= len) s[i] = 0;
		else __CPROVER_assume(s[i] != 0);
	}
	s[VP_N] = 0;
	return len;
}

/* --------------------------------------------------------------- uridecode */
void harness_uridecode(void)
{
	unsigned char s[VP_N + 1], rout[VP_N + 1];
	size_t len = vp_cstring(s), rn, sz = (size_t)-1, k;
	int which = vp_bool(), plus = vp_int(), same = 1;
	char *d;

	if (which) {
		d = evhttp_uridecode((const char *)s, plus, &sz);
		rn = ruc_decode(s, len, VP_N, plus != 0, rout);
	} else {
		d = evhttp_decode_uri((const char *)s);
		rn = ruc_decode(s, len, VP_N, -1, rout);
	}
	VP_ASSERT(d != NULL, "C29: decoding fails only when allocation fails");
	VP_ASSERT(d == vp_last_alloc_ptr && vp_last_alloc_req >= len + 1,
	    "C29: the decode buffer is smaller than input length + 1 (the decoder may write that much)");
	if (which)
		VP_ASSERT(sz == rn, "C29: evhttp_uridecode size_out differs from the reference decoder");
	for (k = 0; k <= VP_N; k++) if (k <= rn && (unsigned char)d[k] != rout[k]) same = 0;
	VP_ASSERT(same, "C29: decoded string differs from the reference decoder");
	if (which && rn < len) VP_WITNESS("uridecode: escape decoded");
	if (which && plus != 0 && plus != 1) VP_WITNESS("uridecode: decode_plus other than 0/1");
	if (!which) VP_WITNESS("decode_uri (deprecated entry) decoded");
	mm_free(d);
}

/* --------------------------------------------------------------- roundtrip */
void harness_roundtrip(void)
{
	unsigned char s[VP_N + 1], renc[3 * VP_N + 1];
	size_t len = (size_t)vp_range(0, VP_N), i, rn, en, dn = (size_t)-1;
	int uselen = vp_bool(), plus = vp_bool(), same = 1, alpha = 1;
	char *enc, *dec;

	vp_bytes(s, VP_N);
	for (i = 0; i < VP_N; i++) {
		if (i >= len) s[i] = 0;
		else if (!uselen) __CPROVER_assume(s[i] != 0);
	}
	s[VP_N] = 0;
	rn = ruc_encode(s, len, VP_N, plus, renc);

	enc = evhttp_uriencode((const char *)s, uselen ? (ev_ssize_t)len : -1, plus);
	VP_ASSERT(enc != NULL, "C29: evhttp_uriencode fails only when allocation fails");
	VP_ASSERT(enc == vp_last_alloc_ptr && vp_last_alloc_req == rn + 1, "C29: evhttp_uriencode result is not allocated to fit exactly");
	/* the case of the hex digits is not prescribed (RFC 3986 2.1: "should" be upper case): compare modulo ASCII case;
	 * the round trip below still distinguishes 'a' from 'A' */
	for (i = 0; i <= 3 * VP_N; i++) if (i <= rn && ruc_lower((unsigned char)enc[i]) != ruc_lower(renc[i])) same = 0;
	VP_ASSERT(same, "C29: evhttp_uriencode output differs from the reference encoder (unreserved bytes verbatim, everything else %XX)");
	en = strlen(enc);
	for (i = 0; i < 3 * VP_N; i++) {
		unsigned char c;
		if (i >= en) break;
		c = (unsigned char)enc[i];
		if (ruc_unreserved(c)) continue;
		if (c == '+' && plus) continue;
		if (c == '%' && i + 2 < en && ruc_hexval((unsigned char)enc[i + 1]) >= 0 && ruc_hexval((unsigned char)enc[i + 2]) >= 0) continue;
		alpha = 0;
	}
	VP_ASSERT(alpha, "C29: encoding contains a byte that is neither unreserved nor part of a %XX escape");

	dec = evhttp_uridecode(enc, plus, &dn);
	VP_ASSERT(dec != NULL, "C29: evhttp_uridecode fails only when allocation fails");
	VP_ASSERT(dn == len, "C29: uridecode(uriencode(s)) has a different length than s");
	same = 1;
	for (i = 0; i < VP_N; i++) if (i < len && (unsigned char)dec[i] != s[i]) same = 0;
	VP_ASSERT(same && dec[len] == '\0', "C29: uridecode(uriencode(s)) != s");
	if (uselen && len == VP_N && rn == 3 * VP_N) VP_WITNESS("roundtrip: every byte escaped, explicit length");
	if (!uselen && plus && rn < 3 * len && rn > len) VP_WITNESS("roundtrip: C string, mixed, plus mode");
	if (len == 0) VP_WITNESS("roundtrip: empty string");
	mm_free(enc); mm_free(dec);
}

/* -------------------------------------------------------------- htmlescape */
void harness_htmlescape(void)
{
	unsigned char s[VP_N + 1], back[VP_N + 1];
	size_t len = vp_cstring(s), en, bn, i;
	int same = 1, raw = 0;
	char *e;

	e = evhttp_htmlescape((const char *)s);
	VP_ASSERT(e != NULL, "C29: evhttp_htmlescape fails only when allocation fails");
	en = strlen(e);
	VP_ASSERT(en <= 6 * len && e == vp_last_alloc_ptr && vp_last_alloc_req == en + 1, "C29: evhttp_htmlescape result is not allocated to fit exactly");
	for (i = 0; i < 6 * VP_N; i++)
		if (i < en && (e[i] == '<' || e[i] == '>' || e[i] == '"' || e[i] == '\'')) raw = 1;
	VP_ASSERT(!raw, "C29: evhttp_htmlescape output contains a raw markup character");
	bn = ruc_html_unescape((const unsigned char *)e, en, VP_N, back);
	VP_ASSERT(bn != (size_t)-1, "C29: evhttp_htmlescape output contains a raw '&' (not one of the five entities)");
	VP_ASSERT(bn == len, "C29: unescaped length differs from the input");
	for (i = 0; i < VP_N; i++) if (i < len && back[i] != s[i]) same = 0;
	VP_ASSERT(same, "C29: evhttp_htmlescape output does not unescape to its input");
	if (en == 6 * VP_N) VP_WITNESS("htmlescape: longest expansion");
	if (en == len && len == VP_N) VP_WITNESS("htmlescape: nothing to escape");
	if (en > len && en < 6 * len) VP_WITNESS("htmlescape: mixed");
	VP_ASSERT(evhttp_htmlescape(NULL) == NULL, "C29: evhttp_htmlescape(NULL) is NULL");
	mm_free(e);
}
