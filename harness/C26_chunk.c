/* C26 (d): chunked replies.  The real evhttp_send_reply_start(),
 * evhttp_send_reply_chunk_with_cb() and evhttp_send_reply_end() write into
 * the recording sink (env/http_recsink.h).  For a reply started on an
 * HTTP/1.1 request the writes must be exactly
 *
 *   head with "Transfer-Encoding: chunked"                (send_reply_start)
 *   printf(<hex>, n) add_buffer(data, n) add("\r\n")      (per chunk, n = full length of the data)
 *   add("0\r\n\r\n")                                      (send_reply_end)
 *
 * i.e. RFC 9112 7.1 chunk framing whose chunk-size is the number of data
 * octets that follow -- for every size_t length (the data buffer only carries
 * a length here).  For HTTP/1.0 (VP_MINOR=0) no chunk framing is written at
 * all and the data follow the head unframed (close-delimited body).
 *
 * Cut: evhttp_send_done (called by send_reply_end when nothing is left to
 * write; request completion is property C27) is a recorder (--replace-calls).
 * bufferevent_setcb / bufferevent_enable are recorders.
 */
#include "vp.h"
#include "log_stub.h"
#include "http_fmt.h"
#include "http_alloc.h"
#include "http_evutil.h"
#include "http.c"
#ifndef VP_MINOR
#define VP_MINOR 1
#endif
#include "http_recsink.h"

static struct bufferevent vp_bev;
struct evbuffer *bufferevent_get_output(struct bufferevent *b) { return b->output; }
struct evbuffer *bufferevent_get_input(struct bufferevent *b) { return b->input; }
static int vp_setcb_calls, vp_enable_calls, vp_send_done_calls;
void bufferevent_setcb(struct bufferevent *b, bufferevent_data_cb r, bufferevent_data_cb w, bufferevent_event_cb e, void *arg)
{ (void)b; (void)r; (void)w; (void)e; (void)arg; vp_setcb_calls++; }
int bufferevent_enable(struct bufferevent *b, short ev) { (void)b; (void)ev; vp_enable_calls++; return 0; }
void vp_cut_send_done(struct evhttp_connection *evcon, void *arg) { (void)evcon; (void)arg; vp_send_done_calls++; }
int evutil_date_rfc1123(char *date, const size_t datelen, const struct tm *tm)
{
	(void)tm;
	if (datelen < 2) return 1;
	date[0] = 'D'; date[1] = '\0';
	return 1;
}
static int same_str(const char *a, const char *b, size_t max)
{
	size_t i;
	for (i = 0; i <= max; i++) {
		if (a[i] != b[i]) return 0;
		if (a[i] == '\0') return 1;
	}
	return 1;
}
/* '%' [ 'l' | 'll' | 'z' ] 'x' CR LF : a hexadecimal conversion of one unsigned argument */
static int is_hex_line_fmt(const struct vp_rec *r)
{
	const char *f = r->fmt;
	size_t i = 0;
	if (r->kind != VP_REC_PRINTF || r->nargs != 1) return 0;
	if (f[i++] != '%') return 0;
	if (f[i] == 'z') i++;
	else { if (f[i] == 'l') i++; if (f[i] == 'l') i++; }
	if (f[i++] != 'x') return 0;
	return f[i] == '\r' && f[i + 1] == '\n' && f[i + 2] == '\0';
}

void harness_chunk(void)
{
	struct evhttp_request req;
	struct evhttp_connection evcon;
	struct evhttp http;
	struct evkeyvalq in_headers, out_headers;
	struct evbuffer *sink, *body, *data;
	size_t n, n0;
	int at, i, te = 0;

	memset(&req, 0, sizeof(req));
	memset(&evcon, 0, sizeof(evcon));
	memset(&http, 0, sizeof(http));
	memset(&vp_bev, 0, sizeof(vp_bev));
	TAILQ_INIT(&in_headers);
	TAILQ_INIT(&out_headers);
	TAILQ_INIT(&evcon.requests);
	sink = evbuffer_new(); sink->is_sink = 1;
	body = evbuffer_new();
	data = evbuffer_new();
	vp_bev.output = sink;
	evcon.bufev = &vp_bev;
	evcon.http_server = &http;
	evcon.state = EVCON_WRITING;
	req.input_headers = &in_headers;
	req.output_headers = &out_headers;
	req.output_buffer = body;
	req.major = 1; req.minor = VP_MINOR;
	req.evcon = &evcon;
	req.kind = EVHTTP_REQUEST;
	req.type = EVHTTP_REQ_GET;
	TAILQ_INSERT_TAIL(&evcon.requests, &req, next);

	evhttp_send_reply_start(&req, 200, "OK");
	for (i = 0; i < VP_REC_MAX; i++)
		if (i < sink->nrec && vp_fmt_is(&sink->rec[i], "%s: %s\r\n") && same_str(sink->rec[i].sarg[0], "Transfer-Encoding", 20)) {
			te++;
			VP_ASSERT(same_str(sink->rec[i].sarg[1], "chunked", 8), "C26: Transfer-Encoding written by send_reply_start is 'chunked'");
		}
	VP_ASSERT(te == (VP_MINOR >= 1 ? 1 : 0), "C26: chunked reply announced with exactly one Transfer-Encoding: chunked (HTTP/1.1), none for HTTP/1.0");
	VP_ASSERT(req.chunked == (VP_MINOR >= 1), "C26: req->chunked set iff chunk framing was announced");
	at = sink->nrec;
	VP_ASSERT(at >= 2 && sink->rec[at - 1].kind == VP_REC_ADD && sink->rec[at - 1].n == 2, "C26: head complete (ends with CRLF) before the first chunk");

	n = vp_size();
	data->len = n;
	n0 = n;
	evhttp_send_reply_chunk_with_cb(&req, data, NULL, NULL);
	if (n0 == 0) {
		VP_ASSERT(sink->nrec == at, "C26: an empty buffer writes nothing (an empty chunk would end the body)");
		VP_WITNESS("empty chunk skipped");
	}
#if VP_MINOR >= 1
	else {
		VP_ASSERT(sink->nrec == at + 3, "C26: one chunk = size line, data, CRLF");
		VP_ASSERT(is_hex_line_fmt(&sink->rec[at]), "C26: chunk starts with a hexadecimal chunk-size line");
		VP_ASSERT(sink->rec[at].narg[0] == (unsigned long long)n0, "C26: chunk-size written != number of data octets that follow (length truncated)");
		VP_ASSERT(sink->rec[at + 1].kind == VP_REC_ADDBUF && sink->rec[at + 1].src == data && sink->rec[at + 1].n == n0, "C26: all data octets of the chunk follow the size line");
		VP_ASSERT(sink->rec[at + 2].kind == VP_REC_ADD && sink->rec[at + 2].n == 2 && sink->rec[at + 2].bytes[0] == '\r' && sink->rec[at + 2].bytes[1] == '\n', "C26: chunk data are followed by CRLF");
		if (n0 > 0xffffffffULL) VP_WITNESS("chunk larger than 4 GiB framed");
		VP_WITNESS("chunk framed");
	}
#else
	else {
		VP_ASSERT(sink->nrec == at + 1 && sink->rec[at].kind == VP_REC_ADDBUF && sink->rec[at].n == n0, "C26: HTTP/1.0: data written unframed");
		VP_WITNESS("unframed data written");
	}
#endif
	VP_ASSERT(evbuffer_get_length(data) == 0 || n0 == 0, "C26: the data buffer was drained into the output");
	at = sink->nrec;

	evhttp_send_reply_end(&req);
	if (VP_MINOR >= 1) {
		const struct vp_rec *r = &sink->rec[at];
		VP_ASSERT(sink->nrec == at + 1 && r->kind == VP_REC_ADD && r->n == 5 && r->bytes[0] == '0' && r->bytes[1] == '\r' && r->bytes[2] == '\n' && r->bytes[3] == '\r' && r->bytes[4] == '\n',
		    "C26: chunked reply ends with last-chunk and empty trailer '0 CRLF CRLF'");
	} else {
		VP_ASSERT(sink->nrec == at, "C26: HTTP/1.0 reply end writes nothing");
	}
	VP_ASSERT(req.userdone == 1, "C26: reply marked done");
}
