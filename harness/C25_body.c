/* C25 (b): body size limit.  One step of the real body readers with symbolic
 * 64-bit quantities: max_body_size, bytes buffered in the connection's input,
 * announced length (Content-Length remaining / chunk size), bytes accounted
 * so far.  Buffers only carry lengths (contents are irrelevant for the
 * arithmetic); moving / draining bytes is recorded.
 *
 *   -DVP_BODY_CL      evhttp_read_body(), Content-Length framing (ntoread >= 0)
 *   -DVP_BODY_CLOSE   evhttp_read_body(), close-delimited body (ntoread < 0)
 *   -DVP_BODY_CHUNK   evhttp_handle_chunked_read(): one chunk-size line (hex digits, symbolic) with symbolic body_size
 *   -DVP_BODY_LINGER  evhttp_lingering_fail()/evhttp_lingering_close()
 *
 * Cut (--replace-calls): evhttp_connection_done (= message delivered),
 * evhttp_connection_fail_ (= refused), evhttp_request_free_auto.
 * Asserted: a message is delivered only with body_size <= max_body_size and
 * == the announced length; never more bytes are taken from the input than
 * announced or buffered; accounting never wraps; with lingering close at most
 * the announced bytes are drained and the connection fails when they are gone.
 */
#include "vp.h"
#include "log_stub.h"
#include "http_fmt.h"
#include "http_alloc.h"
#include "http_evutil.h"
#include "http.c"

struct evbuffer { size_t len; };
static struct evbuffer vp_in, vp_body;
static size_t vp_moved, vp_drained;
static struct bufferevent vp_bev;
struct evbuffer *bufferevent_get_input(struct bufferevent *b) { (void)b; return &vp_in; }
size_t evbuffer_get_length(const struct evbuffer *b) { return b->len; }
int evbuffer_remove_buffer(struct evbuffer *src, struct evbuffer *dst, size_t n)
{
	if (n > src->len) n = src->len;
	src->len -= n; dst->len += n; vp_moved += n;
	return (int)n;
}
int evbuffer_add_buffer(struct evbuffer *dst, struct evbuffer *src)
{
	vp_moved += src->len; dst->len += src->len; src->len = 0;
	return 0;
}
int evbuffer_drain(struct evbuffer *b, size_t n)
{
	if (n > b->len) n = b->len;
	b->len -= n;
	if (b == &vp_in) vp_drained += n;
	return 0;
}
static int vp_disable_calls;
int bufferevent_disable(struct bufferevent *b, short ev) { (void)b; (void)ev; vp_disable_calls++; return 0; }

static int vp_done_calls, vp_fail_calls, vp_fail_code, vp_free_calls;
void vp_cut_connection_done(struct evhttp_connection *evcon) { (void)evcon; vp_done_calls++; }
void vp_cut_connection_fail(struct evhttp_connection *evcon, enum evhttp_request_error e) { (void)evcon; vp_fail_calls++; vp_fail_code = (int)e; }
void vp_cut_request_free_auto(struct evhttp_request *req) { (void)req; vp_free_calls++; }

/* chunk-size line supplier (VP_BODY_CHUNK) */
#ifndef VP_N
#define VP_N 17
#endif
static char vp_line[VP_N + 1];
static size_t vp_line_len; static int vp_line_given;
char *evbuffer_readln(struct evbuffer *b, size_t *n_read_out, enum evbuffer_eol_style s)
{
	char *p; size_t i;
	(void)s;
	if (b != &vp_in || vp_line_given) return NULL;
	vp_line_given = 1;
	p = malloc(VP_N + 1);
	__CPROVER_assume(p != NULL);
	for (i = 0; i <= VP_N; i++) p[i] = i < vp_line_len ? vp_line[i] : '\0';
	if (n_read_out) *n_read_out = vp_line_len;
	b->len -= vp_line_len + 2; /* line and CRLF leave the buffer */
	return p;
}

static struct evhttp_request req;
static struct evhttp_connection evcon;
static void setup(void)
{
	memset(&req, 0, sizeof(req));
	memset(&evcon, 0, sizeof(evcon));
	req.evcon = &evcon;
	req.input_buffer = &vp_body;
	req.kind = EVHTTP_REQUEST;
	evcon.bufev = &vp_bev;
	evcon.max_body_size = vp_u64();
	evcon.state = EVCON_READING_BODY;
}

#ifdef VP_BODY_CL
static int vp_cb_calls; static size_t vp_cb_saw;
static void vp_chunk_cb(struct evhttp_request *r, void *arg) { (void)arg; vp_cb_calls++; vp_cb_saw += r->input_buffer->len; }
void harness_body(void)
{
	ev_int64_t n0; size_t m0, b0, take;
	setup();
	n0 = (ev_int64_t)vp_u64(); m0 = vp_size(); b0 = vp_size();
	/* state invariant: announced length >= 0; bytes accounted + still announced = Content-Length, which fits 63 bits;
	 * what is buffered in memory is far below 2^63 */
	__CPROVER_assume(n0 >= 0 && m0 <= ((size_t)1 << 48) && b0 <= (size_t)EV_INT64_MAX - (size_t)n0);
	/* without a chunk callback nothing is moved before the body is complete (body_size stays 0); the total was
	 * compared with the limit when reading started (b0 == 0), so later steps see b0 + n0 = Content-Length <= max */
#ifdef VP_WITH_CB
	/* with a chunk callback data are handed on as they arrive: first step b0 == 0, later steps b0 + n0 = Content-Length,
	 * which was within the limit when reading started */
	__CPROVER_assume(b0 == 0 || b0 + (size_t)n0 <= evcon.max_body_size);
	req.chunk_cb = vp_chunk_cb;
#else
	__CPROVER_assume(b0 == 0);
	req.chunk_cb = NULL;
#endif
	req.ntoread = n0; req.body_size = b0; vp_in.len = m0; vp_body.len = 0;

	evhttp_read_body(&evcon, &req);

#ifdef VP_WITH_CB
	take = m0 < (size_t)n0 ? m0 : (size_t)n0;
#else
	take = (m0 >= (size_t)n0) ? (size_t)n0 : 0; /* without chunk callback data are moved only when the whole rest is there */
#endif
	VP_ASSERT(vp_moved == take || vp_fail_calls, "C25: bytes taken from the input != min(rest announced, buffered) once complete");
	VP_ASSERT(vp_moved <= (size_t)n0 && vp_moved <= m0, "C25: more bytes taken from the input than announced or buffered");
	VP_ASSERT(vp_done_calls + vp_fail_calls <= 1, "C25: at most one completion");
	if (vp_done_calls) {
		VP_ASSERT(req.ntoread == 0 && req.body_size == b0 + (size_t)n0, "C25: message delivered before the announced length was read");
		VP_ASSERT(req.body_size <= evcon.max_body_size, "C25: message delivered with a body larger than max_body_size");
		VP_ASSERT(vp_in.len == m0 - (size_t)n0, "C25: bytes behind the body stay in the input buffer for the next message");
		VP_WITNESS("body complete within the limit");
	}
	if (vp_fail_calls) {
		VP_ASSERT(vp_fail_code == EVREQ_HTTP_DATA_TOO_LONG, "C25: over-long body reported as DATA_TOO_LONG (413)");
		VP_ASSERT(b0 + (size_t)n0 > evcon.max_body_size, "C25: body refused although the announced total fits max_body_size");
		VP_WITNESS("body beyond the limit refused");
	}
	if (!vp_done_calls && !vp_fail_calls) {
#ifndef VP_WITH_CB
		VP_ASSERT(b0 + (size_t)n0 <= evcon.max_body_size, "C25: body that cannot fit max_body_size is still waited for");
#else
		/* (with a chunk callback the announced total is compared after the bytes that just arrived were subtracted,
		 * so an over-long body may be noticed one read later; what was handed on so far is within the limit) */
		VP_ASSERT(req.body_size <= evcon.max_body_size, "C25: more than max_body_size bytes handed to the chunk callback");
#endif
#ifdef VP_WITH_CB
		VP_ASSERT(req.ntoread == n0 - (ev_int64_t)take && req.body_size == b0 + take, "C25: partial body accounting");
		VP_ASSERT(vp_cb_calls == (take > 0) && vp_cb_saw == take, "C25: the chunk callback sees exactly the bytes that arrived");
#else
		VP_ASSERT(vp_moved == 0 && req.ntoread == n0, "C25: incomplete body: nothing consumed yet");
#endif
		VP_WITNESS("waiting for the rest of the body");
	}
}
#endif

#ifdef VP_BODY_CLOSE
void harness_body(void)
{
	size_t m0, b0;
	setup();
	m0 = vp_size(); b0 = vp_size();
	__CPROVER_assume(m0 <= ((size_t)1 << 48));
	__CPROVER_assume(b0 <= evcon.max_body_size); /* invariant kept by the previous steps */
	req.kind = EVHTTP_RESPONSE;
	req.ntoread = -1; req.body_size = b0; vp_in.len = m0; vp_body.len = b0;

	evhttp_read_body(&evcon, &req);

	VP_ASSERT(vp_done_calls == 0, "C25: a close-delimited body is not completed by data");
	if (vp_fail_calls) {
		VP_ASSERT(b0 + m0 > evcon.max_body_size || b0 + m0 < b0, "C25: close-delimited body refused although it fits max_body_size");
		VP_WITNESS("close-delimited body beyond the limit refused");
	} else {
		VP_ASSERT(req.body_size == b0 + m0 && b0 + m0 >= b0, "C25: body_size accounts exactly the bytes moved (no wrap)");
		VP_ASSERT(req.body_size <= evcon.max_body_size, "C25: body beyond max_body_size kept");
		VP_ASSERT(vp_moved == m0 && vp_in.len == 0, "C25: all buffered bytes moved to the body");
		VP_WITNESS("close-delimited data within the limit accepted");
	}
}
#endif

#ifdef VP_BODY_CHUNK
void harness_body(void)
{
	size_t b0, i; enum message_read_status st;
	unsigned long long v = 0; int over = 0, hex = 1;
	setup();
	b0 = vp_size();
	__CPROVER_assume(b0 <= evcon.max_body_size);
	vp_bytes(vp_line, VP_N);
	vp_line_len = (size_t)vp_range(1, VP_N);
	vp_line[vp_line_len] = '\0';
	for (i = 0; i < VP_N; i++) {
		if (i < vp_line_len) {
			char c = vp_line[i];
			int d = (c >= '0' && c <= '9') ? c - '0' : (c >= 'a' && c <= 'f') ? c - 'a' + 10 : (c >= 'A' && c <= 'F') ? c - 'A' + 10 : -1;
			if (d < 0) hex = 0;
			else if (v >> 59) over = 1; /* would exceed 2^63-1 after the shift */
			else v = v * 16 + (unsigned)d;
		}
	}
	__CPROVER_assume(hex); /* the line is 1*HEXDIG; other syntax is C23 obligation `chunked` */
	if (v >= 0x7fffffffffffffffULL) over = 1; /* 2^63-1 is what strtoll saturates to: refusing it is right */
	req.chunked = 1; req.ntoread = -1; req.body_size = b0;
	vp_in.len = vp_line_len + 2; /* exactly the size line is buffered */

	st = evhttp_handle_chunked_read(&req, &vp_in);

	if (st == ALL_DATA_READ) {
		VP_ASSERT(!over && v == 0, "C25: last chunk recognised only for size 0");
		VP_ASSERT(req.body_size == b0, "C25: last chunk adds nothing");
		VP_WITNESS("last chunk");
	} else if (st == MORE_DATA_EXPECTED) {
		VP_ASSERT(!over && v > 0, "C25: a chunk is expected only for a size that fits");
		VP_ASSERT(req.ntoread == (ev_int64_t)v, "C25: chunk size taken == size on the wire");
		VP_ASSERT(req.body_size == b0 + (size_t)v && b0 + (size_t)v >= b0, "C25: body_size accounts the chunk (no wrap)");
		VP_ASSERT(req.body_size <= evcon.max_body_size, "C25: chunk accepted although body would exceed max_body_size");
		VP_WITNESS("chunk within the limit accepted");
	} else {
		VP_ASSERT(st == DATA_TOO_LONG || st == DATA_CORRUPTED, "C25: chunk refused as too long or corrupted");
		VP_ASSERT(over || b0 + (size_t)v > evcon.max_body_size || b0 + (size_t)v < b0, "C25: chunk refused although the body fits max_body_size");
		if (st == DATA_TOO_LONG) VP_WITNESS("chunk beyond the limit refused");
		if (over) VP_WITNESS("chunk size overflow refused");
	}
}
#endif

#ifdef VP_BODY_LINGER
void harness_body(void)
{
	ev_int64_t n0; size_t m0, b0;
	setup();
	n0 = (ev_int64_t)vp_u64(); m0 = vp_size(); b0 = vp_size();
	/* lingering close is entered from evhttp_read_body/evhttp_get_body for Content-Length framing that exceeds the limit */
	__CPROVER_assume(n0 > 0 && m0 <= ((size_t)1 << 48) && b0 <= (size_t)EV_INT64_MAX - (size_t)n0);
	req.ntoread = n0; req.body_size = b0; vp_in.len = m0;
	evcon.flags = vp_bool() ? EVHTTP_CON_LINGERING_CLOSE : 0;

	evhttp_lingering_fail(&evcon, &req);

	if (!(evcon.flags & EVHTTP_CON_LINGERING_CLOSE)) {
		VP_ASSERT(vp_fail_calls == 1 && vp_fail_code == EVREQ_HTTP_DATA_TOO_LONG && vp_drained == 0, "C25: without lingering close the connection fails at once (413)");
		VP_WITNESS("immediate failure");
	} else {
		size_t take = m0 < (size_t)n0 ? m0 : (size_t)n0;
		VP_ASSERT(vp_drained == take && vp_in.len == m0 - take, "C25: lingering close drains min(announced rest, buffered) bytes, nothing behind the body");
		VP_ASSERT(req.ntoread == n0 - (ev_int64_t)take && req.body_size == b0 + take, "C25: lingering close accounting");
		VP_ASSERT((vp_fail_calls == 1) == (req.ntoread == 0), "C25: the connection fails (413) exactly when the announced body has been drained");
		VP_ASSERT(vp_moved == 0, "C25: nothing of an over-long body is delivered");
		if (vp_fail_calls) VP_WITNESS("drained completely, failed"); else VP_WITNESS("draining continues");
	}
}
#endif
