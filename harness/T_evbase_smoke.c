#include "vp.h"
#include "log_stub.h"
#include "locks.h"
#define VP_HAVE_EVENT_C
#include "alloc.h"
#include "event.c"
#include "evbase.h"
static int ncb; static short lastres;
static void cb(evutil_socket_t fd, short res, void *arg) { (void)fd; (void)arg; ncb++; lastres = res; }
void harness_smoke(void)
{
	struct event_base *base = vp_base_new(2, 1);
	struct event ev;
	struct timeval tv = { 1, 0 };
	int r;
	event_assign(&ev, base, -1, 0, cb, NULL);
	r = event_add(&ev, &tv);
	VP_ASSERT(r == 0, "add ok");
	VP_ASSERT_NO_LOCKS("event_add");
	event_base_loop(base, EVLOOP_NONBLOCK);
	VP_ASSERT(ncb == 0, "timer must not fire before its deadline");
	vp_now.tv_sec += 1;
	event_base_loop(base, EVLOOP_NONBLOCK);
	VP_ASSERT(ncb == 1 && lastres == EV_TIMEOUT, "timer fires once at deadline");
	VP_ASSERT_NO_LOCKS("event_base_loop");
	VP_WITNESS("end");
}
