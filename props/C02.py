import os
ID = "C02"
LEVEL = "model_checking"
TECHNIQUE = "CBMC bounded symbolic execution of the real event.c/evmap.c API on a constructed base against a reference state machine; solver-chosen call histories explored as an unmerged tree"
UNITS = ["event.c", "evmap.c"]
FUNCTIONS = []
BOUNDS = ""
OUT = ""
TEXT = ""
NOTE = ""
ASSUMPTIONS = []
DESIGN_REF = "DESIGN.md §5 C02"
_T = int(os.environ.get("VP_PROBE_T", "0"))
_PIN = [sum([["--restrict-function-pointer", x] for x in (
    "event_base_loop.function_pointer_call.7/vp_be_dispatch",
    "event_persist_closure.function_pointer_call.2/cb",
    "event_process_active_single_queue.function_pointer_call.2/cb",
    "event_signal_closure.function_pointer_call.2/cb",
    "evmap_io_add_.function_pointer_call.1/vp_be_add", "evmap_io_del_.function_pointer_call.1/vp_be_del",
    "evmap_signal_add_.function_pointer_call.1/vp_sig_add", "evmap_signal_del_.function_pointer_call.1/vp_sig_del")], [])]
# evmap_check_integrity_ (first statement of event_base_assert_ok_nolock_) walks all 32 fd slots and 65 signal
# slots on every call; the fd/signal tables are C05's subject, the rest of the consistency check stays live.
_PIN[0] += ["--remove-function-body", "evmap_check_integrity_"]
_PIN.append(["--generate-function-body", "evmap_check_integrity_", "--generate-function-body-options", "nondet-return"])
KINDS = ["K_TIMER", "K_TIMER_P", "K_IO", "K_IO_P", "K_SIG_P"]

def _ob(k0, k1, L, prefix=(), **kw):
    defs = ["C02_KIND0=" + k0, "C02_KIND1=" + k1, "C02_LEN=%d" % L]
    name = "hist_%s_%s_len%d" % (k0[2:].lower(), k1[2:].lower(), L)
    if any(k in ("K_IO", "K_IO_P", "K_SIG_P") for k in (k0, k1)): defs.append("C02_HAS_IO")
    if L >= 2 and prefix and prefix[0] < 24 and (prefix[0] % 12) in (1, 2, 4, 5, 6, 7, 8): defs.append("C02_EXPECT_CB")
    if prefix:
        defs.append("C02_PREFIX=" + ",".join(str(p) for p in prefix)); name += "_pre" + "_".join(str(p) for p in prefix)
    d = dict(name=name, harness="C02_statemachine.c", entry="harness_history",
             sources=[], defines=defs,
             unwind=10, unwindset=["run:%d" % (L + 2)], instrument=_PIN, timeout=900, mem_gb=2, cbmc=["--object-bits", "12", "--no-standard-checks"],
             desc="all histories of %d API calls (26 alternatives per call%s) over a %s and a %s event vs the reference model" % (L, "; first %d fixed: %s" % (len(prefix), list(prefix)) if prefix else "", k0, k1))
    d.update(kw)
    if _T: d["timeout"] = _T
    return d

def _allowed(kinds, sel):
    if sel >= 24: return True
    k = kinds[1] if sel >= 12 else kinds[0]; o = sel % 12
    if k == "K_IO_P" and o in (1, 2): return False
    if k == "K_SIG_P" and 4 <= o <= 8: return False
    return True

def obligations(tier):
    pairs = [("K_TIMER", "K_IO_P"), ("K_IO", "K_TIMER_P")] if tier == "quick" else \
            [("K_TIMER", "K_IO_P"), ("K_IO", "K_TIMER_P"), ("K_TIMER", "K_TIMER_P"), ("K_IO", "K_SIG_P"), ("K_IO", "K_IO"), ("K_TIMER_P", "K_TIMER_P")]
    obs = []
    for kinds in pairs:
        for sel in range(26):
            if _allowed(kinds, sel):
                obs.append(_ob(kinds[0], kinds[1], 2, prefix=(sel,)))
    return obs
