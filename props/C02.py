import os
ID = "C02"
LEVEL = "model_checking"
TECHNIQUE = "CBMC bounded symbolic execution of the real event.c/evmap.c API on a constructed base against a reference state machine; solver-chosen call histories explored as an unmerged tree"
UNITS = ["event.c", "evmap.c"]
FUNCTIONS = []
BOUNDS = ""
OUT = ""
TEXT = ""
NOTE = ""
ASSUMPTIONS = []
DESIGN_REF = "DESIGN.md §5 C02"
_T = int(os.environ.get("VP_PROBE_T", "0"))
_PIN = [sum([["--restrict-function-pointer", x] for x in (
    "event_base_loop.function_pointer_call.7/vp_be_dispatch",
    "event_persist_closure.function_pointer_call.2/cb",
    "event_process_active_single_queue.function_pointer_call.2/cb",
    "event_signal_closure.function_pointer_call.2/cb",
    "evmap_io_add_.function_pointer_call.1/vp_be_add", "evmap_io_del_.function_pointer_call.1/vp_be_del",
    "evmap_signal_add_.function_pointer_call.1/vp_sig_add", "evmap_signal_del_.function_pointer_call.1/vp_sig_del")], [])]
# evmap_check_integrity_ (first statement of event_base_assert_ok_nolock_) walks all 32 fd slots and 65 signal
# slots on every call; the fd/signal tables are C05's subject, the rest of the consistency check stays live.
_PIN[0] += ["--remove-function-body", "evmap_check_integrity_"]
_PIN.append(["--generate-function-body", "evmap_check_integrity_", "--generate-function-body-options", "nondet-return"])
KINDS = ["K_TIMER", "K_TIMER_P", "K_IO", "K_IO_P", "K_SIG_P"]

def _ob(k0, k1, L, **kw):
    d = dict(name="hist_%s_%s_len%d" % (k0[2:].lower(), k1[2:].lower(), L), harness="C02_statemachine.c", entry="harness_history",
             sources=[], defines=["C02_KIND0=" + k0, "C02_KIND1=" + k1, "C02_LEN=%d" % L],
             unwind=10, unwindset=["run:%d" % (L + 2)], instrument=_PIN, timeout=900, mem_gb=4, cbmc=["--object-bits", "12", "--no-standard-checks"],
             desc="all histories of %d API calls over a %s and a %s event vs the reference model" % (L, k0, k1))
    d.update(kw)
    if _T: d["timeout"] = _T
    return d

def obligations(tier):
    obs = [_ob("K_TIMER", "K_IO_P", 1), _ob("K_TIMER", "K_IO_P", 2)]
    return obs
