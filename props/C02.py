import os
ID = "C02"
LEVEL = "model_checking"
TECHNIQUE = "CBMC bounded symbolic execution of the real event.c/evmap.c API on a constructed base against a reference state machine; solver-chosen call histories explored as an unmerged tree"
UNITS = ["event.c", "evmap.c"]
FUNCTIONS = ['event_assign', 'event_add', 'event_add_nolock_', 'event_del', 'event_del_nolock_', 'event_active', 'event_active_nolock_', 'event_remove_timer', 'event_priority_set', 'event_get_priority', 'event_pending', 'event_initialized', 'event_base_get_num_events', 'event_base_get_max_events', 'event_base_loop', 'timeout_process', 'event_process_active', 'event_persist_closure', 'event_signal_closure', 'event_base_assert_ok_nolock_', 'evmap_io_add_', 'evmap_io_del_', 'evmap_signal_add_', 'evmap_signal_del_']
BOUNDS = '2 events of fixed kinds per obligation (quick: timer+persistent I/O, I/O+persistent timer; thorough: 6 pairs incl. signal), 2 priorities; ALL histories of 2 API calls from 26 alternatives per call (per event: add(NULL), add(tv) x2, del, active x5 result/ncalls variants, remove_timer, priority_set x2; loop with clock +0 / +2 s): first call enumerated by the driver, second chosen by the solver; back-end refusal of a registration solver-chosen; timeouts from {0,1 s}/{1 s,2 s}'
OUT = "histories longer than 2 calls (3-4 only for the listed prefixes); event_new/event_free (event_assign + event_del is used); in the all-histories obligations persistent I/O events are never given a timeout and signal events are never activated by hand (cbmc does not fold reads of struct event's unions after two members were written) - those combinations and common-timeout timers are covered only by the nu_* obligations (fixed prefix + any call) compiled with env/event_struct_nounion.h; evmap_check_integrity_ (cut: C05's subject); event_base_foreach_event; debug mode; EV_ET/EV_CLOSED/EV_WRITE events; symbolic durations (C01)"
TEXT = 'After every call of every history the real library is compared with a reference model of the documented event state machine: event_pending (all flags and the reported expiry time), event_initialized, priority, event_base_get_num_events / get_max_events (active, added, virtual, combined), the callbacks invoked (count per event, result flags, order by priority then activation order, ties excepted), the return values of event_add/del/priority_set/remove_timer/event_base_loop, lock balance, and event_base_assert_ok_nolock_ runs with its assertions live.'
NOTE = "FINDING (obligations hist_*_pre4..8 / pre16..20 fail on the unchanged tree, replayed natively): event_add() on an event that is active but not inserted (event_active() before event_add(), or a timed-out event re-added before its callback ran) returns 0 without registering the fd/signal; a persistent event then never fires on I/O.  Fix: fixes/C02-event-add-while-active.diff (1 line).  EVENT_BASE_COUNT_ADDED is modelled as the implementation defines it (number of list memberships inserted+timeout+active of non-internal events; event.h only promises 'may be more than the number of events you added').  Histories are explored as a tree without state merging (the rest of the history runs inside the branch of each choice)."
ASSUMPTIONS = ["nu_* obligations: the unions of struct event are laid out as structs (env/event_struct_nounion.h); sound as long as the library never writes one union member and reads another", 'constructed event_base (env/evbase.h), recording back end that reports no I/O', 'virtual clock', 'allocation does not fail', 'callbacks do not call the API (C03/C45 cover that)']
DESIGN_REF = "DESIGN.md §5 C02"
_T = int(os.environ.get("VP_PROBE_T", "0"))
_PIN = [sum([["--restrict-function-pointer", x] for x in (
    "event_base_loop.function_pointer_call.7/vp_be_dispatch",
    "event_persist_closure.function_pointer_call.2/cb",
    "event_process_active_single_queue.function_pointer_call.2/cb",
    "event_signal_closure.function_pointer_call.2/cb",
    "evmap_io_add_.function_pointer_call.1/vp_be_add", "evmap_io_del_.function_pointer_call.1/vp_be_del",
    "evmap_signal_add_.function_pointer_call.1/vp_sig_add", "evmap_signal_del_.function_pointer_call.1/vp_sig_del")], [])]
# evmap_check_integrity_ (first statement of event_base_assert_ok_nolock_) walks all 32 fd slots and 65 signal
# slots on every call; the fd/signal tables are C05's subject, the rest of the consistency check stays live.
_PIN[0] += ["--remove-function-body", "evmap_check_integrity_"]
_PIN.append(["--generate-function-body", "evmap_check_integrity_", "--generate-function-body-options", "nondet-return"])
_PIN_NU = [[x.replace("single_queue.function_pointer_call.2/cb", "single_queue.function_pointer_call.2/cb,common_timeout_callback") for x in _PIN[0]]] + _PIN[1:]
KINDS = ["K_TIMER", "K_TIMER_P", "K_IO", "K_IO_P", "K_SIG_P"]

def _ob(k0, k1, L, prefix=(), **kw):
    defs = ["C02_KIND0=" + k0, "C02_KIND1=" + k1, "C02_LEN=%d" % L]
    name = "hist_%s_%s_len%d" % (k0[2:].lower(), k1[2:].lower(), L)
    if any(k in ("K_IO", "K_IO_P", "K_SIG_P") for k in (k0, k1)): defs.append("C02_HAS_IO")
    if L >= 2 and prefix and prefix[0] < 24 and (prefix[0] % 12) in (1, 2, 4, 5, 6, 7, 8): defs.append("C02_EXPECT_CB")
    if prefix:
        defs.append("C02_PREFIX=" + ",".join(str(p) for p in prefix)); name += "_pre" + "_".join(str(p) for p in prefix)
    d = dict(name=name, harness="C02_statemachine.c", entry="harness_history",
             sources=[], defines=defs,
             unwind=10, unwindset=["run:%d" % (L + 2)], instrument=_PIN, timeout=900, mem_gb=2, cbmc=["--object-bits", "12", "--no-standard-checks"],
             desc="all histories of %d API calls (26 alternatives per call%s) over a %s and a %s event vs the reference model" % (L, "; first %d fixed: %s" % (len(prefix), list(prefix)) if prefix else "", k0, k1))
    d.update(kw)
    if _T: d["timeout"] = _T
    return d

def _allowed(kinds, sel):
    if sel >= 24: return True
    k = kinds[1] if sel >= 12 else kinds[0]; o = sel % 12
    if k == "K_IO_P" and o in (1, 2): return False
    if k == "K_SIG_P" and 4 <= o <= 8: return False
    if k == "K_SIG_P" and o in (1, 2): return False          # KF_EXCLUDE_sigtimeout (see kf_sigtimeout)
    return True

def obligations(tier):
    pairs = [("K_TIMER", "K_IO_P"), ("K_IO", "K_TIMER_P")] if tier == "quick" else \
            [("K_TIMER", "K_IO_P"), ("K_IO", "K_TIMER_P"), ("K_TIMER", "K_TIMER_P"), ("K_IO", "K_SIG_P"), ("K_IO", "K_IO"), ("K_TIMER_P", "K_TIMER_P")]
    obs = []
    for kinds in pairs:
        for sel in range(26):
            if _allowed(kinds, sel):
                obs.append(_ob(kinds[0], kinds[1], 2, prefix=(sel,)))
    # Histories that need two members of struct event's unions (persistent I/O event WITH a timeout, common-timeout
    # timers, hand-activated signal events): the harness is compiled with env/event_struct_nounion.h (unions laid out as
    # structs; sound because the library never writes one member and reads another).  Fixed call prefix, then ANY call.
    nu = [("K_CTIMER", "K_TIMER", (1, 4)),        # common-timeout add, event_active(EV_READ), then e.g. loop +2 s: result must be READ|TIMEOUT
          ("K_TIMER", "K_IO_P", (13, 21, 16)),    # persistent I/O add(1 s), remove_timer, active(EV_READ), then e.g. loop: no re-arm
          ("K_TIMER", "K_IO_P", (14, 25)),        # persistent I/O with a 2 s timeout fires by timeout: deleted+re-added+re-armed
          ("K_CTIMER", "K_CTIMER", (1, 13))]      # two timers in one common-timeout queue: FIFO
    if tier != "quick":
        nu += [("K_CTIMER", "K_CTIMER", (13, 1)), ("K_CTIMER", "K_CTIMER", (2, 13)), ("K_CTIMER", "K_CTIMER", (1, 13, 25)), ("K_CTIMER", "K_TIMER_P", (1, 14)),
               ("K_IO", "K_SIG_P", (16,)), ("K_IO", "K_SIG_P", (12, 17)), ("K_TIMER", "K_IO_P", (13, 16)), ("K_TIMER", "K_IO_P", (13, 25, 25))]
    for (k0, k1, pre) in nu:
        o = _ob(k0, k1, len(pre) + 1, prefix=pre)
        o["name"] = "nu_" + o["name"][5:]
        o["defines"] = [d for d in o["defines"] if d != "C02_EXPECT_CB"] + ["C02_NOUNION", "C02_EXPECT_CB"]
        o["instrument"] = _PIN_NU
        o["desc"] = "union-free layout: calls %s on %s/%s then ANY call vs the reference model" % (list(pre), k0, k1)
        obs.append(o)
    if True:   # both tiers: every run prints the KNOWN-FINDING line for the recorded finding
        # known finding (predicate: a persistent signal event is added with a timeout): must still fail
        o = _ob("K_IO", "K_SIG_P", 2, prefix=(13, 25))
        o.update(name="kf_sigtimeout", defines=o["defines"] + ["KF_ONLY_sigtimeout"], known_finding="KF-C02-signal-timeout-drops-persistent-signal",
                 expect_fail=["C02: event_pending differs from the reference model", "C02: expiry time reported by event_pending differs",
                              "C02: number of added events", "C02: combined count", "C02: max added events", "C02: event_base_loop must return 1 exactly",
                              "C02: number of callbacks", "C02: an event's callback count", "C02: number of active events", "C02: max active events"],
                 desc="KNOWN FINDING witness: add(1 s) on a persistent signal event, loop with the clock +2 s: the model keeps the signal registered and re-arms; the library deletes the event")
        obs.append(o)
    return obs
