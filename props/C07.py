ID = "C07"
LEVEL = "model_checking"
TECHNIQUE = ("CBMC bounded symbolic execution of the real signal.c / signalfd.c / evmap.c (signal maps) / event.c (event_add, event_del, event_base_loop, "
             "event_signal_closure, event_base_free) against an executable sigaction / blocked-mask / self-pipe / signalfd model; "
             "the I/O back end is a recording stand-in whose init/dealloc call sigfd_init_/evsig_init_/evsig_dealloc_ as the real back ends do")
UNITS = ["signal.c", "signalfd.c", "evmap.c", "event.c"]
FUNCTIONS = ["evsig_init_", "evsig_add", "evsig_del", "evsig_set_handler_", "evsig_ensure_saved_", "evsig_restore_handler_", "evsig_handler", "evsig_cb",
             "evsig_dealloc_", "evsig_set_base_", "sigfd_init_", "sigfd_add", "sigfd_del", "sigfd_cb", "sigfd_free_sigevent",
             "evmap_signal_add_", "evmap_signal_del_", "evmap_signal_active_", "evmap_io_add_", "evmap_io_del_", "evmap_io_active_",
             "event_signal_closure", "event_persist_closure", "event_add_nolock_", "event_del_nolock_", "event_active_nolock_",
             "event_process_active_single_queue", "event_base_loop", "event_base_free_", "event_assign", "event_new"]
BOUNDS = ("2 signals (SIGUSR1, SIGUSR2), 3 persistent signal events (ev0, ev1 on A; ev2 on B), fixed histories of up to 14 steps from "
          "{add, del, deliver (one raise), refuse (self-pipe EAGAIN for the next raise), loop iteration (EVLOOP_NONBLOCK), base free}; "
          "symbolic: the dispositions (handler in {SIG_DFL, SIG_IGN, an application handler}, sa_flags, first word of sa_mask) installed before libevent "
          "touches the signals; callback actions (delete own event / raise the signal again from inside the callback) fixed per obligation; "
          "both mechanisms (self-pipe, signalfd); deliveries between library calls and inside callbacks only")
OUT = ("asynchronous delivery at arbitrary instructions (handler vs. library races), real signal coalescing/queueing rules beyond the model, SIGCHLD semantics, "
       "fork (C11), more than one event_base using signals, delivery counts/pipe refusals chosen by the solver (they are fixed per shape: symbolic pipe contents "
       "make evsig_cb's per-signal tally symbolic for all 65 signals), the signal mask libevent leaves behind in signalfd mode (sigfd_del unblocks unconditionally; "
       "the property speaks about handlers), real epoll/poll back ends underneath (C04/C05), evsig_add failure paths (malloc/sigaction failing)")
TEXT = ("Signal callbacks run only with exactly EV_SIGNAL and their own signal number, only while the event is added (never after event_del returned, including "
        "event_del from inside its own callback with calls still pending), at most as often per loop iteration as deliveries were noted by the mechanism and at "
        "least once for a batch raised while the event was added; deleting the last event of a signal (from outside or inside a callback) and freeing the base "
        "restore the full sigaction (handler, flags, mask) that was installed before the first add, for the self-pipe and the signalfd mechanism.")
NOTE = ("Trusted: cbmc; env/sigmodel.h (~180 lines); env/evbase.h constructed base + virtual clock; env/event_struct_nounion.h (the three unions of "
        "event_struct.h compiled as structs -- see that header for why and for the argument that no code relies on member overlap); typed evmap allocation "
        "(env/typed_alloc.h). cbmc needs --max-field-sensitivity-array-size >= 1024 here (evsig_cb's ncaught[65] and signals[1024]).")
ASSUMPTIONS = [
    "kernel signal side behaves per env/sigmodel.h (sigaction get/set, blocked mask, bounded self-pipe with EAGAIN, signalfd pending flag per signal)",
    "signals are raised only between library calls or from inside a signal event's callback",
    "allocation and sigaction/signalfd calls do not fail",
    "struct event / struct event_callback unions laid out as structs (env/event_struct_nounion.h)",
]
DESIGN_REF = "DESIGN.md §5 C07"

USET = (["evsig_cb.%d:66" % i for i in range(7)] + ["evsig_dealloc_.%d:66" % i for i in range(3)] +
        ["evmap_io_active_.0:3", "evmap_signal_active_.0:4", "event_base_loop.16:4", "event_signal_closure.6:6", "event_process_active_single_queue.21:8", "noted.0:5", "read.0:5",
         "vp_sigfd_of.0:5", "vp_sigfd_for_sig.0:5", "kernel_reports.0:5", "evmap_signal_foreach_signal.0:34", "evmap_io_foreach_fd.0:66",
         "evmap_signal_clear_.0:66", "vp_realloc_signal.0:66", "check_wiring.0:3"])

SHAPES = [
    ("basic", "ADD(0) DELIVER(A) LOOP DEL(0) FREE", []),
    ("two_events_counts", "ADD(0) ADD(1) DELIVER(A) DELIVER(A) LOOP DEL(0) DELIVER(A) LOOP DEL(1) DELIVER(A) LOOP FREE", ["VP_WIT_BOTH", "VP_WIT_TWICE"]),
    ("two_signals", "ADD(0) ADD(2) DELIVER(A) DELIVER(B) LOOP DEL(2) DELIVER(B) LOOP DEL(0)", []),
    ("selfdel_pending_calls", "ADD(0) DELIVER(A) DELIVER(A) LOOP DELIVER(A) LOOP", ["VP_SELFDEL=1"]),
    ("selfdel_other_stays", "ADD(0) ADD(1) DELIVER(A) LOOP DELIVER(A) LOOP DEL(1)", ["VP_SELFDEL=1"]),
    ("redeliver_in_cb", "ADD(0) DELIVER(A) LOOP LOOP DEL(0)", ["VP_REDELIVER=1"]),
    ("free_with_added", "ADD(0) ADD(2) DELIVER(A) FREE", []),
    ("late_add_sees_pending", "ADD(1) DELIVER(A) ADD(0) LOOP DEL(0) DEL(1)", ["VP_WIT_BOTH"]),
    ("readd", "ADD(0) DEL(0) DELIVER(A) ADD(0) DELIVER(A) LOOP DEL(0) FREE", []),
    ("del_before_loop", "ADD(0) DELIVER(A) DEL(0) LOOP ADD(0) LOOP DEL(0)", []),
    # event_reinit: dealloc with live saved dispositions, then re-add of every signal; both signals, the higher one (B) last / first
    ("reinit_two_signals", "ADD(0) ADD(2) REINIT DELIVER(B) DELIVER(A) LOOP DEL(0) DEL(2) FREE", []),
    ("reinit_then_free", "ADD(2) ADD(0) REINIT DELIVER(B) LOOP FREE", []),
    ("reinit_one_signal", "ADD(0) ADD(1) DELIVER(A) REINIT DELIVER(A) LOOP DEL(1) DEL(0)", ["VP_WIT_BOTH"]),
    # two different signals, then the one added FIRST is delivered (signal mask handling of the later add)
    ("first_of_two_delivered", "ADD(0) ADD(2) DELIVER(A) LOOP DEL(2) DELIVER(A) LOOP DEL(0)", []),
    ("second_then_first", "ADD(2) ADD(0) DELIVER(B) LOOP DELIVER(A) DELIVER(B) LOOP FREE", []),
]
PIPE_ONLY = [
    ("refused_byte", "ADD(0) REFUSE DELIVER(A) LOOP DELIVER(A) LOOP DEL(0)", []),
    ("pipe_full", "ADD(0) DELIVER(A) DELIVER(A) DELIVER(A) DELIVER(A) DELIVER(A) LOOP DEL(0)", []),
]

def ob(name, steps, extra=(), **kw):
    d = dict(name=name, harness="C07_signals.c", entry="harness_signals", defines=["VP_STEPS=" + steps] + list(extra),
             unwind=4, unwindset=USET, cbmc=["--max-field-sensitivity-array-size", "1100"], timeout=900, mem_gb=6,
             desc="history [%s] %s" % (steps, " ".join(extra)))
    d.update(kw)
    return d

def obligations(tier):
    obs = []
    for n, s, e in SHAPES + PIPE_ONLY:
        obs.append(ob("pipe_" + n, s, e))
    for n, s, e in SHAPES:
        obs.append(ob("sigfd_" + n, s, [x for x in e if x != "VP_WIT_TWICE"] + ["VP_SIGFD"]))
    if tier == "thorough":
        for n, s, e in SHAPES[:4]:
            obs.append(ob("pipe_" + n + "_ndebug", s, e, ndebug=True))
            obs.append(ob("sigfd_" + n + "_ndebug", s, [x for x in e if x != "VP_WIT_TWICE"] + ["VP_SIGFD"], ndebug=True))
    return obs
