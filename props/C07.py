ID = "C07"
LEVEL = "model_checking"
TECHNIQUE = "CBMC bounded symbolic execution of signal.c/signalfd.c + event.c + evmap.c against a sigaction/self-pipe/signalfd model"
UNITS = ["signal.c", "signalfd.c", "evmap.c", "event.c"]
FUNCTIONS = ["evsig_init_", "evsig_add", "evsig_del", "evsig_set_handler_", "evsig_restore_handler_", "evsig_handler", "evsig_cb", "evsig_dealloc_",
             "sigfd_init_", "sigfd_add", "sigfd_del", "sigfd_cb", "evmap_signal_add_", "evmap_signal_del_", "evmap_signal_active_",
             "event_signal_closure", "event_add_nolock_", "event_del_nolock_", "event_active_nolock_", "event_base_loop", "event_base_free_"]
BOUNDS = ""
OUT = ""
TEXT = ""
NOTE = ""
ASSUMPTIONS = []
DESIGN_REF = "DESIGN.md §5 C07"

def ob(name, steps, extra=(), **kw):
    d = dict(name=name, harness="C07_signals.c", entry="harness_signals", defines=["VP_STEPS=" + steps] + list(extra),
             sources=["evmap.c"], unwind=4, timeout=600, mem_gb=6, desc=steps)
    d.update(kw)
    return d

def obligations(tier):
    return [ob("pipe_basic", "ADD(0) DELIVER(A) LOOP DEL(0)")]
