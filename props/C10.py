import os
ID = "C10"
LEVEL = "model_checking"
TECHNIQUE = ("CBMC bounded symbolic execution of the real event.c/evmap.c over enumerated release histories on a constructed base; "
             "monitors for callback/finalizer counts and order; cbmc --pointer-check (deallocated-object dereference, double free) and "
             "--memory-leak-check at the end of every history")
UNITS = ["event.c", "evmap.c"]
FUNCTIONS = ["event_new", "event_free", "event_finalize", "event_free_finalize", "event_finalize_nolock_", "event_del_nolock_",
             "event_process_active_single_queue", "event_base_cancel_single_callback_", "event_base_free_queues_", "event_base_free_",
             "event_base_once", "event_once_cb", "event_base_priority_init", "libevent_global_shutdown"]
BOUNDS = ("2 heap events (A: one-shot read / persistent read / timer / one-shot signal / persistent signal with ncalls <= 3; B: persistent read) + event_base_once records; histories of at most 3 "
          "operations from {add, add(NULL), active, del, finalize, free_finalize, free, loop pass, loop pass after 2 s, once(now/1 s/fd), "
          "active(B), priority_init with failed allocation}; one action inside A's callback from {free self, free_finalize self, finalize self, "
          "del self, free B, free_finalize B, re-activate}; epilogue either two loop passes or none, then user releases what it owns, "
          "event_base_free, libevent_global_shutdown")
OUT = ("bufferevents (socket/pair/filter), evbuffer callbacks, listeners (their units' properties C13/C19/C44); file descriptors (the back end and "
       "the notify pipe are stubs: no fd table); event_base_free_nofinalize (by contract leaves finalizers unrun); user errors (touching an "
       "event after its finalizer ran, event_free after the base is gone); real threads")
TEXT = ("finalizer exactly once iff requested, never before/without request, after the last callback; no callback after event_free / "
        "event_free_finalize / event_finalize / event_del returned (also when issued from inside the event's own callback); once-callbacks at "
        "most once, exactly once when due before the base is freed, never from event_base_free; no dereference of released memory, no double "
        "free; no allocation left after event_base_free + libevent_global_shutdown")
NOTE = "Trusted: cbmc incl. its malloc/free model and leak check, env/locks.h, env/evbase.h."
ASSUMPTIONS = ["base constructed as in env/evbase.h (freed by the real event_base_free_)", "allocations succeed except where a history says otherwise",
               "the user follows the documented ownership rules (frees its events before the base, does not touch a finalized event)"]
DESIGN_REF = "DESIGN.md §5 C10"

_T = int(os.environ.get("VP_PROBE_T", "0"))
O = dict(NOP=0, ADD=1, ACTIVE=2, DEL=3, FINALIZE=4, FREE_FINALIZE=5, FREE=6, LOOP=7, LOOP_2S=8, ONCE_NOW=9, ONCE_1S=10, ONCE_FD=11,
         BASE_FREE=12, ACTIVE_B=13, PRIO_INIT_OOM=14, ADD_NULL=15)
CB = dict(NONE=0, FREE_SELF=1, FREE_FINALIZE_SELF=2, FINALIZE_SELF=3, DEL_SELF=4, FREE_B=5, REACTIVATE=6, FREE_FINALIZE_B=7)

def _pins():
    P = [
        ("event_base_loop.function_pointer_call.7", "c10_dispatch"),
        ("event_process_active_single_queue.function_pointer_call.2", "cb,event_once_cb"),
        ("event_process_active_single_queue.function_pointer_call.6", "fin"),
        ("event_persist_closure.function_pointer_call.2", "cb"),
        ("event_signal_closure.function_pointer_call.2", "cb"),
        ("event_once_cb.function_pointer_call.1", "cb"),
        ("evmap_io_add_.function_pointer_call.1", "vp_be_add"),
        ("evmap_io_del_.function_pointer_call.1", "vp_be_del"),
        ("evmap_signal_add_.function_pointer_call.1", "vp_sig_add"),
        ("evmap_signal_del_.function_pointer_call.1", "vp_sig_del"),
        ("event_base_cancel_single_callback_.function_pointer_call.3", "fin"),
        ("event_base_free_.function_pointer_call.1", "vp_be_dealloc"),
        ("evthread_notify_base.function_pointer_call.1", "vp_notify_fn"),
        ("event_mm_malloc_.function_pointer_call.1", "c10_malloc"),
        ("event_mm_calloc_.function_pointer_call.1", "c10_malloc"),
        ("event_mm_realloc_.function_pointer_call.1", "c10_realloc"),
        ("event_mm_free_.function_pointer_call.1", "c10_free"),
        ("vp_base_new_ops.function_pointer_call.1", "vp_be_init"),
        ("evmap_io_foreach_fd.function_pointer_call.1", "evmap_io_delete_all_iter_fn"),
        ("evmap_signal_foreach_signal.function_pointer_call.1", "evmap_signal_delete_all_iter_fn"),
    ]
    out = []
    for lab, tg in P:
        out += ["--restrict-function-pointer", "%s/%s" % (lab, tg)]
    return [out]

def _ob(ops, kind=0, cbact="NONE", epi=0, fin_frees=0, ncalls=1, **kw):
    ops = list(ops) + ["NOP"] * (3 - len(ops))
    name = "%s_k%d_cb%s_e%d%s%s" % ("-".join(o.lower() for o in ops if o != "NOP") or "none", kind, cbact.lower(), epi, "_finfrees" if fin_frees else "",
                                    "" if ncalls == 1 else "_n%d" % ncalls)
    defs = ["C10_OP1=%d" % O[ops[0]], "C10_OP2=%d" % O[ops[1]], "C10_OP3=%d" % O[ops[2]], "C10_KIND=%d" % kind,
            "C10_CBACT=%d" % CB[cbact], "C10_EPI=%d" % epi, "C10_FIN_FREES=%d" % fin_frees, "C10_NCALLS=%d" % ncalls]
    d = dict(name=name, harness="C10_lifetime.c", entry="harness_lifetime", sources=[], defines=defs, unwind=6,
             unwindset=["evmap_io_foreach_fd.0:34", "evmap_signal_foreach_signal.0:34", "evmap_io_clear_.0:34", "evmap_signal_clear_.0:34"],
             instrument=_pins(), timeout=600, mem_gb=4,
             cbmc=["--object-bits", "10", "--no-standard-checks", "--pointer-check", "--memory-leak-check"],
             desc="history %s on A (kind %d), in-callback action %s, epilogue %d%s" % (";".join(ops), kind, cbact, epi, ", finalizer frees the event" if fin_frees else ""))
    d.update(kw)
    if _T: d["timeout"] = _T
    return d

def obligations(tier):
    obs = []
    seen = set()
    def add(*a, **k):
        o = _ob(*a, **k)
        if o["name"] not in seen: seen.add(o["name"]); obs.append(o)
    # finalizers
    for epi in (0, 1):
        for ff in (0, 1):
            add(["ADD", "FINALIZE"], epi=epi, fin_frees=ff)
            add(["ADD", "ACTIVE", "FINALIZE"], epi=epi, fin_frees=ff)
        add(["ADD", "FREE_FINALIZE"], epi=epi)
        add(["ADD", "ACTIVE", "FREE_FINALIZE"], epi=epi)
        add(["FINALIZE", "LOOP", "ACTIVE"], epi=epi)
        add(["ADD", "ACTIVE", "FREE"], epi=epi)
        add(["ADD", "ACTIVE", "DEL"], epi=epi)
        add(["ONCE_NOW"], epi=epi); add(["ONCE_1S"], epi=epi); add(["ONCE_FD"], epi=epi)
        add(["ONCE_NOW", "ONCE_1S", "LOOP"], epi=epi)
        add(["PRIO_INIT_OOM"], epi=epi)
    # release from inside the own callback
    for kind in (0, 1, 2):
        for cbact in ("FREE_SELF", "FREE_FINALIZE_SELF", "FINALIZE_SELF", "DEL_SELF"):
            add(["ADD", "ACTIVE", "LOOP"], kind=kind, cbact=cbact)
    add(["ADD", "ACTIVE", "LOOP"], cbact="FINALIZE_SELF", fin_frees=1)
    # signal events activated with ncalls >= 2: releasing/deleting the event in its first invocation must stop the ncalls loop
    # (one-shot signal events are no longer inserted while their callback runs; persistent ones are)
    for kind in (3, 4):
        for cbact in ("FREE_SELF", "FREE_FINALIZE_SELF", "FINALIZE_SELF", "DEL_SELF"):
            add(["ADD", "ACTIVE", "LOOP"], kind=kind, cbact=cbact, ncalls=2)
        add(["ACTIVE", "LOOP"], kind=kind, cbact="FREE_SELF", ncalls=3)
        add(["ACTIVE", "LOOP"], kind=kind, cbact="DEL_SELF", ncalls=2)
        add(["ADD", "ACTIVE", "LOOP"], kind=kind, cbact="NONE", ncalls=2)
        add(["ADD", "ACTIVE", "FREE"], kind=kind, ncalls=2)
    add(["ADD", "ACTIVE", "ACTIVE_B"], cbact="FREE_B")
    add(["ACTIVE_B", "ACTIVE", "LOOP"], cbact="FREE_B")
    add(["ADD", "ACTIVE", "ACTIVE_B"], cbact="FREE_FINALIZE_B")
    add(["ADD", "ACTIVE", "LOOP"], kind=1, cbact="REACTIVATE")
    add(["ADD", "LOOP_2S", "FREE"], kind=2)
    add(["ADD", "LOOP_2S", "FREE_FINALIZE"], kind=1)
    if tier != "quick":
        A = ["ADD", "ACTIVE", "DEL", "FINALIZE", "FREE_FINALIZE", "FREE", "LOOP", "LOOP_2S", "ONCE_NOW"]
        for a in A:
            for b in A:
                for epi in (0, 1):
                    add([a, b], kind=0, epi=epi)
        for kind in (1, 2):
            for b in ("FREE", "FINALIZE", "FREE_FINALIZE", "DEL"):
                add(["ADD", b], kind=kind, epi=0)
                add(["ACTIVE", b], kind=kind, epi=0)
        for cbact in ("FREE_SELF", "FREE_FINALIZE_SELF", "FINALIZE_SELF", "DEL_SELF", "FREE_B", "REACTIVATE"):
            for kind in (0, 1):
                for c in ("LOOP", "FREE", "FINALIZE", "DEL", "NOP"):
                    add(["ADD", "ACTIVE", c], kind=kind, cbact=cbact, epi=0 if c != "NOP" else 1)
    return obs
