ID = "C22"
LEVEL = "model_checking"
TECHNIQUE = "CBMC bounded symbolic execution of bufferevent_ratelim.c budget/decrement/refill functions from arbitrary consistent rate-limit states (inductive steps), full 64-bit bucket levels"
UNITS = ["bufferevent_ratelim.c", "ratelim-internal.h", "bufferevent-internal.h"]
FUNCTIONS = ["bufferevent_get_rlim_max_", "bufferevent_get_read_max_", "bufferevent_get_write_max_", "bufferevent_decrement_read_buckets_", "bufferevent_decrement_write_buckets_",
             "bev_refill_callback_", "bev_group_refill_callback_", "bev_group_suspend_reading_", "bev_group_unsuspend_reading_", "bev_group_random_element_", "FOREACH_RANDOM_ORDER"]
BOUNDS = "one call per obligation from a symbolic state: bucket levels/bursts/rates/per-operation maxima full 64-bit, own limit present or not, group present or not with 1..3 members, every suspend-flag combination; refill 0..3 ticks after the last update"
OUT = "the k-tick window bound itself is the induction over these steps (written in DESIGN.md), not a solver query; wall-clock behaviour; TLS bufferevents; groups larger than 3; evutil/event core behind recording stubs (C01/C18/C20/C46)"
TEXT = "Each step that the k-tick bandwidth bound rests on is decided for all 64-bit states: budget <= what is left (own bucket, group bucket, per-op maximum), decrement charges exactly the bytes and suspends+arms the refill timer at <= 0, refill resumes exactly when positive; group resume visits every member from any random start."
NOTE = "Trusted: cbmc; recorders for event_add/event_del/bufferevent_suspend_*; C21 for the refill arithmetic; C46 contract for the random start."
ASSUMPTIONS = ["bucket level <= burst (C21 invariant)", "configurations as accepted by ev_token_bucket_cfg_new", "bufferevent_suspend_*/unsuspend_* set/clear the given reason bit (their own semantics: C18/C20)"]
DESIGN_REF = "DESIGN.md §5 C22"

def obligations(tier):
    obs = []
    # configuration shape (own limit yes/no, group of 0..3 members) is structural: one obligation each; everything else symbolic
    shapes = [(1, 0, 1), (0, 0, 1)] + [(c, 1, n) for c in (0, 1) for n in (1, 2, 3)]
    for c, g, n in shapes:
        d = ["VP_WITH_CFG=%d" % c, "VP_WITH_GROUP=%d" % g, "VP_NMEM=%d" % n]; tag = "cfg%d_grp%d" % (c, n if g else 0)
        what = "%s own limit, %s" % ("with" if c else "no", ("group of %d" % n) if g else "no group")
        obs.append(dict(name="budget_" + tag, harness="C22_ratelim.c", entry="harness_budget", defines=d + ["KF_EXCLUDE_minshare"], unwind=5, timeout=600, mem_gb=6,
                        desc=what + ": bufferevent_get_read_max_/write_max_: 0 <= budget <= per-op max, <= own bucket, <= group bucket and share (share not raised to min_share)"))
        obs.append(dict(name="decrement_" + tag, harness="C22_ratelim.c", entry="harness_decrement", defines=d, unwind=5, timeout=600, mem_gb=6,
                        desc=what + ": bufferevent_decrement_read/write_buckets_: exact charge, suspension and refill timer at <= 0, group suspension of all members"))
        if g:
            obs.append(dict(name="budget_minshare_kf_" + tag, harness="C22_ratelim.c", entry="harness_budget", defines=d + ["KF_ONLY_minshare"], unwind=5, timeout=600, mem_gb=6,
                            expect_fail=["C22: budget exceeds what is left in the group's bucket"], known_finding="KF-C22-group-min-share",
                            desc=what + ", share raised to min_share: budget may exceed the group's bucket (recorded finding)"))
            if c == 0:
                obs.append(dict(name="group_refill_grp%d" % n, harness="C22_ratelim.c", entry="harness_group_refill", defines=d, unwind=5, timeout=600, mem_gb=6,
                                desc="group of %d: bev_group_refill_callback_: resume iff bucket >= min_share or pending; every member visited from any random start" % n))
    obs.append(dict(name="refill", harness="C22_ratelim.c", entry="harness_refill", unwind=5, timeout=600, mem_gb=6, desc="bev_refill_callback_: resume iff positive, re-arm iff still in deficit"))
    return obs
