ID = "C39"
LEVEL = "model_checking"
TECHNIQUE = ("CBMC bounded symbolic execution of evdns.c's configuration parsers (strtoint*, evdns_strtotimeval, "
             "evdns_base_set_option_impl, resolv_conf_parse_line, evdns_base_parse_hosts_line, the line splitters of "
             "evdns_base_resolv_conf_parse_impl / evdns_base_load_hosts_impl) on symbolic text in exact-size objects, "
             "against the reference reading of resolv.conf(5)/hosts(5)/dns.h in ref/dnsconf_ref.h")
UNITS = ["evdns.c"]
FUNCTIONS = ["strtoint", "strtoint_clipped", "evdns_strtotimeval", "str_matches_option", "evdns_base_set_option_impl",
             "evdns_base_set_max_requests_inflight", "resolv_conf_parse_line", "evdns_base_nameserver_ip_add",
             "evdns_nameserver_add_impl_", "search_postfix_clear", "search_postfix_add", "search_reverse",
             "evdns_base_parse_hosts_line", "evdns_base_resolv_conf_parse_impl", "evdns_base_load_hosts_impl",
             "evdns_base_new", "evdns_base_free_and_unlock"]
BOUNDS = ("integer values: every text <= 12 bytes and every (value, end) pair strtol can report; time values: every double and end pointer strtod "
          "can report; option text: each documented name (9 in the quick tier, all 17 thorough; whole or short of its last character) followed "
          "by <= 3 arbitrary bytes, and every text <= 8/10 bytes in an exact object; option values <= 4 bytes; resolv.conf lines: every line <= 7/8 "
          "bytes in an exact object, and each directive keyword (whole or short of its last character) followed by <= 4..8 arbitrary bytes; "
          "hosts lines <= 6/8 bytes in an exact object; files of exactly 6/8 bytes; pre-state: evdns_base_new() plus at most one nameserver "
          "and one search domain with ndots 0..9; the address parser's verdict (rejects / IPv4 / IPv6) enumerated per obligation")
OUT = ("text->integer and text->double conversion (libc strtol / strtod, contracts: any value, any end pointer); the address syntax itself "
       "(evutil_parse_sockaddr_port: C40; contract: fails or returns any AF_INET/AF_INET6 address and port); hosts lines "
       "whose comment starts inside the address field (\"1.2.3.4#x\": memory safety only); allocation failure inside the "
       "parsers; whole files longer than the bound (the per-line routines are decided per line, the splitter with "
       "recording line routines); socket-level effects of adding a nameserver (recorder); Windows registry/iphlpapi paths")
TEXT = ("Parsing of resolv.conf lines, hosts lines and evdns_base_set_option values never reads or writes out of bounds "
        "and does not leak; the nameserver ring, search list, ndots, option fields and hosts entries after a line equal "
        "the reference parser's; malformed lines and values change nothing.")
NOTE = ("Leniencies the reference shares with the code (not reported): leading blanks before a directive; integer "
        "values in strtol syntax (leading white space, sign, empty text = 0, negative values stored as they are); "
        "unknown options return 0; `-1` is rejected because it is the error sentinel.  Findings: KF-C39-int-wrap "
        "(values beyond int wrap instead of saturating), KF-C39-timeval-range (NaN/inf/huge seconds are converted with "
        "undefined behaviour and stored as garbage), KF-C39-ndots-reset (domain/search lines and the end-of-file "
        "default reset ndots to 1, so `options ndots:n` is lost).")
ASSUMPTIONS = ["search-list entries and hosts entries are served from one typed object with room for 24 text bytes; every memcpy into them is checked against the requested size (env/dns_typed_alloc_post.h)",
               "strings contain no NUL before their terminator (they are C strings handed over by strtok_r/the caller)",
               "evdns_base_set_option: val == NULL only for options without value (dns.h)",
               "max-inflight values in harness_option are <= 15 (keeps the request table small; clipping is decided in harness_int)",
               "evdns_nameserver_add_impl_ in the pre-state succeeded"]
DESIGN_REF = "DESIGN.md §5 C39, §3.3, §3.6, §3.8"

KF_FILE_NOTE = "proposed entries: fixes/C39-known-findings.json"
CHK = ["--memory-leak-check"]
CONV = ["--conversion-check"]   # float->int conversions in evdns_strtotimeval must be defined (harness_timeval has no narrowing casts of its own)

OPT_NAMES = ["ndots", "timeout", "getaddrinfo-allow-skew", "max-timeouts", "max-inflight", "attempts", "randomize-case",
             "bind-to", "initial-probe-timeout", "max-probe-timeout", "probe-backoff-factor", "so-rcvbuf", "so-sndbuf",
             "tcp-idle-timeout", "use-vc", "ignore-tc", "edns-udp-size"]
INT_OPTS = {0, 3, 4, 5, 6, 9, 10, 11, 12, 16}
TIME_OPTS = {1, 2, 8, 13}

def ob(name, entry, desc, defines=(), unwind=8, unwindset=(), timeout=600, mem_gb=4, **kw):
    d = dict(name=name, harness="C39_conf.c", entry=entry, desc=desc, defines=list(defines), unwind=unwind,
             unwindset=list(unwindset) + ["vpd_memset.0:130", "vpd_memcpy.0:130", "vpd_memcpy_var.0:30", "vpe_memcpy.0:130", "vpd_calloc.0:15", "evdns_base_set_max_requests_inflight.4:15", "vpd_check_write.0:10", "c39_sa_equal.0:18", "vpe_timeout_set.0:10", "vpe_timeout_of.0:10"],
             cbmc=list(CHK) + ["--object-bits", "10"] + list(kw.pop("cbmc", [])), timeout=timeout, mem_gb=mem_gb)
    d.update(kw)
    return d

def int_obs(N):
    o = []
    what = ("strtoint / strtoint_clipped(symbolic [min,max]) == reference (the value strtol(base 10) reads from the WHOLE text, saturated to int, "
            "-1 rejected, then clipped) for every text <= %d bytes in an exact object and every (value, end pointer) strtol can report" % N)
    o.append(ob("int_N%d" % N, "harness_int", what + " (values that fit an int)", ["C39_N=%d" % N, "KF_EXCLUDE_INT_WRAP"], unwind=N + 2))
    o.append(ob("int_N%d_kf_wrap" % N, "harness_int", "the same on exactly the KF-C39-int-wrap inputs (value outside the range of int)",
                ["C39_N=%d" % N, "KF_ONLY_INT_WRAP"], unwind=N + 2,
                expect_fail=["C39: strtoint/strtoint_clipped value differs", "C39: strtoint/strtoint_clipped accepted"], known_finding="KF-C39-int-wrap"))
    return o

def time_obs():
    o = []
    o.append(ob("timeval", "harness_timeval",
                "evdns_strtotimeval == reference (finite 0 <= d <= INT_MAX, >= 1 ms; tv = trunc) for every double and end pointer strtod can return "
                "(excluding KF-C39-timeval-range); every float->int conversion defined", ["KF_EXCLUDE_TIMEVAL_RANGE"], unwind=7, cbmc=CONV, solver="cadical"))
    o.append(ob("timeval_kf_range", "harness_timeval",
                "the same on exactly the KF-C39-timeval-range inputs (NaN, +inf, > INT_MAX seconds)", ["KF_ONLY_TIMEVAL_RANGE"], unwind=7, cbmc=CONV, solver="cadical",
                expect_fail=["C39: evdns_strtotimeval accepted", "arithmetic overflow on floating-point typecast", "arithmetic overflow on float"],
                known_finding="KF-C39-timeval-range"))
    return o

QUICK_OPTS = ["ndots", "timeout", "max-inflight", "attempts", "bind-to", "initial-probe-timeout", "max-probe-timeout", "use-vc", "edns-udp-size"]
def opt_obs(tier):
    o = []
    tvc = [["--replace-calls", "evdns_strtotimeval:c39_timeval_contract"]]
    for k, n in enumerate(OPT_NAMES):
        if tier == "quick" and n not in QUICK_OPTS: continue
        defs = ["C39_OPTK=%d" % k, "KF_EXCLUDE_INT_WRAP"]
        o.append(ob("opt_%s" % n.replace("-", "_"), "harness_option",
                    "evdns_base_set_option_impl(\"%s\"[short of its last character] + <= 3 arbitrary bytes, value <= 4 bytes or NULL, any flags): result and "
                    "every configuration field == reference; rejected/unselected/near-miss options change nothing; no leak "
                    "(evdns_strtotimeval by the contract decided in `timeval`)" % n,
                    defs, unwind=max(len(n) + 6, 25), unwindset=["evdns_base_set_max_requests_inflight.1:16"], instrument=tvc, timeout=900, mem_gb=3))
    on = 8 if tier == "quick" else 10
    o.append(ob("opt_symbolic", "harness_option",
                "evdns_base_set_option_impl(any text <= %d bytes in an exact object, value <= 4 bytes, any flags) == reference" % on,
                ["C39_ON=%d" % on, "KF_EXCLUDE_INT_WRAP"], unwind=25,
                unwindset=["evdns_base_set_max_requests_inflight.1:16"], instrument=tvc, timeout=900, mem_gb=4))
    o.append(ob("opt_attempts_kf_wrap", "harness_option",
                "evdns_base_set_option_impl(\"attempts...\") on exactly the KF-C39-int-wrap values",
                ["C39_OPTK=5", "KF_ONLY_INT_WRAP"], unwind=25,
                unwindset=["evdns_base_set_max_requests_inflight.1:16"], instrument=tvc, timeout=900, mem_gb=3,
                expect_fail=["C39: evdns_base_set_option result differs", "C39: configuration after evdns_base_set_option differs"],
                known_finding="KF-C39-int-wrap"))
    return o

def line_obs(tier):
    N = 10 if tier == "quick" else 12
    H = 6 if tier == "quick" else 8
    F = 6 if tier == "quick" else 8
    rc = [["--replace-calls", "evdns_base_set_option_impl:c39_opt_recorder"]]
    o = []
    def rl(name, n, af, extra, desc, prefix=None, **kw):
        ln = n + (len(prefix) if prefix else 0)
        defs = ["C39_N=%d" % n, "C39_AF=%d" % af] + list(extra) + (['C39_PREFIX="%s"' % prefix] if prefix else [])
        # loop bounds: `search` domains <= (ln - 6) / 2 (each needs a blank and a byte), `options` tokens <= (ln - 7) / 2
        return ob(name, "harness_resolv", desc, defs, unwind=max(ln + 3, 12), instrument=rc, timeout=900, mem_gb=(5 if (prefix in ("nameserver", "options", "search")) else 3),
                  unwindset=["resolv_conf_parse_line.2:%d" % (max(ln - 6, 0) // 2 + 2), "resolv_conf_parse_line.3:%d" % (max(ln - 7, 0) // 2 + 2)], **kw)
    common = ("on a base with 0/1 nameserver and 0/1 search domain, any flags: nameserver ring, search list (order, leading dots), ndots, (option,value) pairs handed "
              "to the option routine == reference; other lines change nothing; no leak (excluding KF-C39-ndots-reset)")
    S = 7 if tier == "quick" else 8
    o.append(rl("resolv_line_any_N%d" % S, S, 1, ["KF_EXCLUDE_NDOTS_RESET"] + (["C39_W_DOMAIN"] if S >= 8 else []),
                "resolv_conf_parse_line(any line <= %d bytes in an exact object) %s" % (S, common)))
    T = 3 if tier == "quick" else 5
    for af, what in ((1, "yields an IPv4 address"), (0, "rejects the address"), (2, "yields an IPv6 address")):
        if tier == "quick" and af == 2: continue
        o.append(rl("resolv_line_nameserver_T%d_af%d" % (T, af), T, af, ["KF_EXCLUDE_NDOTS_RESET", "C39_W_NS"],
                    "resolv_conf_parse_line(\"nameserver\"[short of its last character] + <= %d arbitrary bytes; the address parser %s) %s" % (T, what, common), prefix="nameserver"))
    for kw_, wit, t in (("search", "C39_W_SEARCH", T + 2), ("domain", "C39_W_DOMAIN", T), ("options", "C39_W_OPTIONS", T + 1)):
        o.append(rl("resolv_line_%s_T%d" % (kw_, t), t, 1, ["KF_EXCLUDE_NDOTS_RESET", wit],
                    "resolv_conf_parse_line(\"%s\"[short of its last character] + <= %d arbitrary bytes) %s" % (kw_, t, common), prefix=kw_))
    o.append(rl("resolv_line_kf_ndots", 4, 1, ["KF_ONLY_NDOTS_RESET"],
                "\"search\" + <= 4 arbitrary bytes on exactly the KF-C39-ndots-reset inputs (domain/search line on a base whose ndots is not 1)", prefix="search",
                expect_fail=["C39: a domain/search line changed ndots"], known_finding="KF-C39-ndots-reset"))
    for af, what in ((0, "rejects the address"), (1, "yields an IPv4 address"), (2, "yields an IPv6 address")):
        o.append(ob("hosts_line_N%d_af%d" % (H, af), "harness_hosts",
                    "evdns_base_parse_hosts_line(any line <= %d bytes in an exact object; the address parser %s): result and recorded (name, address) "
                    "entries == reference (comment stripped, first field = address without port, remaining fields = names in order); no leak" % (H, what),
                    ["C39_N=%d" % H, "C39_AF=%d" % af], unwind=max(H + 3, 12), unwindset=["evdns_base_parse_hosts_line.4:%d" % ((H - 1) // 2 + 2)], timeout=900, mem_gb=3))
    fr = [["--replace-calls", "resolv_conf_parse_line:c39_line_rec"], ["--replace-calls", "evdns_base_parse_hosts_line:c39_hline_rec"]]
    for hosts, what in ((0, "evdns_base_resolv_conf_parse_impl"), (1, "evdns_base_load_hosts_impl")):
        o.append(ob("file_split_%s_N%d" % ("hosts" if hosts else "resolv", F), "harness_file",
                    "%s on any %d-byte file: every newline-separated piece reaches the line routine exactly once, in order, with the caller's flags; "
                    "buffer freed; ndots untouched (excluding KF-C39-ndots-reset)" % (what, F),
                    ["C39_N=%d" % F, "C39_CUT_LINE_PARSERS", "KF_EXCLUDE_NDOTS_RESET", "C39_HOSTS=%d" % hosts, "C39_AF=1"], unwind=max(F + 4, 12), instrument=fr, timeout=900, mem_gb=6))
    o.append(ob("file_split_kf_ndots", "harness_file",
                "the same on exactly the KF-C39-ndots-reset inputs (resolv.conf without search/domain line parsed with DNS_OPTION_SEARCH, ndots != 1)",
                ["C39_N=4", "C39_CUT_LINE_PARSERS", "KF_ONLY_NDOTS_RESET", "C39_HOSTS=0", "C39_AF=1"], unwind=12, instrument=fr, timeout=900, mem_gb=6,
                expect_fail=["C39: parsing a file without search/domain lines changed ndots"], known_finding="KF-C39-ndots-reset"))
    return o

def obligations(tier):
    obs = int_obs(12) + time_obs() + opt_obs(tier) + line_obs(tier)
    if tier != "quick":
        for o in list(obs):
            if o["name"].startswith(("int_N", "timeval", "resolv_line_N", "hosts_line_N")) and "kf" not in o["name"]:
                t = dict(o); t["name"] = o["name"] + "_ndebug"; t["ndebug"] = True
                t["desc"] = o["desc"] + " [NDEBUG build]"
                obs.append(t)
    return obs
