ID = "C21"
LEVEL = "proof"
TECHNIQUE = "CBMC bounded symbolic execution of ev_token_bucket_update_/get_tick_/init_/cfg_new with full-width 64-bit levels/rates/bursts vs 128-bit reference arithmetic; tick count split into slices"
UNITS = ["bufferevent_ratelim.c", "ratelim-internal.h"]
FUNCTIONS = ["ev_token_bucket_update_", "ev_token_bucket_get_tick_", "ev_token_bucket_init_", "ev_token_bucket_cfg_new"]
BOUNDS = "levels, rates, bursts: full 64-bit range (level <= burst, deficit down to SSIZE_MIN); last_updated/current_tick full 32-bit; tick difference n in [1,7] and n in {8,16,65536} (quick); n in [1,15] and {16,256,65536,65537,2^30} (thorough); n==0 and n>INT_MAX complete"
OUT = "other tick differences (64-bit division by a symbolic n does not finish on any installed back end at full width); levels above the burst (not reachable: init/update clip, decrements lower)"
TEXT = "For every accepted configuration and every level incl. deficit the refill result equals min(burst, level + n*rate) in 128-bit mathematical arithmetic (which implies no wrap), n=0/backwards is a no-op, cfg_new accepts exactly the valid parameter set."
NOTE = "Trusted: cbmc, kissat/cadical, __int128 reference arithmetic in the harness."
ASSUMPTIONS = ["configuration is one ev_token_bucket_cfg_new accepts (that acceptance set is itself checked)", "level <= burst (state invariant established by init_ and preserved by update_)"]
DESIGN_REF = "DESIGN.md §5 C21"

def obligations(tier):
    obs = [
        dict(name="noop", harness="C21_bucket.c", entry="harness_noop", timeout=120, desc="n==0 or n>INT_MAX, everything else full width: unchanged"),
        dict(name="tick", harness="C21_bucket.c", entry="harness_tick", timeout=300, desc="tv_sec<=2^40, any msec_per_tick>=1"),
        dict(name="cfg_new", harness="C21_bucket.c", entry="harness_cfg_new", timeout=300, desc="all parameter values"),
        dict(name="init", harness="C21_bucket.c", entry="harness_init", timeout=120, desc="init/reinit for all values"),
    ]
    # measured (16 cores, loaded box): [1,3] 13 s, [4,7] 73 s, [8,15] 600 s, single n: 8 11 s, 13 69 s, 65537 67 s, 1000 >150 s (not claimed)
    slices = [(1, 3), (4, 7), (8, 8), (16, 16), (65536, 65536)] if tier == "quick" else [(1, 3), (4, 7), (8, 15), (13, 13), (16, 16), (256, 256), (65536, 65536), (65537, 65537), (1 << 30, 1 << 30)]
    for lo, hi in slices:
        obs.append(dict(name="update_n%d_%d" % (lo, hi), harness="C21_bucket.c", entry="harness_update", defines=["VP_NLO=%d" % lo, "VP_NHI=%d" % hi, "VP_READ_ONLY"],
                        solver="kissat", timeout=600 if tier == "quick" else 2400, mem_gb=6,
                        desc="refill exactness, n in [%d,%d], read bucket (write bucket executes the same code shape: see update_write)" % (lo, hi)))
    obs.append(dict(name="update_write_n1_3", harness="C21_bucket.c", entry="harness_update", defines=["VP_NLO=1", "VP_NHI=3"], solver="kissat", timeout=600, mem_gb=6,
                    desc="refill exactness for both buckets, n in [1,3]"))
    return obs
