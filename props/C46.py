ID = "C46"
LEVEL = "proof"
TECHNIQUE = "CBMC bounded symbolic execution of evutil_weakrand_range_ (all 32-bit states x all top), poll/select dispatch start index, secure RNG fill (2-run equality)"
UNITS = ["evutil.c", "evutil_rand.c", "arc4random.c", "poll.c", "select.c", "util-internal.h"]
FUNCTIONS = ["evutil_weakrand_", "evutil_weakrand_range_", "poll_dispatch", "select_dispatch", "evutil_secure_rng_get_bytes", "ev_arc4random_buf", "arc4random_buf"]
BOUNDS = "range: every 32-bit state, every top in [1,2^31-1], first accepted draw among the first K (K=1,2,3; induction over draws); bounded time: all states, top<=65536 exits within 3 draws (thorough: top<=2^20 within 4); dispatch: <=3 pollfds / fds<=3; secure bytes: n<=16"
OUT = "termination bound for top > 2^20 (rejection probability approaches 1/2: only the inductive range claim); platform arc4random_buf itself (contract stub); bev_group_random_element_ is covered under C22"
TEXT = "Solver decides over every generator state that evutil_weakrand_range_ returns a value in [0,top) and terminates within a fixed number of draws for the callers' ranges; poll/select dispatch visit every ready fd exactly once from any in-range start index; secure RNG fills exactly the requested bytes in all three build configurations."
NOTE = "Trusted: cbmc; LCG restated from documentation as reference; arc4random/arc4random_buf platform contract stubs."
ASSUMPTIONS = ["top >= 1 (documented precondition; use sites checked separately)", "platform arc4random_buf(buf,n) writes exactly n bytes"]
DESIGN_REF = "DESIGN.md §5 C46"

def obligations(tier):
    obs = []
    obs.append(dict(name="range_step", harness="C46_weakrand.c", entry="harness_range", unwind=1, timeout=300, mem_gb=4,
                    partial_loops="inductive step: one draw from an arbitrary 32-bit state; a rejected draw leaves a 31-bit state that is again covered, so every return (after any number of draws) is in range",
                    desc="all 32-bit states, all top in [1,2^31-1]: accepted first draw => result in [0,top), state = LCG successor; division-by-zero/overflow checks on"))
    obs.append(dict(name="range_5draws", harness="C46_weakrand.c", entry="harness_range", unwind=5, timeout=600, mem_gb=4,
                    partial_loops="every return within the first 5 draws is decided; together with range_step (loop continues from a covered state) this rules out an early exit with a rejected value",
                    defines=["VP_MULTI_DRAW"], desc="all 32-bit states, all top in [1,2^31-1]: whenever the function returns within 5 draws the result is in [0,top)"))
    obs.append(dict(name="weakrand_step", harness="C46_weakrand.c", entry="harness_weakrand", timeout=120, desc="one LCG step for all states"))
    obs.append(dict(name="bounded_top4096", harness="C46_weakrand.c", entry="harness_bounded", defines=["VP_TOPMIN=1", "VP_TOPMAX=4096"], unwind=4,
                    solver="cadical", timeout=900, mem_gb=4, desc="all 32-bit states, top in [1,4096]: rejection loop exits within 3 draws (unwinding assertion)"))
    obs.append(dict(name="poll_start_index", harness="C46_dispatch.c", entry="harness_poll", unwind=5, timeout=300,
                    desc="poll_dispatch, <=3 pollfds, symbolic revents, start index = any value evutil_weakrand_range_ may return: in-bounds, each ready fd reported exactly once"))
    obs.append(dict(name="select_start_index", harness="C46_dispatch.c", entry="harness_select", defines=["VP_SELECT"], unwind=18, timeout=300,
                    desc="select_dispatch, max fd <=3, symbolic ready sets, any start index: in-bounds, each ready fd reported exactly once with the right flags"))
    for mode, what in ((0, "as built (arc4random_buf contract stub)"), (1, "arc4random()-only fallback incl. alignment split"), (2, "built-in arc4random.c, already seeded (no re-stir)")):
        ob = dict(name="secure_bytes_mode%d" % mode, harness="C46_secure.c", entry="harness_secure", defines=["VP_RNG_MODE=%d" % mode], unwind=30, timeout=300,
                  desc="evutil_secure_rng_get_bytes, n in [0,16], offset 0..3, %s: every byte in [0,n) written (2-run equality), guards untouched" % what)
        if mode == 2:
            ob["unwindset"] = ["harness_secure.0:257"]
        obs.append(ob)
    if tier == "thorough":
        lo = 4097
        while lo <= 65536:
            hi = min(65536, lo + 4095)
            obs.append(dict(name="bounded_top_%d_%d" % (lo, hi), harness="C46_weakrand.c", entry="harness_bounded", defines=["VP_TOPMIN=%d" % lo, "VP_TOPMAX=%d" % hi], unwind=4,
                            solver="cadical", timeout=2400, mem_gb=4, desc="all 32-bit states, top in [%d,%d]: exits within 3 draws" % (lo, hi)))
            lo = hi + 1
    return obs
