ID = "C43"
LEVEL = "model_checking"
TECHNIQUE = ("CBMC bounded symbolic execution of evrpc.c unit steps; the HTTP layer (evhttp_request_new/free/own, evhttp_make_request, "
             "evhttp_connection_fail_, evhttp_send_error/reply, evbuffer length) is a contract stub written from include/event2/http.h, "
             "marshalling routines and hooks are harness recorders with solver-chosen verdicts; typed heap objects")
UNITS = ["evrpc.c"]
FUNCTIONS = ["evrpc_make_request", "evrpc_make_request_ctx", "evrpc_schedule_request", "evrpc_schedule_request_closure", "evrpc_reply_done",
             "evrpc_reply_done_closure", "evrpc_request_timeout", "evrpc_pause_request", "evrpc_resume_request", "evrpc_pool_schedule",
             "evrpc_request_cb", "evrpc_request_cb_closure", "evrpc_request_done", "evrpc_request_done_closure", "evrpc_reqstate_free_",
             "evrpc_process_hooks", "evrpc_add_hook", "evrpc_register_generic", "evrpc_init", "evrpc_free", "evrpc_pool_new", "evrpc_pool_free"]
BOUNDS = ("one pool, one connection, one RPC (two RPCs in the queue obligations); output and input hook each none / CONTINUE / TERMINATE / PAUSE+resume(CONTINUE|TERMINATE) "
          "(enumerated per obligation); evhttp_make_request accepts or refuses; completion by reply (solver-chosen unmarshal verdict) or by "
          "the RPC timer; server: one registered RPC, solver-chosen method, body length, request_new / unmarshal / reply_new / "
          "reply_complete verdicts")
OUT = ("marshal/unmarshal of the generated structures (C42), the real HTTP exchange (C23-C27), several queued RPCs / connections, hook meta "
       "data, allocation failure inside evrpc.c, connection failures other than the RPC timeout")
TEXT = ("The client callback of an RPC runs exactly once with the status that matches the outcome (NONE after a reply that unmarshals, "
        "BADPAYLOAD, TIMEOUT, HOOKABORTED, UNSTARTED), the reply is unmarshalled only on the success path and cleared on every failure, "
        "nothing of the RPC stays pending or allocated afterwards; a server handler runs (once) only for a POST with a body that passes "
        "the hooks and unmarshals, every other request gets exactly one 503 and every handled request exactly one reply.")
NOTE = ("Findings: KF-C43-unstarted-timer (evhttp_make_request refuses after the RPC timer was armed: the wrapper is released with the "
        "timer still pending -> evrpc_request_timeout later runs on freed memory), KF-C43-unstarted-req-leak (an output hook that "
        "terminates -- directly or after a pause -- leaves the evhttp_request made by evhttp_request_new unreleased).")
ASSUMPTIONS = ["HTTP contract of include/event2/http.h: evhttp_make_request owns the request afterwards and has freed it when it returns -1; the completion callback's request belongs to the HTTP layer unless evhttp_request_own was called",
               "allocation does not fail"]
DESIGN_REF = "DESIGN.md §5 C43"

US = ["vpe_timeout_set.0:10", "vpe_timeout_of.0:10", "vpe_strlen.0:12", "c43_strdup.0:8", "c43_strdup.1:8", "vpe_memcpy.0:12", "vpe_strcmp.0:8"]
HOOK = {0: "no hook", 1: "hook continues", 2: "hook terminates", 3: "hook pauses, resumed with CONTINUE", 4: "hook pauses, resumed with TERMINATE"}

def ob(name, entry, desc, defs, **kw):
    d = dict(name=name, harness="C43_rpc.c", entry=entry, desc=desc, defines=list(defs), unwind=6, unwindset=list(US),
             cbmc=["--memory-leak-check", "--object-bits", "10"], timeout=600, mem_gb=3)
    d.update(kw)
    return d

def client(oh, ih, fails, comp, timeout=5, **kw):
    n = "client_out%d_in%d_%s_%s%s" % (oh, ih, "refused" if fails else "accepted", "timer" if comp else "reply", "" if timeout > 0 else "_notimeout")
    return ob(n, "harness_client", "client RPC, output %s, evhttp_make_request %s, %s, input %s, pool timeout %d: callback exactly once with the matching "
              "status, reply unmarshalled/cleared accordingly, nothing pending, nothing leaked" % (HOOK[oh], "refuses" if fails else "accepts",
              "RPC timer fires" if comp else "reply arrives", HOOK[ih], timeout),
              ["C43_OUT_HOOK=%d" % oh, "C43_IN_HOOK=%d" % ih, "C43_MAKE_FAILS=%d" % fails, "C43_COMPLETION=%d" % comp, "C43_POOL_TIMEOUT=%d" % timeout], **kw)

def server(ih, oh, **kw):
    return ob("server_in%d_out%d" % (ih, oh), "harness_server", "server: evrpc_request_cb with input %s, then evrpc_request_done with output %s; solver-chosen method, "
              "body length and request_new/unmarshal/reply_new/reply_complete verdicts: handler iff well-formed, exactly one 503 otherwise, exactly one reply" % (HOOK[ih], HOOK[oh]),
              ["C43_IN_HOOK=%d" % ih, "C43_OUT_HOOK=%d" % oh], **kw)

KF_T = dict(expect_fail=["C43: RPC timer left pending on a released request"], known_finding="KF-C43-unstarted-timer")
KF_L = dict(expect_fail=["C43: HTTP request of an unstarted RPC is never released"], known_finding="KF-C43-unstarted-req-leak")

def obligations(tier):
    full = tier != "quick"
    obs = []
    for ih in (0, 1, 2, 3, 4):
        obs.append(client(0, ih, 0, 0))
    obs.append(client(0, 0, 0, 1)); obs.append(client(1, 1, 0, 1)); obs.append(client(1, 0, 0, 0)); obs.append(client(3, 0, 0, 0))
    obs.append(client(0, 0, 1, 0, timeout=0))                 # refused, no pool timeout: fine
    obs.append(client(0, 0, 1, 0, **KF_T))                    # refused after the timer was armed
    obs.append(client(2, 0, 0, 0, **KF_L)); obs.append(client(4, 0, 0, 0, **KF_L))
    for comp in (1, 0):
        obs.append(ob("client_queue_%s" % ("timer" if comp else "reply"), "harness_client_queue",
                      "two RPCs on a pool with one connection: the second waits in the pool; when the first ends by %s the queued one is started (marshalled, "
                      "handed to the HTTP layer, timer armed) and completes: each callback exactly once, nothing pending, nothing leaked"
                      % ("its timer (completion without a request object)" if comp else "a reply"),
                      ["C43_COMPLETION=%d" % comp, "C43_POOL_TIMEOUT=5", "C43_OUT_HOOK=0", "C43_IN_HOOK=0"]))
    for ih, oh in ((0, 0), (1, 1), (2, 0), (3, 0), (4, 0), (0, 2), (0, 3), (0, 4)):
        obs.append(server(ih, oh))
    if full:
        obs.append(client(3, 3, 0, 0)); obs.append(client(1, 4, 0, 0)); obs.append(client(3, 0, 0, 1)); obs.append(client(3, 0, 1, 0, **KF_T)); obs.append(client(1, 0, 1, 0, timeout=-1))
        for ih, oh in ((1, 4), (4, 3)): obs.append(server(ih, oh))
        for o in list(obs):
            if o["name"] in ("client_out0_in0_accepted_reply",):
                t = dict(o); t["name"] += "_ndebug"; t["ndebug"] = True; t["desc"] += " [NDEBUG build]"; obs.append(t)
    return obs
