ID = "C24"
LEVEL = "model_checking"
TECHNIQUE = "CBMC bounded symbolic execution of http.c response parsing leafs vs RFC 9112 reference recognisers (compositional)"
UNITS = ["http.c", "http-internal.h", "evutil.c"]
FUNCTIONS = ["evhttp_parse_firstline_", "evhttp_parse_response_line", "evhttp_parse_http_version", "evhttp_valid_response_code",
             "evhttp_response_needs_body", "evhttp_get_body", "evhttp_get_body_length", "evhttp_find_header"]
BOUNDS = "work in progress"
OUT = "work in progress"
TEXT = "work in progress"
NOTE = ""
ASSUMPTIONS = []
DESIGN_REF = "DESIGN.md §5 C24"

def obligations(tier):
    n = 16 if tier == "quick" else 20
    obs = [dict(name="statusline", harness="C24_statusline.c", entry="harness_statusline", defines=["VP_N=%d" % n], unwind=n + 3,
                timeout=600, mem_gb=6, desc="status line <= %d symbolic bytes (NUL included) vs RFC 9112 4 reference" % n)]
    K = {"CL": 1, "TE": 2, "cl": 3, "te": 4, "CO": 5, "XY": 6}
    CUT = [["--replace-calls", "evhttp_connection_done:vp_cut_connection_done"], ["--replace-calls", "evhttp_connection_fail_:vp_cut_connection_fail"],
           ["--replace-calls", "evhttp_read_body:vp_cut_read_body"], ["--replace-calls", "evhttp_send_error:vp_cut_send_error"],
           ["--replace-calls", "evhttp_lingering_fail:vp_cut_lingering_fail"], ["--replace-calls", "evhttp_send_continue:vp_cut_send_continue"],
           ["--replace-calls", "evhttp_start_write_:vp_cut_start_write"]]
    shapes = [[], ["CL"], ["TE"], ["CO"], ["CL", "cl"], ["TE", "CL"], ["TE", "te"], ["CO", "CL"]]
    if tier != "quick":
        shapes += [["CL", "TE"], ["TE", "CO"], ["CO", "TE"], ["CL", "CL", "CL"], ["TE", "CL", "CL"], ["XY", "CL", "TE"], ["CO", "XY", "CL"]]
    for sh in shapes:
        ks = [K[x] for x in sh] + [0, 0, 0]
        ncl = sum(1 for x in sh if x in ("CL", "cl"))
        v = (8 if ncl < 2 else 5) if tier == "quick" else (10 if ncl < 2 else 6)
        obs.append(dict(name="framing_" + ("_".join(sh) or "none"), harness="C24_framing.c", entry="harness_framing",
                    defines=["VP_V=%d" % v, "VP_K0=%d" % ks[0], "VP_K1=%d" % ks[1], "VP_K2=%d" % ks[2], "KF_EXCLUDE_KEEPALIVE_NOLEN"],
                    unwind=max(v + 3, 20), instrument=CUT, timeout=600 if tier == "quick" else 2400, mem_gb=6, native=False,
                    desc="response framing for header fields [%s], values <=%d symbolic bytes, symbolic status code and request method" % (", ".join(sh), v)))
    obs.append(dict(name="kf_keepalive_nolen", harness="C24_framing.c", entry="harness_framing",
                defines=["VP_V=8", "VP_K0=5", "VP_K1=0", "VP_K2=0", "KF_ONLY_KEEPALIVE_NOLEN"], unwind=20, instrument=CUT, timeout=600, mem_gb=6, native=False,
                expect_fail=["response taken as complete without body", "body length is not the"], known_finding="KF-C24-keepalive-no-length",
                desc="known finding: no length, Connection not close -> body taken as empty"))
    return obs
