ID = "C24"
LEVEL = "model_checking"
TECHNIQUE = "CBMC bounded symbolic execution of http.c response parsing leafs vs RFC 9112 reference recognisers (compositional)"
UNITS = ["http.c", "http-internal.h", "evutil.c"]
FUNCTIONS = ["evhttp_parse_firstline_", "evhttp_parse_response_line", "evhttp_parse_http_version", "evhttp_valid_response_code",
             "evhttp_response_needs_body", "evhttp_get_body", "evhttp_get_body_length", "evhttp_find_header", "evhttp_error_cb", "evhttp_connection_done", "evhttp_connection_fail_"]
BOUNDS = 'status line <=16 symbolic bytes (thorough 20, NUL included); response framing: 8 (thorough 15) enumerated shapes of <=2 (3) header fields with symbolic values <=8 (10) bytes, status code in {200,204,304,404,407,101,299,500}, request method in {GET,HEAD,CONNECT,POST}; segmentation of the status line: C23 obligation segment_firstline (response kind)'
OUT = 'connection reuse and leftover bytes across responses (unit step only; body byte accounting is C25 body_cl: bytes behind the body stay in the input buffer); 100-continue restart; peer close at any byte of a whole exchange (unit step only: obligation eof_in_body); header section parsing is shared with the server side (C23 headers)'
TEXT = 'Client-side leafs of http.c on symbolic input against RFC 9112 reference recognisers: status line (version, 3DIGIT code, reason phrase) through evhttp_parse_firstline_/evhttp_parse_response_line; body framing decision through the real evhttp_read_header -> evhttp_response_needs_body -> evhttp_get_body (HEAD/1xx/204/304/2xx-CONNECT without body, Transfer-Encoding, Content-Length, close-delimited).'
NOTE = 'Trusted as for C23. One open known finding (KF-C24-keepalive-no-length: no length + Connection not close => body taken as empty, deliberate heuristic). 3 defects with fix proposals (fixes/C24-*.diff).'
ASSUMPTIONS = ['evbuffer_readln contract model env/http_lines.h', 'field values arrive OWS-trimmed, free of CR/LF/NUL (C23 obligation headers)', 'continuations of evhttp_read_header/evhttp_get_body are recorders (evhttp_connection_done, evhttp_connection_fail_, evhttp_read_body, evhttp_start_write_, ...)']
DESIGN_REF = "DESIGN.md §5 C24"

def _with_token_set(obs):
    # evhttp_add_header checks names against the 77-character token alphabet (strspn): the membership loop of the
    # strspn/strpbrk model needs up to 78 rounds on that constant set
    for o in obs:
        us = list(o.get("unwindset", []))
        if not any(u.startswith("vp_in_set.0:") for u in us):
            us.append("vp_in_set.0:80")
        o["unwindset"] = us
    return obs

def obligations(tier):
    return _with_token_set(_obligations(tier))

def _obligations(tier):
    n = 16 if tier == "quick" else 20
    obs = [dict(name="statusline", harness="C24_statusline.c", entry="harness_statusline", defines=["VP_N=%d" % n], unwind=n + 3,
                timeout=600, mem_gb=6, desc="status line <= %d symbolic bytes (NUL included) vs RFC 9112 4 reference" % n)]
    K = {"CL": 1, "TE": 2, "cl": 3, "te": 4, "CO": 5, "XY": 6}
    CUT = [["--replace-calls", "evhttp_connection_done:vp_cut_connection_done"], ["--replace-calls", "evhttp_connection_fail_:vp_cut_connection_fail"],
           ["--replace-calls", "evhttp_read_body:vp_cut_read_body"], ["--replace-calls", "evhttp_send_error:vp_cut_send_error"],
           ["--replace-calls", "evhttp_lingering_fail:vp_cut_lingering_fail"], ["--replace-calls", "evhttp_send_continue:vp_cut_send_continue"],
           ["--replace-calls", "evhttp_start_write_:vp_cut_start_write"]]
    shapes = [[], ["CL"], ["TE"], ["CO"], ["CL", "cl"], ["TE", "CL"], ["TE", "te"], ["CO", "CL"]]
    if tier != "quick":
        shapes += [["CL", "TE"], ["TE", "CO"], ["CO", "TE"], ["CL", "CL", "CL"], ["TE", "CL", "CL"], ["XY", "CL", "TE"], ["CO", "XY", "CL"]]
    for sh in shapes:
        ks = [K[x] for x in sh] + [0, 0, 0]
        ncl = sum(1 for x in sh if x in ("CL", "cl"))
        v = (8 if ncl < 2 else 5) if tier == "quick" else (10 if ncl < 2 else 6)
        if ncl >= 2 and any(x in ("TE", "te") for x in sh):
            v = 7  # "chunked" must be expressible
        obs.append(dict(name="framing_" + ("_".join(sh) or "none"), harness="C24_framing.c", entry="harness_framing",
                    defines=["VP_V=%d" % v, "VP_K0=%d" % ks[0], "VP_K1=%d" % ks[1], "VP_K2=%d" % ks[2], "KF_EXCLUDE_KEEPALIVE_NOLEN"],
                    unwind=max(v + 3, 20), instrument=CUT, timeout=600 if tier == "quick" else 2400, mem_gb=6, native=False,
                    desc="response framing for header fields [%s], values <=%d symbolic bytes, symbolic status code and request method" % (", ".join(sh), v)))
    obs.append(dict(name="kf_keepalive_nolen", harness="C24_framing.c", entry="harness_framing",
                defines=["VP_V=8", "VP_K0=5", "VP_K1=0", "VP_K2=0", "KF_ONLY_KEEPALIVE_NOLEN"], unwind=20, instrument=CUT, timeout=600, mem_gb=6, native=False,
                expect_fail=["response taken as complete without body", "body length is not the"], known_finding="KF-C24-keepalive-no-length",
                desc="known finding: no length, Connection not close -> body taken as empty"))
    # peer close while a response body is being read: only a close-delimited body may complete, a chunked or
    # Content-Length body cut short must fail (same unit step as C27 step_error_cb, harness C27_lifecycle.c)
    import importlib.util, os
    sp = importlib.util.spec_from_file_location("prop_C27_for_C24", os.path.join(os.path.dirname(os.path.abspath(__file__)), "C27.py"))
    m27 = importlib.util.module_from_spec(sp); sp.loader.exec_module(m27)
    for o in m27.obligations(tier):
        if o["name"] == "step_error_cb":
            o = dict(o); o["name"] = "eof_in_body"
            o["desc"] = "evhttp_error_cb with symbolic event mask in every state: EOF completes a response only when its body is close-delimited (not chunked, no Content-Length pending)"
            obs.append(o)
    return obs
