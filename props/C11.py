ID = "C11"
LEVEL = "model_checking"
TECHNIQUE = "CBMC bounded symbolic execution of event_reinit (event.c) + evmap_reinit_ + epoll.c + signal.c on the child's side of a fork, against a two-instance epoll model with shared open file descriptions"
UNITS = ["event.c", "evmap.c", "epoll.c", "signal.c", "signalfd.c"]
FUNCTIONS = ["event_reinit", "evmap_reinit_", "evmap_io_reinit_iter_fn", "evmap_signal_reinit_iter_fn", "epoll_init", "epoll_dealloc", "evsig_init_", "evsig_dealloc_",
             "evsig_add", "evsig_set_handler_", "evthread_make_base_notifiable_nolock_", "event_changelist_freemem_"]
BOUNDS = ""
OUT = ""
TEXT = ""
NOTE = ""
ASSUMPTIONS = []
DESIGN_REF = "DESIGN.md §5 C11"

USET = (["evsig_cb.%d:66" % i for i in range(7)] + ["evsig_dealloc_.%d:66" % i for i in range(3)] +
        ["evmap_io_active_.0:3", "evmap_signal_active_.0:3", "event_base_loop.16:4", "event_signal_closure.6:3", "read.0:5",
         "evmap_signal_foreach_signal.0:34", "evmap_io_foreach_fd.0:34", "evmap_signal_clear_.0:34", "event_process_active_single_queue.21:6",
         "epoll_apply_changes.0:5", "event_changelist_remove_all_.1:5"])

def ob(name, extra=(), **kw):
    d = dict(name=name, harness="C11_reinit.c", entry="harness_reinit", defines=list(extra),
             unwind=13, unwindset=USET, cbmc=["--max-field-sensitivity-array-size", "1100"], timeout=900, mem_gb=8, desc=" ".join(extra))
    d.update(kw)
    return d

def obligations(tier):
    return [ob("epoll_all_added", ["VP_ADDED=7"])]
