ID = "C11"
LEVEL = "model_checking"
TECHNIQUE = ("CBMC bounded symbolic execution of the child's side of fork + event_reinit: real event.c (event_reinit, event_add/del, loop), evmap.c (evmap_reinit_), "
             "epoll.c (direct and changelist), signal.c, signalfd.c against a kernel model with two epoll instances and open file descriptions shared with the parent "
             "(env/kernel_io.h vp_k_fork) plus the signal model of C07")
UNITS = ["event.c", "evmap.c", "epoll.c", "signal.c", "signalfd.c"]
FUNCTIONS = ["event_reinit", "evmap_reinit_", "evmap_io_reinit_iter_fn", "evmap_signal_reinit_iter_fn", "epoll_init", "epoll_dealloc", "epoll_nochangelist_add",
             "event_changelist_add_", "event_changelist_freemem_", "evsig_init_", "evsig_dealloc_", "evsig_add", "evsig_set_handler_", "evsig_restore_handler_",
             "sigfd_add", "sigfd_free_sigevent", "evthread_make_base_notifiable_nolock_", "event_del_nolock_", "event_add_nolock_", "epoll_dispatch", "evsig_cb", "sigfd_cb"]
BOUNDS = ("base with 2 I/O events (fd A, fd B; interest masks and EV_ET fixed per obligation from a small set) and 1 signal event, every subset added before the fork; "
          "epoll direct and epoll+changelist; self-pipe and signalfd signal mechanisms; with and without a wake-up (notify) descriptor; the parent has been through one "
          "wait before the fork; after event_reinit the child raises the signal, fd A becomes ready and one loop iteration runs, then the signal event is deleted")
OUT = ("behaviour of two real processes and of the parent after the fork (the parent side is represented by its epoll interest list and descriptor table, which must stay "
       "untouched); events that are active or being deleted at fork time; timers across reinit (C01 owns timer semantics); poll/select/kqueue back ends' reinit; "
       "event_reinit failure paths (epoll_create / pipe failing); symbolic interest masks (fixed per obligation - the symbolic-mask interest-set predicate is C05's)")
TEXT = ("After fork + event_reinit in the child: the child owns a new epoll instance, no epoll_ctl ever names the parent's (shared) instance and the parent's interest list is "
        "unchanged; every I/O event added before the fork is registered with the new instance with exactly its conditions (C05 predicate at the child's waits); signal "
        "handlers/signalfds are set up again on descriptors the child does not share with the parent, the child's copies of the parent's signal pipe and wake-up "
        "descriptor are closed, the events' added state is unchanged; a signal raised in the child and a ready fd make the pre-fork events fire in the child; deleting "
        "the signal event restores the disposition from before the first add; no descriptor number is closed twice.")
NOTE = ("Trusted: cbmc; env/kernel_io.h (incl. fork semantics: shared open file descriptions keep their epoll registrations when the child closes its descriptor), "
        "env/sigmodel.h, env/evbase.h, env/event_struct_nounion.h (unions of event_struct.h compiled as structs), typed allocation stand-ins. "
        "DESIGN.md candidate 'signal pair closed in event_reinit and again in evsig_dealloc_': CONFIRMED (fixes/C11-reinit-double-close.*).")
ASSUMPTIONS = [
    "kernel behaves per env/kernel_io.h + env/sigmodel.h; after fork every open file description is shared with the parent, descriptor numbers are handed out lowest-free-first",
    "the forked child is single-threaded and calls event_reinit before anything else touches the base",
    "allocation and descriptor-creating calls succeed",
    "struct event / struct event_callback unions laid out as structs (env/event_struct_nounion.h)",
]
DESIGN_REF = "DESIGN.md §5 C11, §7"

USET = (["evsig_cb.%d:66" % i for i in range(7)] + ["evsig_dealloc_.%d:66" % i for i in range(3)] +
        ["evmap_io_active_.0:3", "evmap_signal_active_.0:3", "event_base_loop.16:4", "event_signal_closure.6:3", "read.0:5",
         "evmap_signal_foreach_signal.0:34", "evmap_io_foreach_fd.0:34", "evmap_signal_clear_.0:34", "event_process_active_single_queue.21:6",
         "epoll_apply_changes.0:6", "event_changelist_remove_all_.1:6", "vp_realloc_signal.0:66"])

R, W, C = 2, 4, 0x80

def ob(name, added, m0=R | C, m1=R | W, et0=0, et1=1, extra=(), **kw):
    defs = ["VP_ADDED=%d" % added, "VP_MASK0=%d" % m0, "VP_MASK1=%d" % m1, "VP_ET0=%d" % et0, "VP_ET1=%d" % et1] + list(extra)
    d = dict(name=name, harness="C11_reinit.c", entry="harness_reinit", defines=defs,
             unwind=13, unwindset=USET, cbmc=["--max-field-sensitivity-array-size", "1100"], timeout=900, mem_gb=8,
             desc="child side of fork+event_reinit: added=%d (bit0 ev A, bit1 ev B, bit2 signal) masks %#x/%#x ET %d/%d %s" % (added, m0, m1, et0, et1, " ".join(extra)))
    d.update(kw)
    return d

def obligations(tier):
    kf = []   # (the confirmed double close of the signal pair was fixed in /repo 991d6c8: the assertion is part of every obligation)
    obs = []
    for added in (7, 3, 4, 5, 1, 0):
        obs.append(ob("epoll_added%d" % added, added, extra=kf))
    obs.append(ob("epoll_masks_w_rwc", 7, m0=W, m1=R | W | C, et0=1, et1=0, extra=kf))
    obs.append(ob("epoll_masks_r_c", 7, m0=R, m1=C, et0=0, et1=0, extra=kf))
    for added in (7, 3, 4):
        obs.append(ob("epollcl_added%d" % added, added, extra=kf + ["VP_CHANGELIST"]))
        obs.append(ob("sigfd_added%d" % added, added, extra=kf + ["VP_SIGFD"]))
    obs.append(ob("notify_added7", 7, extra=kf + ["VP_NOTIFY"]))
    obs.append(ob("notify_locked_added5", 5, extra=kf + ["VP_NOTIFY", "VP_LOCKS_ON", "VP_WITH_LOCK"]))
    if tier == "thorough":
        obs.append(ob("epoll_added7_ndebug", 7, extra=kf, ndebug=True))
        obs.append(ob("sigfd_added7_ndebug", 7, extra=kf + ["VP_SIGFD"], ndebug=True))
        obs.append(ob("epollcl_notify_added7", 7, extra=kf + ["VP_CHANGELIST", "VP_NOTIFY"]))
        for m0, m1 in ((R | W, R), (C, W), (R | W | C, R | W | C)):
            obs.append(ob("epoll_masks_%x_%x" % (m0, m1), 7, m0=m0, m1=m1, et0=1, et1=1, extra=kf))
    return obs
