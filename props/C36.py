ID = "C36"
LEVEL = "model_checking"
TECHNIQUE = "CBMC bounded symbolic execution of evdns.c query construction, output decoded by the RFC 1035 reference decoder ref/dns_ref.h"
UNITS = ["evdns.c"]
FUNCTIONS = ["evdns_request_data_build", "dnsname_to_labels", "evdns_request_len", "request_new"]
BOUNDS = ("evdns_request_data_build: every name of <= 6 (quick) / 8 (thorough) arbitrary octets, symbolic id/type/class/global_max_udp_size, exact-size buffer of "
          "evdns_request_len() bytes; one label of symbolic length 0..64 + optional trailing dot (thorough); request_new (thorough tier only): names <= 3 octets, symbolic "
          "randomize_case + random bits + EDNS + issue-now on a constructed evdns_base (one request list, no nameserver).")
OUT = ("search-list expansion order (search_request_new/search_make_new/search_try_next); names longer than 8 octets except the single-label 63/64 case: the "
       "253/254/255-octet name limit could not be decided (any harness with a ~260-byte name exceeds 12 GB; by reading, dnsname_to_labels accepts name_len <= 255 "
       "although the wire form is name_len+2, i.e. 254/255-octet names are sent with 256/257-octet wire names); transmission (evdns_request_transmit_to); "
       "request_new's allocation uses one literal-size typed object (exactness of the query bytes is decided by the build_* obligations).")
TEXT = ("The bytes produced by evdns_request_data_build / request_new are decoded by the RFC 1035/6891 reference decoder: header (id, RD only, QDCOUNT 1, AN/NS 0, "
        "ARCOUNT 1 iff EDNS), one question whose name equals the requested name (modulo one trailing dot; modulo ASCII case under 0x20), type, class, OPT record iff "
        "configured with the configured payload size, no trailing bytes, nothing written outside the buffer; names that cannot be encoded (empty label, label > 63) "
        "must be refused and encodable ones accepted.")
NOTE = ("Trusted: cbmc 6.11, ref/dns_ref.h, recorders in env/dns_env.h (event_assign, secure RNG = solver input with 'a transaction id other than 0xffff is "
        "eventually drawn'). Finding C36-empty-label (fixes/): leading/consecutive dots and the name \".\" are transmitted malformed; build_all_* and "
        "request_new_all_* fail without the patch and pass with it, build_wf_*/request_new_wf_* decide the rest with unencodable names excluded.")
ASSUMPTIONS = ["the secure RNG eventually returns a transaction id other than 0xffff (modelled: at the first draw)",
               "no allocation failure in request_new", "evdns_base has no nameserver and nothing inflight (nameserver_pick returns NULL)"]
DESIGN_REF = "DESIGN.md §5 C36"

def build(name, N, wf, **kw):
    d = dict(name=name, harness="C36_query_build.c", entry="harness_build",
             defines=["C36_N=%d" % N, "C36_TAIL"] + (["C36_ONLY_WELLFORMED"] if wf else []),
             unwind=N + 4, timeout=600, mem_gb=6,
             desc="evdns_request_data_build on every %sname of <= %d arbitrary bytes, symbolic id/type/class/max_udp_size, exact-size buffer: well-formed query for that name%s"
                  % ("encodable " if wf else "", N, "" if wf else "; unencodable names refused"))
    d.update(kw); return d

def longn(name, full, last, wf=False, **kw):
    N = 64 * full + 66
    d = dict(name=name, harness="C36_query_build.c", entry="harness_long",
             defines=["C36_N=%d" % N, "C36_FULL=%d" % full, "C36_STEPS=%d" % (full + 4)] + (["C36_LAST=%d" % last] if last is not None else []) + (["C36_ONLY_WELLFORMED"] if wf else []),
             unwind=2, unwindset=["c36_check_query.0:%d" % (N + 2), "dnsref_name_encodable.0:%d" % (N + 2), "harness_long.0:%d" % (N + 3), "c36_run.0:%d" % (N + 120), "c36_run.1:%d" % (N + 120),
                                  "dnsname_to_labels.1:%d" % (full + 3), "strchr.0:67", "vp_memcpy.0:66", "dnsref_name.0:66", "dnsref_name.1:%d" % (full + 6)],
             timeout=600, mem_gb=6,
             desc="evdns_request_data_build on %d labels of 63 bytes + a last label of symbolic length 0..64 + optional trailing dot (label limit 63/64%s)"
                  % (full, ", name limit wire 255" if full >= 3 else ""))
    d.update(kw); return d

def reqnew(name, N, wf, **kw):
    d = dict(name=name, harness="C36_query_build.c", entry="harness_request_new", sources=["evutil.c", "strlcpy.c"],
             defines=["C36_N=%d" % N, "C36_LITERAL_ALLOC"] + (["C36_ONLY_WELLFORMED"] if wf else []), unwind=N + 4, timeout=900, mem_gb=10,
             desc="request_new on a constructed evdns_base, every %sname <= %d bytes, symbolic randomize_case/random bits/EDNS/issue-now: query == requested name ignoring case, id, type, class IN" % ("encodable " if wf else "", N))
    d.update(kw); return d

def lbl(n, mid, **kw):
    d = dict(name="label%d_%s" % (n, "mid" if mid else "final"), harness="C36_query_build.c", entry="harness_label_limit",
             defines=["C36_LBL=%d" % n, "C36_MID=%d" % mid], unwind=70, unwindset=["dnsname_to_labels.1:4"], timeout=600, mem_gb=4,
             desc="dnsname_to_labels on a %s label of exactly %d symbolic non-dot octets: %s" % ("non-final" if mid else "final", n, "encoded and decodes back" if n <= 63 else "refused with -1"))
    d.update(kw); return d
LBL = [lbl(63, 0), lbl(64, 0), lbl(63, 1), lbl(64, 1)]

def obligations(tier):
    if tier == "quick":
        return [build("build_wf_N6", 6, True), build("build_all_N6", 6, False)] + LBL
    # request_new: 7M variables / 7.5 GB / 6-11 min under load -> thorough tier only
    return [build("build_wf_N8", 8, True, timeout=1200), build("build_all_N8", 8, False, timeout=1200),
            reqnew("request_new_wf_N3", 3, True, timeout=2400, mem_gb=12), reqnew("request_new_all_N3", 3, False, timeout=2400, mem_gb=12),
            longn("long_f0", 0, None, mem_gb=12, timeout=2400)] + LBL
