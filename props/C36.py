ID = "C36"
LEVEL = "model_checking"
TECHNIQUE = "CBMC bounded symbolic execution of evdns.c query construction, output decoded by the RFC 1035 reference decoder ref/dns_ref.h"
UNITS = ["evdns.c"]
FUNCTIONS = ["evdns_request_data_build", "dnsname_to_labels", "evdns_request_len", "request_new"]
BOUNDS = ""
OUT = ""
TEXT = ""
NOTE = ""
ASSUMPTIONS = []
DESIGN_REF = "DESIGN.md §5 C36"

def build(name, N, wf, **kw):
    d = dict(name=name, harness="C36_query_build.c", entry="harness_build",
             defines=["C36_N=%d" % N, "C36_TAIL"] + (["C36_ONLY_WELLFORMED"] if wf else []),
             unwind=N + 4, timeout=600, mem_gb=6,
             desc="evdns_request_data_build on every %sname of <= %d arbitrary bytes, symbolic id/type/class/max_udp_size, exact-size buffer: well-formed query for that name%s"
                  % ("encodable " if wf else "", N, "" if wf else "; unencodable names refused"))
    d.update(kw); return d

def longn(name, full, last, wf=False, **kw):
    N = 64 * full + 66
    d = dict(name=name, harness="C36_query_build.c", entry="harness_long",
             defines=["C36_N=%d" % N, "C36_FULL=%d" % full, "C36_STEPS=%d" % (full + 4)] + (["C36_LAST=%d" % last] if last is not None else []) + (["C36_ONLY_WELLFORMED"] if wf else []),
             unwind=2, unwindset=["c36_check_query.0:%d" % (N + 2), "dnsref_name_encodable.0:%d" % (N + 2), "harness_long.0:%d" % (N + 3), "c36_run.0:%d" % (N + 120), "c36_run.1:%d" % (N + 120),
                                  "dnsname_to_labels.1:%d" % (full + 3), "strchr.0:67", "vp_memcpy.0:66", "dnsref_name.0:66", "dnsref_name.1:%d" % (full + 6)],
             timeout=600, mem_gb=6,
             desc="evdns_request_data_build on %d labels of 63 bytes + a last label of symbolic length 0..64 + optional trailing dot (label limit 63/64%s)"
                  % (full, ", name limit wire 255" if full >= 3 else ""))
    d.update(kw); return d

def reqnew(name, N, wf, **kw):
    d = dict(name=name, harness="C36_query_build.c", entry="harness_request_new", sources=["evutil.c", "strlcpy.c"],
             defines=["C36_N=%d" % N, "C36_LITERAL_ALLOC"] + (["C36_ONLY_WELLFORMED"] if wf else []), unwind=N + 4, timeout=600, mem_gb=6,
             desc="request_new on a constructed evdns_base, every %sname <= %d bytes, symbolic randomize_case/random bits/EDNS/issue-now: query == requested name ignoring case, id, type, class IN" % ("encodable " if wf else "", N))
    d.update(kw); return d

def obligations(tier):
    if tier == "quick":
        obs = [build("build_wf_N6", 6, True), build("build_all_N6", 6, False), reqnew("request_new_wf_N3", 3, True)]
    else:
        obs = [build("build_wf_N8", 8, True), build("build_all_N8", 8, False),
               reqnew("request_new_wf_N4", 4, True, timeout=1200), reqnew("request_new_all_N3", 3, False),
               longn("long_f0", 0, None, mem_gb=10, timeout=1500)]
    return obs
