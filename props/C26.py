ID = "C26"
LEVEL = "model_checking"
TECHNIQUE = "CBMC bounded symbolic execution of http.c serialisers into a flat sink evbuffer; output parsed back by an RFC 9112 reference recipient"
UNITS = ["http.c", "http-internal.h", "evutil.c"]
FUNCTIONS = ["evhttp_make_header", "evhttp_make_header_request", "evhttp_make_header_response", "evhttp_add_header",
             "evhttp_header_is_valid_value", "evhttp_add_header_internal", "evhttp_response_code_", "evhttp_make_request",
             "evhttp_maybe_add_date_header", "evhttp_maybe_add_content_length_header", "evhttp_send_reply_chunk_with_cb", "evhttp_send_reply_end"]
BOUNDS = "one caller header (name <=4, value <=6 symbolic bytes), reason phrase / target <=4 symbolic bytes, status 100..599, body 0..2 bytes; HTTP/1.0 and 1.1"
OUT = "work in progress"
TEXT = "work in progress"
NOTE = ""
ASSUMPTIONS = []
DESIGN_REF = "DESIGN.md §5 C26"

def obligations(tier):
    obs = []
    # (a) exact bytes written, concrete layout, symbolic caller bytes
    if tier == "quick":
        resp = [(0, 200, 2, 3, 2, 0), (1, 200, 2, 3, 2, 2), (1, 204, 1, 0, 0, 0), (1, 404, 4, 6, 4, 1)]
        reqs = [(1, 0, 2, 3, 2, 0), (1, 1, 1, 0, 1, 2), (0, 2, 4, 6, 4, 0), (1, 3, 2, 2, 3, 0)]
    else:
        resp = [(mi, c, k, v, r, b) for mi in (0, 1) for c in (200, 204, 304, 100, 599) for (k, v, r) in ((1, 0, 0), (2, 3, 2), (4, 6, 4)) for b in (0, 1, 2)]
        reqs = [(mi, m, k, v, r, b) for mi in (0, 1) for m in range(6) for (k, v, r) in ((1, 0, 1), (2, 3, 2), (4, 6, 4)) for b in (0, 2)]
    for (mi, c, k, v, r, b) in resp:
        obs.append(dict(name="head_response_1%d_c%d_k%dv%dr%db%d" % (mi, c, k, v, r, b), harness="C26_head.c", entry="harness_head",
                    defines=["VP_RESPONSE", "VP_MINOR=%d" % mi, "VP_CODE=%d" % c, "VP_K=%d" % k, "VP_V=%d" % v, "VP_R=%d" % r, "VP_B=%d" % b],
                    unwind=34, unwindset=["harness_head.0:97"], timeout=600, mem_gb=4,
                    desc="response head HTTP/1.%d code %d: bytes written == format(caller's strings: name %d, value %d, reason %d symbolic bytes; body %d)" % (mi, c, k, v, r, b)))
    for (mi, m, k, v, r, b) in reqs:
        obs.append(dict(name="head_request_1%d_m%d_k%dv%dr%db%d" % (mi, m, k, v, r, b), harness="C26_head.c", entry="harness_head",
                    defines=["VP_REQUEST", "VP_MINOR=%d" % mi, "VP_METHOD=%d" % m, "VP_K=%d" % k, "VP_V=%d" % v, "VP_R=%d" % r, "VP_B=%d" % b],
                    unwind=34, unwindset=["harness_head.0:97"], timeout=600, mem_gb=4,
                    desc="request head HTTP/1.%d method #%d: bytes written == format(caller's strings: name %d, value %d, target %d symbolic bytes; body %d)" % (mi, m, k, v, r, b)))
    # (b) acceptance
    K, V = (4, 6) if tier == "quick" else (5, 8)
    for what in ("HEADER", "REASON", "TARGET"):
        obs.append(dict(name="accept_" + what.lower(), harness="C26_accept.c", entry="harness_accept",
                    defines=["VP_ACC_" + what, "VP_K=%d" % K, "VP_V=%d" % V], unwind=max(V + 3, 12),
                    unwindset=["vp_in_set.0:80", "strlen.0:34", "event_mm_strdup_.0:34"], timeout=600, mem_gb=4,
                    desc="%s accepted by the API is safe to embed, stored unchanged; ordinary strings not refused (name<=%d, value/phrase/target<=%d symbolic bytes)" % (what.lower(), K, V)))
    # (c) format lemma (reference only)
    for what in ("FIELD", "STATUS", "REQUEST"):
        obs.append(dict(name="lemma_" + what.lower(), harness="C26_lemma.c", entry="harness_lemma",
                    defines=["VP_LEM_" + what, "VP_K=3", "VP_V=%d" % V], unwind=V + 3 + 36, timeout=900, mem_gb=6,
                    desc="format lemma: head built from safe components parses back to exactly them (reference recipient, lenient and CRLF-only)"))
    return obs
