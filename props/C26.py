ID = "C26"
LEVEL = "model_checking"
TECHNIQUE = "CBMC bounded symbolic execution of http.c serialisers into a flat sink evbuffer; output parsed back by an RFC 9112 reference recipient"
UNITS = ["http.c", "http-internal.h", "evutil.c"]
FUNCTIONS = ["evhttp_make_header", "evhttp_make_header_request", "evhttp_make_header_response", "evhttp_add_header",
             "evhttp_header_is_valid_value", "evhttp_add_header_internal", "evhttp_response_code_", "evhttp_make_request",
             "evhttp_maybe_add_date_header", "evhttp_maybe_add_content_length_header", "evhttp_send_reply_chunk_with_cb", "evhttp_send_reply_end"]
BOUNDS = "one caller header (name <=4, value <=6 symbolic bytes), reason phrase / target <=4 symbolic bytes, status 100..599, body 0..2 bytes; HTTP/1.0 and 1.1"
OUT = "work in progress"
TEXT = "work in progress"
NOTE = ""
ASSUMPTIONS = []
DESIGN_REF = "DESIGN.md §5 C26"

def obligations(tier):
    obs = []
    # (a) sequence of writes == format(components)
    Kh, Vh = (4, 6) if tier == "quick" else (4, 8)
    for kind in ("RESPONSE", "REQUEST"):
        obs.append(dict(name="head_" + kind.lower(), harness="C26_head.c", entry="harness_head",
                    defines=["VP_" + kind, "VP_K=%d" % Kh, "VP_V=%d" % Vh], unwind=24, unwindset=["vp_in_set.0:80"], timeout=900, mem_gb=6,
                    desc="%s head: writes == start line, caller's header (name<=%d, value<=%d symbolic bytes), automatic headers, CRLF, body (symbolic code/version/method/body length)" % (kind.lower(), Kh, Vh)))
    # (b) acceptance
    K, V = (4, 6) if tier == "quick" else (5, 8)
    for what in ("HEADER", "REASON", "TARGET"):
        obs.append(dict(name="accept_" + what.lower(), harness="C26_accept.c", entry="harness_accept",
                    defines=["VP_ACC_" + what, "VP_K=%d" % K, "VP_V=%d" % V], unwind=max(V + 3, 12),
                    unwindset=["vp_in_set.0:80", "strlen.0:34", "event_mm_strdup_.0:34"], timeout=600, mem_gb=4,
                    desc="%s accepted by the API is safe to embed, stored unchanged; ordinary strings not refused (name<=%d, value/phrase/target<=%d symbolic bytes)" % (what.lower(), K, V)))
    # (d) chunked replies
    for mi in (1, 0):
        obs.append(dict(name="chunk_reply_1%d" % mi, harness="C26_chunk.c", entry="harness_chunk", defines=["VP_MINOR=%d" % mi], unwind=24, unwindset=["vp_in_set.0:80"],
                    instrument=[["--replace-calls", "evhttp_send_done:vp_cut_send_done"]], native=False, timeout=600, mem_gb=4,
                    desc="send_reply_start/chunk/end on HTTP/1.%d: chunk-size == data length for every size_t length; terminator written" % mi))
    # (c) format lemma (reference only)
    for what in ("FIELD", "STATUS", "REQUEST"):
        obs.append(dict(name="lemma_" + what.lower(), harness="C26_lemma.c", entry="harness_lemma",
                    defines=["VP_LEM_" + what, "VP_K=3", "VP_V=%d" % V], unwind=V + 3 + 36, timeout=900, mem_gb=6,
                    desc="format lemma: head built from safe components parses back to exactly them (reference recipient, lenient and CRLF-only)"))
    return obs
