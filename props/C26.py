ID = "C26"
LEVEL = "model_checking"
TECHNIQUE = "CBMC bounded symbolic execution of http.c serialisers into a flat sink evbuffer; output parsed back by an RFC 9112 reference recipient"
UNITS = ["http.c", "http-internal.h", "evutil.c"]
FUNCTIONS = ["evhttp_make_header", "evhttp_make_header_request", "evhttp_make_header_response", "evhttp_add_header",
             "evhttp_header_is_valid_value", "evhttp_add_header_internal", "evhttp_response_code_", "evhttp_make_request",
             "evhttp_maybe_add_date_header", "evhttp_maybe_add_content_length_header", "evhttp_send_reply_chunk_with_cb", "evhttp_send_reply_end"]
BOUNDS = 'head: caller header name <=4 / value <=6 (thorough 8) symbolic bytes, reason phrase / target <=6 (8), status 100..599, HTTP/1.0 and 1.1, 7 methods, body length 0..99999; acceptance: name <=4 (5), value / phrase / target <=6 (8) symbolic bytes; chunked reply: data length any size_t; format lemma: name 1..2, value 3 (thorough 0..6) bytes with enumerated lengths, reason / target <=6 (8)'
OUT = 'more than one caller header per message (the header loop is the same for each); automatic headers that depend on the request being answered (Connection: keep-alive / close, Content-Type default) are exercised only in their absent form; caller header names equal to Date/Content-Length/Transfer-Encoding (suppress the automatic ones); evhttp_send_error / evhttp_send_page_ HTML bodies (htmlescape is C29); Date text (evutil_date_rfc1123 stub); bytes actually reaching the socket (bufferevent, C17)'
TEXT = "Three-part argument: (a) the real evhttp_make_header writes exactly start line, caller's header verbatim, documented automatic headers, CRLF, body (recording sink: sequence and arguments of evbuffer_add_printf/add/add_buffer); (b) what evhttp_add_header, evhttp_response_code_ and evhttp_make_request accept and store is 'safe' (token name; value whose CR/LF form single obs-folds; reason without control characters; non-empty target without control characters) and stored unchanged; (c) lemma decided on the reference alone: a head formatted from safe components is read back by the RFC 9112 reference recipient (lenient and CRLF-only) as exactly those components - no extra field, no early end of the header section. Plus (d) chunked replies: chunk-size equals the data length for every size_t, terminator written."
NOTE = '5 defects with fix proposals (fixes/C26-*.diff): header value with two line breaks, non-token header names, reason phrase and request target with CR/LF, chunk size truncated to 32 bits. ISO C printf semantics (%s copies the string, %d/%x print the number) connect (a) and (c).'
ASSUMPTIONS = ['evbuffer_add_printf/evbuffer_add/evbuffer_add_buffer append their result to the buffer in call order (recording sink env/http_recsink.h)', 'evutil_date_rfc1123 returns a short text without CR/LF', 'evhttp_send_done and bufferevent_setcb/enable are recorders (C27)']
DESIGN_REF = "DESIGN.md §5 C26"

def _with_token_set(obs):
    # evhttp_add_header checks names against the 77-character token alphabet (strspn): the membership loop of the
    # strspn/strpbrk model needs up to 78 rounds on that constant set
    for o in obs:
        us = list(o.get("unwindset", []))
        if not any(u.startswith("vp_in_set.0:") for u in us):
            us.append("vp_in_set.0:80")
        o["unwindset"] = us
    return obs

def obligations(tier):
    return _with_token_set(_obligations(tier))

def _obligations(tier):
    obs = []
    # (a) sequence of writes == format(components)
    Kh, Vh = (4, 6) if tier == "quick" else (4, 8)
    for kind in ("RESPONSE", "REQUEST"):
        obs.append(dict(name="head_" + kind.lower(), harness="C26_head.c", entry="harness_head",
                    defines=["VP_" + kind, "VP_K=%d" % Kh, "VP_V=%d" % Vh], unwind=24, unwindset=["vp_in_set.0:80"], timeout=900, mem_gb=6,
                    desc="%s head: writes == start line, caller's header (name<=%d, value<=%d symbolic bytes), automatic headers, CRLF, body (symbolic code/version/method/body length)" % (kind.lower(), Kh, Vh)))
    # (b) acceptance
    K, V = (4, 6) if tier == "quick" else (5, 8)
    for what in ("HEADER", "REASON", "TARGET"):
        obs.append(dict(name="accept_" + what.lower(), harness="C26_accept.c", entry="harness_accept",
                    defines=["VP_ACC_" + what, "VP_K=%d" % K, "VP_V=%d" % V], unwind=max(V + 3, 12),
                    unwindset=["vp_in_set.0:80", "strlen.0:34", "event_mm_strdup_.0:34"], timeout=600, mem_gb=4,
                    desc="%s accepted by the API is safe to embed, stored unchanged; ordinary strings not refused (name<=%d, value/phrase/target<=%d symbolic bytes)" % (what.lower(), K, V)))
    # (d) chunked replies
    for mi in (1, 0):
        obs.append(dict(name="chunk_reply_1%d" % mi, harness="C26_chunk.c", entry="harness_chunk", defines=["VP_MINOR=%d" % mi], unwind=24, unwindset=["vp_in_set.0:80"],
                    instrument=[["--replace-calls", "evhttp_send_done:vp_cut_send_done"]], native=False, timeout=600, mem_gb=4,
                    desc="send_reply_start/chunk/end on HTTP/1.%d: chunk-size == data length for every size_t length; terminator written" % mi))
    # (c) format lemma (reference only)
    for what in ("STATUS", "REQUEST"):
        obs.append(dict(name="lemma_" + what.lower(), harness="C26_lemma.c", entry="harness_lemma",
                    defines=["VP_LEM_" + what, "VP_K=2", "VP_V=%d" % V], unwind=V + 36, timeout=900, mem_gb=6,
                    desc="format lemma: start line built from a safe %s (<=%d symbolic bytes) parses back to exactly it" % ("reason phrase" if what == "STATUS" else "target", V)))
    # field lemma: lengths enumerated (name 1..2, value 0..VL), bytes symbolic
    sizes = [(1, 3), (2, 3)] if tier == "quick" else [(kl, vl) for kl in (1, 2) for vl in range(0, 7)]
    for (kl, vl) in sizes:
        if True:
            obs.append(dict(name="lemma_field_k%dv%d" % (kl, vl), harness="C26_lemma.c", entry="harness_lemma",
                        defines=["VP_LEM_FIELD", "VP_FIXED_LEN", "VP_K=%d" % kl, "VP_V=%d" % vl], unwind=kl + vl + 12, timeout=1500, mem_gb=8,
                        desc="format lemma: header section built from a safe field (name %d, value %d symbolic bytes) parses back to exactly that field (lenient and CRLF-only recipient)" % (kl, vl)))
    return obs
