ID = "C26"
LEVEL = "model_checking"
TECHNIQUE = "CBMC bounded symbolic execution of http.c serialisers into a flat sink evbuffer; output parsed back by an RFC 9112 reference recipient"
UNITS = ["http.c", "http-internal.h", "evutil.c"]
FUNCTIONS = ["evhttp_make_header", "evhttp_make_header_request", "evhttp_make_header_response", "evhttp_add_header",
             "evhttp_header_is_valid_value", "evhttp_add_header_internal", "evhttp_response_code_", "evhttp_make_request",
             "evhttp_maybe_add_date_header", "evhttp_maybe_add_content_length_header", "evhttp_send_reply_chunk_with_cb", "evhttp_send_reply_end"]
BOUNDS = "one caller header (name <=4, value <=6 symbolic bytes), reason phrase / target <=4 symbolic bytes, status 100..599, body 0..2 bytes; HTTP/1.0 and 1.1"
OUT = "work in progress"
TEXT = "work in progress"
NOTE = ""
ASSUMPTIONS = []
DESIGN_REF = "DESIGN.md §5 C26"

def obligations(tier):
    obs = []
    for kind in ("RESPONSE", "REQUEST"):
        for minor in (0, 1):
            obs.append(dict(name="head_%s_1%d" % (kind.lower(), minor), harness="C26_head.c", entry="harness_head",
                        defines=["VP_" + kind, "VP_MINOR=%d" % minor], unwind=20, timeout=900, mem_gb=8,
                        unwindset=["evbuffer_add.0:97", "vsnprintf.0:24", "split_lines.0:97", "vp_fmt_unum.0:24", "vp_fmt_unum.1:24", "vp_fmt_unum.2:24"],
                        desc="%s head HTTP/1.%d written by evhttp_make_header parses back to the caller's content" % (kind.lower(), minor)))
    return obs
