ID = "C44"
LEVEL = "model_checking"
TECHNIQUE = "CBMC bounded symbolic execution of the real listener.c accept loop and API against a kernel accept() contract, recording event/fd stubs and solver-chosen application callbacks"
UNITS = ["listener.c"]
FUNCTIONS = ["listener_read_cb", "evconnlistener_new", "evconnlistener_new_bind", "evconnlistener_free", "evconnlistener_enable",
             "evconnlistener_disable", "evconnlistener_set_cb", "evconnlistener_set_error_cb", "listener_decref_and_unlock",
             "event_listener_destroy", "event_listener_enable", "event_listener_disable"]
BOUNDS = ("histories: new(flags symbolic, cb or NULL) ; one API op ; accept event ; one API op ; accept event ; free.  <=3 accepted connections per "
          "history (quick), each accept() result solver-chosen (fd with address length 0..16 and arbitrary bytes | EAGAIN EINTR ECONNABORTED EMFILE "
          "ENFILE ENOMEM EBADF); every connection/error callback performs one solver-chosen API call out of {none, disable, enable, free, "
          "set_cb(NULL), set_cb(cb1), set_cb(cb2), disable+enable, set_error_cb(NULL)}")
OUT = ("the event core (event_add/event_del semantics are C02; the harness runs the accept callback iff the recorded event is pending); "
       "evutil_accept4_'s own accept4->accept+fcntl fallback; the Windows IOCP listener (not compiled on this platform); real sockets; "
       "concurrent calls from other threads (C09); histories longer than two accept events")
TEXT = ("Every fd accept() returned is passed to the installed callback exactly once with the stored peer address/length and user pointer, or closed exactly "
        "once (address length 0, callback cleared) -- never both, never neither; accept() is never called while the application has the listener "
        "disabled or after free; a non-retriable accept error reaches the error callback exactly once when one is set, retriable ones never; "
        "after free the event is deleted, memory and lock released, and the listening socket closed iff LEV_OPT_CLOSE_ON_FREE; refcount is 1 and no "
        "lock is held between calls; evconnlistener_new_bind leaks nothing on any failing setup call.")
NOTE = "Trusted: cbmc, the stubs in harness/C44_listener.c (accept contract, event pending flag, fd table), env/locks.h monitor."
ASSUMPTIONS = ["the event loop runs listener_read_cb only while the listener's event is pending (event core contract, C02)",
               "accept() returns a fresh fd or -1 with errno set; an fd is never returned twice while open",
               "allocation of the listener object succeeds in the accept-loop obligations (failing allocation is covered by new_bind)",
               "the application frees a listener at most once and does not use it afterwards"]
DESIGN_REF = "DESIGN.md §5 C44"

def UW(n): return ["listener_read_cb.4:%d" % (n + 3)]   # the while(1) accept loop (ids .0-.3,.5 are the do{}while(0) of the lock macros)

def obligations(tier):
    H = "C44_listener.c"
    obs = [dict(name="accept1", harness=H, entry="harness_accept", defines=["VP_ONE_EVENT"], unwind=18, unwindset=UW(3), timeout=600, mem_gb=6,
                desc="new ; op ; accept event ; free -- <=3 connections, callbacks act on the listener (9 actions), flags/locks symbolic, assert-enabled build"),
           dict(name="accept1_ndebug", harness=H, entry="harness_accept", defines=["VP_ONE_EVENT"], unwind=18, unwindset=UW(3), ndebug=True, timeout=600, mem_gb=6,
                desc="same, NDEBUG build (as shipped)"),
           dict(name="accept2_n2", harness=H, entry="harness_accept", defines=["VP_NACC=2"], unwind=18, unwindset=UW(2), timeout=900, mem_gb=6,
                desc="new ; op ; accept event ; op ; accept event ; free -- <=2 connections in total"),
           dict(name="new_bind", harness=H, entry="harness_new_bind", unwind=18, defines=["VP_ALLOC_MAY_FAIL"], timeout=300, mem_gb=4,
                desc="evconnlistener_new_bind: all 10 flag bits symbolic, backlog -1/0/1, every setup call and the allocation fail by solver choice: no fd/memory/lock leak; success: listening, closed on free iff CLOSE_ON_FREE")]
    if tier == "thorough":
        obs += [dict(name="accept2_n3", harness=H, entry="harness_accept", unwind=18, unwindset=UW(3), timeout=1800, mem_gb=8,
                     desc="two accept events, <=3 connections in total"),
                dict(name="accept2_n3_ndebug", harness=H, entry="harness_accept", unwind=18, unwindset=UW(3), ndebug=True, timeout=1800, mem_gb=8,
                     desc="two accept events, <=3 connections, NDEBUG build"),
                dict(name="accept1_n4", harness=H, entry="harness_accept", defines=["VP_ONE_EVENT", "VP_NACC=4"], unwind=18, unwindset=UW(4), timeout=1800, mem_gb=8,
                     desc="one accept event, <=4 connections"),
                dict(name="accept1_nolocks", harness=H, entry="harness_accept", defines=["VP_ONE_EVENT", "VP_LOCKS_OFF"], unwind=18, unwindset=UW(3), timeout=900, mem_gb=6,
                     desc="one accept event, threading callbacks not installed (NULL lock tables)")]
    return obs
