ID = "C34"
LEVEL = "model_checking"
TECHNIQUE = ("CBMC bounded symbolic execution of evdns.c's request life-cycle routines as unit steps on an evdns_base built through the "
             "library's own API (evdns_base_new, evdns_base_set_option, evdns_nameserver_add_impl_, evdns_base_resolve_ipv4); event core, "
             "sockets and bufferevents are recorders (env/dns_unit_env.h); typed heap objects (env/dns_typed_alloc_*.h)")
UNITS = ["evdns.c"]
FUNCTIONS = ["request_finished", "reply_schedule_callback", "reply_run_callback", "reply_handle", "evdns_cancel_request",
             "evdns_request_timeout_callback", "retransmit_all_tcp_requests_for", "client_retransmit_through_tcp",
             "evdns_requests_pump_waiting_queue", "evdns_base_free_and_unlock", "transaction_id_pick", "request_find_from_trans_id",
             "request_new", "request_clone", "request_submit", "evdns_request_transmit", "evdns_request_transmit_to",
             "evdns_request_transmit_through_tcp", "nameserver_pick", "nameserver_failed", "nameserver_up", "request_reissue",
             "request_swap_ns", "evdns_base_resolve_ipv4", "evdns_nameserver_free"]
BOUNDS = ("1-2 nameservers, 1-2 A requests for the name \"a\" (DNS_QUERY_NO_SEARCH), max-inflight 1 or 2 (one request bucket), attempts 1 or 2; "
          "one step (cancel / timer expiry x<=2 / one reply / base free / id pick) per obligation; which request the step hits, reply class "
          "(rcode, TC, answer present) and fail_requests are enumerated per obligation; transaction_id_pick: solver-chosen RNG bytes, a usable "
          "id at the latest on the 3rd draw")
OUT = ("whole exchanges over sockets, probing of failed nameservers, search-domain iteration (search_try_next), PTR/AAAA/CNAME-callback "
       "requests (reply_run_callback calls the user twice for DNS_CNAME_CALLBACK by design), evdns_getaddrinfo fan-out (C38), reply header "
       "bits other than RCODE/TC (fixed to 0x8180), more than one request bucket (max-inflight > 5), reply parsing (C33), TCP byte streams, "
       "threads")
TEXT = ("On every examined step the user callback of a request runs at most once, exactly once (with the documented code: result, "
        "DNS_ERR_CANCEL, DNS_ERR_TIMEOUT, DNS_ERR_SHUTDOWN, the reply's error) when the step terminates the request and not at all while "
        "it goes on; the request tables stay consistent (counters == lists, per-nameserver accounting, distinct ids, nothing left waiting "
        "while there is room, every inflight request has a timer or a transmission due); evdns_base_free leaves no pending event and no "
        "leak, and the callbacks it scheduled touch no freed memory; transaction_id_pick never returns 0xffff or an inflight id.")
NOTE = ("Findings: KF-C34-tcp-retransmit-uaf (retransmit_all_tcp_requests_for reads req->next of a request it has just freed: NULL "
        "dereference / use after free when a TCP request that used up its transmissions shares the nameserver with one whose timer fires), "
        "KF-C34-tcp-fallback-stall (a truncated reply while max-inflight requests are inflight parks the TCP retry in the waiting queue "
        "after the queue was pumped: it waits for an unrelated request to finish, for ever if there is none).  'No callback after the base "
        "is freed' is read as: evdns_base_free deletes every event it owns; the DNS_ERR_SHUTDOWN / DNS_ERR_CANCEL notifications it leaves "
        "scheduled are deferred callbacks that only touch their own handle.")
ASSUMPTIONS = ["pre-state transaction ids are the concrete distinct values 0x1001, 0x1002, ... (cbmc does not fold id % 1; the id only selects the bucket and there is one bucket)",
               "socket sends succeed completely, event_add/bufferevent operations succeed (recorders)",
               "the RNG yields an acceptable transaction id at the latest on the third draw",
               "allocation does not fail"]
DESIGN_REF = "DESIGN.md §5 C34, §3.2, §3.9"

US = ["vpe_timeout_set.0:10", "vpe_timeout_of.0:10", "transaction_id_pick.2:4", "nameserver_pick.3:4", "vpe_strlen.0:26", "vpe_strncmp.0:26", "vpd_calloc.0:15",
      "evdns_base_set_max_requests_inflight.4:15", "vpd_memcpy.0:130", "vpd_memcpy_var.0:30", "vpd_memset.0:130", "vpe_memcpy.0:30", "vpd_check_write.0:10"]

def ob(name, entry, desc, nns=1, nreq=2, maxinf=2, attempts=1, tcp=False, extra=(), **kw):
    defs = ["C34_NNS=%d" % nns, "C34_NREQ=%d" % nreq, "C34_MAXINFLIGHT=%d" % maxinf, "C34_ATTEMPTS=%d" % attempts] + (["C34_TCP"] if tcp else []) + list(extra)
    state = "%d nameserver(s), %d request(s)%s, max-inflight %d, attempts %d" % (nns, nreq, " over TCP" if tcp else "", maxinf, attempts)
    d = dict(name=name, harness="C34_lifecycle.c", entry=entry, desc="%s [state: %s]" % (desc, state), defines=defs, unwind=5,
             cbmc=["--memory-leak-check", "--object-bits", "10", "--max-field-sensitivity-array-size", "136"], timeout=900, mem_gb=3,
             unwindset=list(US))
    d.update(kw)
    return d

RCLASS = {(0, 0, 1, 1): "an answer", (0, 0, 1, 0): "no answer (NODATA)", (0, 0, 0, 0): "an unparsable reply", (1, 0, 1, 0): "FORMERR",
          (2, 0, 1, 0): "SERVFAIL", (3, 0, 1, 0): "NXDOMAIN", (4, 0, 1, 0): "NOTIMPL", (5, 0, 1, 0): "REFUSED", (9, 0, 1, 0): "an unknown rcode",
          (0, 1, 1, 1): "a truncated reply"}

def reply(rc, tc, hr, ha, nns, nreq, maxinf, j=0, tcp=False, **kw):
    n = "reply_rc%d_tc%d_r%d_a%d_ns%d_q%d_inf%d_j%d%s" % (rc, tc, hr, ha, nns, nreq, maxinf, j, "_tcp" if tcp else "")
    return ob(n, "harness_reply", "reply_handle with %s for request %d: callback exactly once with the reply's outcome if it terminates the request "
              "(SERVFAIL = timeout with transmissions left, NOTIMPL/REFUSED = reissue to another nameserver, TC = TCP retry go on without callback); "
              "tables consistent; clean free afterwards" % (RCLASS[(rc, tc, hr, ha)], j), nns=nns, nreq=nreq, maxinf=maxinf, attempts=2, tcp=tcp,
              extra=["C34_J=%d" % j, "C34_RCODE=%d" % rc, "C34_TCBIT=%d" % tc, "C34_HAVE_REPLY=%d" % hr, "C34_HAVE_ANSWER=%d" % ha], **kw)

def obligations(tier):
    full = tier != "quick"
    obs = []
    # ---- cancel
    cs = [(2, 2, 0, 0, 0), (2, 2, 1, 1, 0), (1, 1, 0, 0, 0), (1, 1, 1, 0, 0), (1, 1, 0, 1, 1), (2, 2, 1, 0, 1)]
    if full: cs += [(1, 2, 0, 1, 1), (2, 1, 1, 1, 1), (2, 1, 0, 0, 0), (1, 2, 1, 0, 0)]
    for (nns, maxinf, j, twice, both) in cs:
        obs.append(ob("cancel_ns%d_inf%d_j%d_t%d_b%d" % (nns, maxinf, j, twice, both), "harness_cancel",
                      "evdns_cancel_request on request %d%s%s: DNS_ERR_CANCEL exactly once per cancelled request (deferred), none for the other; a waiting "
                      "request is promoted (fresh id, timer); tables consistent; clean free" % (j, ", twice" if twice else "", ", then on the other one" if both else ""),
                      nns=nns, nreq=2, maxinf=maxinf, extra=["C34_J=%d" % j, "C34_TWICE=%d" % twice, "C34_BOTH=%d" % both]))
    # ---- timeouts (UDP)
    ts = [(1, 0, 1, 2, 2), (2, 1, 1, 2, 2), (2, 0, 0, 1, 1), (1, 0, 1, 2, 1)]
    if full: ts += [(2, 0, 1, 2, 2), (2, 1, 0, 1, 2), (1, 0, 1, 1, 1), (2, 0, 0, 2, 1)]
    for (att, j, j2, nns, maxinf) in ts:
        obs.append(ob("timeout_att%d_j%d%d_ns%d_inf%d" % (att, j, j2, nns, maxinf), "harness_timeout",
                      "timer of request %d, then of request %d fires: give up (DNS_ERR_TIMEOUT exactly once) iff the request was sent `attempts` times, else "
                      "retransmit (no callback, tx_count+1, timer pending); tables consistent; clean free" % (j, j2),
                      nns=nns, nreq=2, maxinf=maxinf, attempts=att, extra=["C34_J=%d" % j, "C34_J2=%d" % j2]))
    # ---- timeouts (TCP): finding KF-C34-tcp-retransmit-uaf
    obs.append(ob("timeout_tcp_together", "harness_timeout_tcp",
                  "TCP: timer of request 1 fires while both requests have transmissions left: connection torn down, both retransmitted, no callback "
                  "(the KF-C34-tcp-retransmit-uaf shape -- a request without transmissions left on the same nameserver -- excluded)",
                  nns=1, nreq=2, maxinf=2, attempts=2, tcp=True, extra=["C34_J=1", "C34_STAGGER=0"]))
    obs.append(ob("timeout_tcp_stagger_kf", "harness_timeout_tcp",
                  "TCP: request 0 was retransmitted once (2 of 2 transmissions), then request 1 is made and its timer fires: request 0 must be given up "
                  "exactly once (DNS_ERR_TIMEOUT), request 1 retransmitted, no access to freed memory [KF-C34-tcp-retransmit-uaf]",
                  nns=1, nreq=1, maxinf=2, attempts=2, tcp=True, extra=["C34_STAGGER=1"],
                  expect_fail=["deallocated dynamic object in req->next", "unwinding assertion loop 0"], known_finding="KF-C34-tcp-retransmit-uaf"))
    # ---- replies
    rs = [(0, 0, 1, 1), (0, 0, 1, 0), (2, 0, 1, 0), (3, 0, 1, 0), (5, 0, 1, 0)]
    if full: rs += [(0, 0, 0, 0), (1, 0, 1, 0), (4, 0, 1, 0), (9, 0, 1, 0)]
    for (rc, tc, hr, ha) in rs:
        obs.append(reply(rc, tc, hr, ha, 2, 2, 2))
    obs.append(reply(5, 0, 1, 0, 1, 2, 2, j=1))            # REFUSED with a single nameserver: terminates
    obs.append(reply(0, 0, 1, 1, 1, 2, 1, j=0))            # answer for the inflight one, the waiting one is promoted
    obs.append(reply(0, 1, 1, 1, 2, 2, 2, tcp=True))       # truncated reply to a request that is already on TCP: DNS_ERR_TRUNCATED
    if full:
        obs.append(reply(2, 0, 1, 0, 1, 1, 2)); obs.append(reply(4, 0, 1, 0, 1, 2, 2, j=1)); obs.append(reply(3, 0, 1, 0, 1, 2, 1))
    # TC -> TCP fallback: finding KF-C34-tcp-fallback-stall (inflight == max-inflight when the truncated reply arrives)
    obs.append(reply(0, 1, 1, 1, 2, 1, 2))                 # room inflight: fine
    obs.append(reply(0, 1, 1, 1, 2, 2, 2, expect_fail=["C34: request left in the waiting queue although there is room inflight"],
                     known_finding="KF-C34-tcp-fallback-stall"))
    if full:
        obs.append(reply(0, 1, 1, 1, 1, 1, 1, expect_fail=["C34: request left in the waiting queue although there is room inflight"],
                         known_finding="KF-C34-tcp-fallback-stall"))
    # ---- free
    for fail in (1, 0):
        for c0 in (0, 1):
            for maxinf in ((1, 2) if (full or not c0) else (1,)):     # inf1 without cancel: request 1 is still WAITING when the base is freed
                obs.append(ob("free_fail%d_cancel%d_inf%d" % (fail, c0, maxinf), "harness_free",
                              "evdns_base_free(fail_requests=%d)%s: %s; no event left pending, sockets closed, scheduled callbacks touch no freed "
                              "memory, no leak" % (fail, " after request 0 was cancelled" if c0 else "",
                                                   "DNS_ERR_SHUTDOWN exactly once per live request" if fail else "no callback for live requests"),
                              nns=2, nreq=2, maxinf=maxinf, extra=["C34_FAIL=%d" % fail, "C34_CANCEL0=%d" % c0]))
    # ---- transaction ids
    for nreq in (1, 2):
        obs.append(ob("txid_q%d" % nreq, "harness_txid",
                      "transaction_id_pick with solver-chosen RNG bytes and %d request(s) inflight: result != 0xffff and != every inflight id" % nreq,
                      nns=1, nreq=nreq, maxinf=2))
    if full:
        for o in list(obs):
            if o["name"] in ("cancel_ns1_inf1_j0_t1_b1", "timeout_att2_j11_ns2_inf2", "free_fail1_cancel0_inf2", "reply_rc0_tc0_r1_a1_ns2_q2_inf2_j0"):
                t = dict(o); t["name"] += "_ndebug"; t["ndebug"] = True; t["desc"] += " [NDEBUG build]"; obs.append(t)
                t = dict(o); t["name"] += "_locks"; t["defines"] = o["defines"] + ["VP_LOCKS_ON"]; t["desc"] += " [lock monitor on: every lock released, no re-entry of a non-recursive lock]"; obs.append(t)
    return obs
