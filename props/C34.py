ID = "C34"
LEVEL = "model_checking"
TECHNIQUE = "CBMC bounded symbolic execution of evdns.c request life-cycle steps on an evdns_base built through the API; event core, sockets, bufferevents as recorders"
UNITS = ["evdns.c"]
FUNCTIONS = ["request_finished", "reply_schedule_callback", "reply_run_callback", "reply_handle", "evdns_cancel_request",
             "evdns_request_timeout_callback", "retransmit_all_tcp_requests_for", "client_retransmit_through_tcp",
             "evdns_requests_pump_waiting_queue", "evdns_base_free_and_unlock", "transaction_id_pick", "request_find_from_trans_id",
             "request_new", "request_clone", "request_submit", "evdns_request_transmit", "nameserver_pick", "nameserver_failed",
             "request_reissue", "evdns_base_resolve_ipv4"]
BOUNDS = ""
OUT = ""
TEXT = ""
NOTE = ""
ASSUMPTIONS = []
DESIGN_REF = "DESIGN.md §5 C34"

def ob(name, entry, desc, nns=1, nreq=2, maxinf=2, attempts=1, tcp=False, extra=(), **kw):
    defs = ["C34_NNS=%d" % nns, "C34_NREQ=%d" % nreq, "C34_MAXINFLIGHT=%d" % maxinf, "C34_ATTEMPTS=%d" % attempts] + (["C34_TCP"] if tcp else []) + list(extra)
    d = dict(name=name, harness="C34_lifecycle.c", entry=entry, desc=desc, defines=defs, unwind=5,
             cbmc=["--memory-leak-check", "--object-bits", "10", "--max-field-sensitivity-array-size", "136"], timeout=900, mem_gb=4,
             unwindset=["transaction_id_pick.2:4", "nameserver_pick.3:4", "vpe_strlen.0:26", "vpe_strncmp.0:26", "vpd_calloc.0:15",
                        "evdns_base_set_max_requests_inflight.4:15", "vpd_memcpy.0:130", "vpd_memcpy_var.0:30", "vpd_memset.0:130", "vpe_memcpy.0:30"])
    d.update(kw)
    return d

def obligations(tier):
    obs = []
    # cancel: which request (J), twice, both
    for (nns, maxinf, j, twice, both) in [(2, 2, 0, 0, 0), (2, 2, 1, 1, 0), (1, 1, 0, 0, 0), (1, 1, 1, 0, 0), (1, 1, 0, 1, 1), (2, 2, 1, 0, 1)]:
        obs.append(ob("cancel_ns%d_inf%d_j%d_t%d_b%d" % (nns, maxinf, j, twice, both), "harness_cancel", "cancel", nns=nns, nreq=2, maxinf=maxinf,
                      extra=["C34_J=%d" % j, "C34_TWICE=%d" % twice, "C34_BOTH=%d" % both]))
    obs.append(ob("timeout_att1", "harness_timeout", "timeout", nns=2, nreq=2, maxinf=2, attempts=1, extra=["C34_J=0", "C34_J2=1"]))
    obs.append(ob("timeout_att2", "harness_timeout", "timeout", nns=2, nreq=2, maxinf=2, attempts=2, extra=["C34_J=1", "C34_J2=1"]))
    obs.append(ob("timeout_tcp_together", "harness_timeout_tcp", "tcp", nns=1, nreq=2, maxinf=2, attempts=2, tcp=True, extra=["C34_J=1", "C34_STAGGER=0"]))
    obs.append(ob("timeout_tcp_stagger_kf", "harness_timeout_tcp", "tcp", nns=1, nreq=1, maxinf=2, attempts=2, tcp=True, extra=["C34_STAGGER=1"]))
    for rc, tc, hr, ha in [(0, 0, 1, 1), (0, 0, 1, 0), (0, 0, 0, 0), (1, 0, 1, 0), (2, 0, 1, 0), (3, 0, 1, 0), (4, 0, 1, 0), (5, 0, 1, 0), (9, 0, 1, 0), (0, 1, 1, 1)]:
        obs.append(ob("reply_rc%d_tc%d_r%d_a%d" % (rc, tc, hr, ha), "harness_reply", "reply", nns=2, nreq=2, maxinf=2, attempts=2,
                      extra=["C34_J=0", "C34_RCODE=%d" % rc, "C34_TCBIT=%d" % tc, "C34_HAVE_REPLY=%d" % hr, "C34_HAVE_ANSWER=%d" % ha]))
    obs.append(ob("free_fail", "harness_free", "free", nns=2, nreq=2, maxinf=1, extra=["C34_FAIL=1", "C34_CANCEL0=0"]))
    obs.append(ob("txid", "harness_txid", "txid", nns=1, nreq=2, maxinf=2))
    return obs
