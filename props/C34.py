ID = "C34"
LEVEL = "model_checking"
TECHNIQUE = "CBMC bounded symbolic execution of evdns.c request life-cycle steps on an evdns_base built through the API; event core, sockets, bufferevents as recorders"
UNITS = ["evdns.c"]
FUNCTIONS = ["request_finished", "reply_schedule_callback", "reply_run_callback", "reply_handle", "evdns_cancel_request",
             "evdns_request_timeout_callback", "retransmit_all_tcp_requests_for", "client_retransmit_through_tcp",
             "evdns_requests_pump_waiting_queue", "evdns_base_free_and_unlock", "transaction_id_pick", "request_find_from_trans_id",
             "request_new", "request_clone", "request_submit", "evdns_request_transmit", "nameserver_pick", "nameserver_failed",
             "request_reissue", "evdns_base_resolve_ipv4"]
BOUNDS = ""
OUT = ""
TEXT = ""
NOTE = ""
ASSUMPTIONS = []
DESIGN_REF = "DESIGN.md §5 C34"

def ob(name, entry, desc, nns=1, nreq=2, maxinf=2, attempts=1, tcp=False, extra=(), **kw):
    defs = ["C34_NNS=%d" % nns, "C34_NREQ=%d" % nreq, "C34_MAXINFLIGHT=%d" % maxinf, "C34_ATTEMPTS=%d" % attempts] + (["C34_TCP"] if tcp else []) + list(extra)
    d = dict(name=name, harness="C34_lifecycle.c", entry=entry, desc=desc, defines=defs, unwind=26,
             cbmc=["--memory-leak-check", "--object-bits", "10", "--max-field-sensitivity-array-size", "136"], timeout=900, mem_gb=4,
             unwindset=["transaction_id_pick.2:4", "nameserver_pick.3:4"])
    d.update(kw)
    return d

def obligations(tier):
    obs = []
    obs.append(ob("cancel_2ns_2req_inf2", "harness_cancel", "cancel", nns=2, nreq=2, maxinf=2))
    obs.append(ob("cancel_1ns_2req_inf1", "harness_cancel", "cancel", nns=1, nreq=2, maxinf=1))
    obs.append(ob("timeout_att1", "harness_timeout", "timeout", nns=2, nreq=2, maxinf=2, attempts=1))
    obs.append(ob("timeout_att2", "harness_timeout", "timeout", nns=2, nreq=2, maxinf=2, attempts=2))
    obs.append(ob("reply_2ns", "harness_reply", "reply", nns=2, nreq=2, maxinf=2, attempts=2))
    obs.append(ob("free_2req", "harness_free", "free", nns=2, nreq=2, maxinf=1))
    obs.append(ob("txid", "harness_txid", "txid", nns=1, nreq=2, maxinf=2))
    return obs
