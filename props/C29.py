ID = "C29"
LEVEL = "proof"
TECHNIQUE = "CBMC bounded symbolic execution of http.c's URI/HTML escaping and query splitting vs reference codecs (RFC 3986 2.1/2.3, event2/http.h)"
UNITS = ["http.c", "evutil.c"]
FUNCTIONS = ["evhttp_uriencode", "evhttp_decode_uri_internal", "evhttp_uridecode", "evhttp_decode_uri",
             "evhttp_parse_query_impl", "evhttp_parse_query_str", "evhttp_parse_query_str_flags",
             "evhttp_htmlescape", "html_replace"]
BOUNDS = ("quick: byte strings <= 6 (codec, htmlescape), query strings <= 5; thorough: <= 8 (round trip <= 7) / <= 6. Every byte symbolic (0x01-0xff; 0x00 too where the API takes "
          "an explicit length); all three '+' modes of the decoder; all 4 flag combinations of the query parser (one obligation each) plus the flag-less entry point")
OUT = ("evhttp_parse_query (deprecated whole-URI entry: URI parser C28 + the same splitter); allocation failure paths; strings longer than the bound; "
       "evhttp_encode_uri is evhttp_uriencode(str,-1,0) and is covered through it; the evbuffer inside evhttp_uriencode is the contract model "
       "(env/evbuf_contract.h: append/remove/length as C12 establishes them for buffer.c), not buffer.c itself")
TEXT = ("decode: evhttp_decode_uri_internal on exact-size objects equals the reference decoder (RFC 3986 2.1; '+' handling per event2/http.h), returns the number "
        "of bytes written, NUL-terminates, writes at most length+1 bytes and never reads outside its input (cbmc pointer checks). uridecode: the public wrappers "
        "allocate strlen+1, report the decoded size, treat any non-zero decode_plus as 1. roundtrip: evhttp_uriencode output == reference encoder modulo hex-digit case "
        "(unreserved bytes verbatim, space as '+' only in plus mode, everything else %XX), is allocated to fit, contains only unreserved bytes / '+' / %XX, and "
        "evhttp_uridecode(enc, same mode) returns the input bytes and length (embedded NUL included). htmlescape: no raw < > \" ' in the output, every & starts one of "
        "the five entities, unescaping gives the input, allocation fits exactly. query_*: return value, number, order, keys and values of the pairs == reference "
        "splitter; a failed parse leaves an empty queue; nothing leaks.")
NOTE = ("Reference splitter (ref/uricodec_ref.h) written from event2/http.h: pairs separated by '&' (a trailing '&' is tolerated), split at the first '=', key non-empty; "
        "keys are taken verbatim (NOT percent-decoded, as the documented examples and regress expect), values are decoded with '+' -> space and end at a decoded NUL "
        "(C string API); QUERY_LAST_VAL compares keys ASCII-case-insensitively because the result is an evkeyvalq. Hex-digit case of the encoder is not prescribed "
        "(RFC 3986 2.1 'should'), a lower-case mutation passes by design. Trusted: cbmc, env/http_fmt.h string/strtol models, env/http_stralloc.h (literal-size string "
        "objects; request sizes recorded and asserted), env/evbuf_contract.h + evbuf_contract_printf.h, ref/uricodec_ref.h.")
ASSUMPTIONS = ["allocation does not fail", "evbuffer_new/add/add_printf/remove/get_length behave as documented (contract model, property C12)",
               "C strings handed to the API are NUL-terminated and at most the stated bound long"]
DESIGN_REF = "DESIGN.md §5 C29"

def obligations(tier):
    TT, MM = (900, 3) if tier == "quick" else (2400, 6)
    n = 6 if tier == "quick" else 8
    so = max(48, 6 * n + 2)
    D = ["VP_N=%d" % n, "VP_STR_OBJ=%d" % so]
    nrt = 6 if tier == "quick" else 7  # round trip: the encoded text is 3x as long
    B = 24 if nrt <= 6 else 32        # capacity of the evbuffer contract model (>= 3n+1)
    D = D + ["VP_BYTES_MAX=%d" % B]
    DR = ["VP_N=%d" % nrt, "VP_STR_OBJ=%d" % so, "VP_BYTES_MAX=%d" % B]
    US = ["strtoll.0:2", "strtoll.1:4"]
    USB = US + ["vpb_init.0:%d" % (2 * B + 1), "vpb_append.0:%d" % (2 * B + 1), "evbuffer_remove.0:%d" % (B + 1),
                "evhttp_uriencode.0:%d" % (nrt + 1), "vp_evp_num.0:4", "vp_evp_num.1:4", "vp_evp_num.2:4",
                "evbuffer_add_vprintf.0:8", "evbuffer_add_vprintf.1:4", "evbuffer_add_vprintf.2:4"]
    obs = [
        dict(name="decode", harness="C29_codec.c", entry="harness_decode", defines=D, unwind=n + 2, unwindset=US,
             timeout=TT, mem_gb=MM, desc="evhttp_decode_uri_internal on exact-size objects, input <= %d symbolic bytes, 3 plus modes" % n),
        dict(name="uridecode", harness="C29_codec.c", entry="harness_uridecode", defines=D, unwind=n + 2, unwindset=US,
             timeout=TT, mem_gb=MM, desc="evhttp_uridecode/evhttp_decode_uri wrappers, C string <= %d" % n),
        dict(name="roundtrip", harness="C29_codec.c", entry="harness_roundtrip", defines=DR, unwind=3 * nrt + 2, unwindset=USB,
             timeout=TT, mem_gb=MM, desc="uriencode vs reference encoder + uridecode round trip, <= %d symbolic bytes (NUL allowed with explicit length), both plus modes" % nrt),
        dict(name="htmlescape", harness="C29_codec.c", entry="harness_htmlescape", defines=D, unwind=6 * n + 2, unwindset=["vp_memcpy.0:7", "ruc_starts.0:8", "evhttp_htmlescape.0:%d" % (n + 1), "evhttp_htmlescape.1:%d" % (n + 1), "vp_cstring.0:%d" % (n + 1)],
             timeout=TT, mem_gb=MM, desc="evhttp_htmlescape, C string <= %d" % n),
    ]
    # exact-size heap objects (VP_ALLOC_EXACT): an overrun of what the functions allocate is a cbmc pointer-check failure
    ne = 3 if tier == "quick" else 5
    DE = ["VP_N=%d" % ne, "VP_STR_OBJ=40", "VP_ALLOC_EXACT", "VP_BYTES_MAX=%d" % (3 * ne + 5)]
    obs += [
        dict(name="htmlescape_exact", harness="C29_codec.c", entry="harness_htmlescape", defines=DE, unwind=6 * ne + 2,
             unwindset=["vp_memcpy.0:7", "ruc_starts.0:8", "evhttp_htmlescape.0:%d" % (ne + 1), "evhttp_htmlescape.1:%d" % (ne + 1), "vp_cstring.0:%d" % (ne + 1)],
             timeout=TT, mem_gb=MM, desc="evhttp_htmlescape with exact-size allocations (heap overrun = pointer-check failure), C string <= %d" % ne),
        dict(name="uridecode_exact", harness="C29_codec.c", entry="harness_uridecode", defines=DE, unwind=ne + 2, unwindset=US,
             timeout=TT, mem_gb=MM, desc="evhttp_uridecode/evhttp_decode_uri with exact-size allocations, C string <= %d" % ne),
    ]
    if tier != "quick":
        obs.append(dict(name="uridecode_ndebug", harness="C29_codec.c", entry="harness_uridecode", defines=D, unwind=n + 2, unwindset=US, ndebug=True,
             timeout=TT, mem_gb=MM, desc="NDEBUG twin of uridecode (EVUTIL_ASSERT(n >= 0) compiled out as in the shipped build)"))
    n = 5 if tier == "quick" else 6          # query strings
    for fl, nm in ((-1, "str"), (0, "f0"), (1, "lax"), (2, "last"), (3, "lax_last")):
        lax = fl >= 0 and (fl & 1)
        it = (n + 1) if lax else (n // 3 + 1)       # iterations of the pair loop: every pair consumes >= 1 (lax) / >= 3 (strict) bytes
        obs.append(dict(name="query_" + nm, harness="C29_query.c", entry="harness_query",
             defines=["VP_N=%d" % n, "VP_STR_OBJ=%d" % (n + 2), "VP_FLAGS=%d" % fl],
             unwind=n + 2, unwindset=US + ["event_mm_strdup_.0:%d" % (n + 3), "evhttp_parse_query_impl.0:%d" % (it + 1)],
             cbmc=["--object-bits", "10"], timeout=TT, mem_gb=MM,
             desc="evhttp_parse_query_str%s vs reference splitter, C string <= %d" % ("" if fl < 0 else "_flags(flags=%d)" % fl, n)))
    return obs
