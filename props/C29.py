ID = "C29"
LEVEL = "proof"
TECHNIQUE = "CBMC bounded symbolic execution of http.c's URI/HTML escaping and query splitting vs reference codecs (RFC 3986 2.1/2.3, event2/http.h)"
UNITS = ["http.c", "evutil.c"]
FUNCTIONS = ["evhttp_uriencode", "evhttp_decode_uri_internal", "evhttp_uridecode", "evhttp_decode_uri",
             "evhttp_parse_query_impl", "evhttp_parse_query_str", "evhttp_parse_query_str_flags",
             "evhttp_htmlescape", "html_replace"]
BOUNDS = "work in progress"
OUT = "work in progress"
TEXT = "work in progress"
NOTE = ""
ASSUMPTIONS = []
DESIGN_REF = "DESIGN.md §5 C29"

def obligations(tier):
    n = 6 if tier == "quick" else 8
    so = max(48, 6 * n + 2)
    D = ["VP_N=%d" % n, "VP_STR_OBJ=%d" % so]
    B = 24 if n <= 6 else 32          # capacity of the evbuffer contract model (>= 3n+1)
    D = D + ["VP_BYTES_MAX=%d" % B]
    US = ["strtoll.0:2", "strtoll.1:4"]
    USB = US + ["vpb_init.0:%d" % (2 * B + 1), "vpb_append.0:%d" % (2 * B + 1), "evbuffer_remove.0:%d" % (B + 1),
                "evhttp_uriencode.0:%d" % (n + 1), "vp_evp_num.0:4", "vp_evp_num.1:4", "vp_evp_num.2:4",
                "evbuffer_add_vprintf.0:8", "evbuffer_add_vprintf.1:4", "evbuffer_add_vprintf.2:4"]
    obs = [
        dict(name="decode", harness="C29_codec.c", entry="harness_decode", defines=D, unwind=n + 2, unwindset=US,
             timeout=600, mem_gb=4, desc="evhttp_decode_uri_internal on exact-size objects, input <= %d symbolic bytes, 3 plus modes" % n),
        dict(name="uridecode", harness="C29_codec.c", entry="harness_uridecode", defines=D, unwind=n + 2, unwindset=US,
             timeout=600, mem_gb=4, desc="evhttp_uridecode/evhttp_decode_uri wrappers, C string <= %d" % n),
        dict(name="roundtrip", harness="C29_codec.c", entry="harness_roundtrip", defines=D, unwind=3 * n + 2, unwindset=USB,
             timeout=600, mem_gb=6, desc="uriencode vs reference encoder + uridecode round trip, <= %d symbolic bytes (NUL allowed with explicit length), both plus modes" % n),
        dict(name="htmlescape", harness="C29_codec.c", entry="harness_htmlescape", defines=D, unwind=6 * n + 2, unwindset=["vp_memcpy.0:7", "ruc_starts.0:8", "evhttp_htmlescape.0:%d" % (n + 1), "evhttp_htmlescape.1:%d" % (n + 1), "vp_cstring.0:%d" % (n + 1)],
             timeout=600, mem_gb=6, desc="evhttp_htmlescape, C string <= %d" % n),
    ]
    n = 5 if tier == "quick" else 6
    for fl, nm in ((-1, "str"), (0, "f0"), (1, "lax"), (2, "last"), (3, "lax_last")):
        lax = fl >= 0 and (fl & 1)
        it = (n + 1) if lax else (n // 3 + 1)       # iterations of the pair loop: every pair consumes >= 1 (lax) / >= 3 (strict) bytes
        obs.append(dict(name="query_" + nm, harness="C29_query.c", entry="harness_query",
             defines=["VP_N=%d" % n, "VP_STR_OBJ=%d" % (n + 2), "VP_FLAGS=%d" % fl],
             unwind=n + 2, unwindset=US + ["event_mm_strdup_.0:%d" % (n + 3), "evhttp_parse_query_impl.0:%d" % (it + 1)],
             cbmc=["--object-bits", "10"], timeout=900, mem_gb=3,
             desc="evhttp_parse_query_str%s vs reference splitter, C string <= %d" % ("" if fl < 0 else "_flags(flags=%d)" % fl, n)))
    return obs
