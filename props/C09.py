import os
ID = "C09"
LEVEL = "model_checking"
TECHNIQUE = ("CBMC bounded symbolic execution of the real event.c/evmap.c with two thread identities played sequentially: "
             "the second thread runs where the loop thread has released th_base_lock (inside the back end's dispatch, inside a "
             "user callback); lock/condition monitor of env/locks.h installed as the evthread callbacks with lock debugging on")
UNITS = ["event.c", "evmap.c", "evthread-internal.h"]
FUNCTIONS = ["event_add_nolock_", "event_del_nolock_", "event_active_nolock_", "event_callback_activate_nolock_",
             "event_callback_activate_later_nolock_", "evthread_notify_base", "event_base_loopbreak", "event_base_loopcontinue",
             "event_base_loopexit", "event_base_once", "event_deferred_cb_schedule_", "event_base_del_virtual_",
             "event_process_active_single_queue", "event_signal_closure", "event_base_loop"]
BOUNDS = ("one cross-thread call per obligation; base with 2 priorities holding a 5 s timer, a persistent read event and the target event "
          "(io / io+EV_FINALIZE / timer / signal; assigned, added or active), or the target alone, or one virtual event; timeouts from "
          "{NULL, 0, 1 s, 7.25 s} (earlier and later than what the loop sleeps for); one loop pass (EVLOOP_ONCE)")
OUT = ("REAL INTERLEAVINGS AND DATA RACES ARE NOT DECIDED: each thread's steps between two lock operations run atomically, the second "
       "thread only runs at points where the loop thread holds no lock; no ThreadSanitizer-style exploration; evbuffer/bufferevent "
       "cross-thread use; a th_notify_fn that fails hard leaves is_notify_pending set (later notifications are suppressed) -- not checked. "
       "One spurious condition-variable wake-up per wait is covered by the two delwait_spurious_* obligations (the re-check loop added by "
       "fixes/C09-del-wait-loop.diff); the other delwait obligations assume none")
TEXT = ("(i) every EVENT_BASE_ASSERT_LOCKED of event.c/evmap.c holds on all explored paths and the lock monitor never sees an unlock of an "
        "unheld lock, a re-entry or a condition wait without the lock; (ii) whenever a call from a non-owner thread made a callback active, "
        "set a deadline earlier than the loop's current sleep, changed the back end's fd/signal set, removed the last event or asked the "
        "loop to break/continue/exit, th_notify_fn was invoked or is_notify_pending was already set; calls that change nothing and calls "
        "by the loop thread do not notify; (iii) event_del/event_del_block (and event_add/event_active on a signal event) from a non-owner "
        "thread reach the wait on current_event_cond exactly when the contract says they block (not for NOBLOCK, not for EV_FINALIZE "
        "under AUTOBLOCK, never in the loop thread), holding the base lock once and counted in current_event_waiters, and the loop "
        "broadcasts exactly once after the callback has returned and current_event is cleared.")
NOTE = "Trusted: cbmc, env/locks.h monitor (condition wait returns immediately and is recorded), env/evbase.h constructed base."
ASSUMPTIONS = ["condition variables re-acquire the lock on return; they wake only on signal/broadcast except in delwait_spurious_* (first wait returns spuriously)",
               "lock callbacks behave as a recursive counting mutex; thread identity is what evthread_id_fn_ reports",
               "th_notify_fn succeeds (stub counter); base constructed as in env/evbase.h; no allocation or back-end faults (those are C08's subject)"]
DESIGN_REF = "DESIGN.md §5 C09"

_T = int(os.environ.get("VP_PROBE_T", "0"))
OPN = dict(ADD=0, DEL=1, DEL_BLOCK=2, DEL_NOBLOCK=3, ACTIVE=4, LOOPBREAK=5, LOOPCONTINUE=6, LOOPEXIT=7, DEFERRED=8, DEL_VIRTUAL=9,
           ACTIVE_LATER=10, ONCE=11, NOOP=12, DEL_OTHER=13, DEL_LAST=14, ADD_VIRTUAL=15)
KN = dict(io=0, timer=1, sig=2, iofin=3)

def _pins():
    P = [
        ("event_base_loop.function_pointer_call.7", "c09_dispatch"),
        ("event_process_active_single_queue.function_pointer_call.2", "cb,event_once_cb"),
        ("event_process_active_single_queue.function_pointer_call.4", "self_cb"),
        ("event_persist_closure.function_pointer_call.2", "cb"),
        ("event_signal_closure.function_pointer_call.2", "cb"),
        ("event_once_cb.function_pointer_call.1", "cb,event_loopexit_cb"),
        ("evmap_io_add_.function_pointer_call.1", "vp_be_add"),
        ("evmap_io_del_.function_pointer_call.1", "vp_be_del"),
        ("evmap_signal_add_.function_pointer_call.1", "vp_sig_add"),
        ("evmap_signal_del_.function_pointer_call.1", "vp_sig_del"),
        ("evthread_notify_base.function_pointer_call.1", "vp_notify_fn"),
        ("event_mm_malloc_.function_pointer_call.1", "c09_malloc"),
        ("event_mm_calloc_.function_pointer_call.1", "c09_malloc"),
        ("event_mm_realloc_.function_pointer_call.1", "c09_realloc"),
        ("event_mm_free_.function_pointer_call.1", "c09_free"),
        ("vp_base_new_ops.function_pointer_call.1", "vp_be_init"),
        ("vp_cond_wait.function_pointer_call.1", "c09_cond_wait_hook"),
    ]
    out = []
    for lab, tg in P:
        out += ["--restrict-function-pointer", "%s/%s" % (lab, tg)]
    return [out]

def _expect(entry, op, kind, st, thread, bs):
    """what the obligation's scenario family must be able to reach (keeps the implication checks non-vacuous);
    the harness re-derives the delwait value from the contract and asserts agreement"""
    if entry == "delwait":
        if thread == 1: return 0
        if op == "DEL_BLOCK": return 1
        if op == "DEL": return 0 if kind == "iofin" else 1
        if op in ("ADD", "ACTIVE"): return 1 if kind == "sig" else 0
        return 0
    if thread == 1: return 0
    if op == "ADD": return 0 if st == 2 else 1
    if op in ("DEL", "DEL_BLOCK", "DEL_NOBLOCK"):
        if st == 0: return 2
        return 0 if kind == "timer" else 1
    if op == "ACTIVE": return 2 if st == 2 else 1
    if op in ("NOOP", "ADD_VIRTUAL", "DEFERRED"): return 2
    return 1

def _ob(entry, op, kind="io", st=1, thread=2, bs=0, tv=False, **kw):
    name = "%s_%s_%s_st%d_t%d%s" % (entry, op.lower(), kind, st, thread, "" if bs == 0 else "_base%d" % bs)
    defs = ["C09_OP=%d" % OPN[op], "C09_KIND=%d" % KN[kind], "C09_ST=%d" % st, "C09_THREAD=%d" % thread, "C09_BASE=%d" % bs]
    if tv: defs.append("C09_USE_TV")
    defs += ["C09_MODE=%d" % (1 if entry == "wakeup" else 3 if entry == "delwait_spurious" else 2), "C09_EXPECT=%d" % _expect(entry, op, kind, st, thread, bs)]
    d = dict(name=name, harness="C09_xthread.c", entry="harness_" + entry, sources=[], defines=defs, unwind=6,
             instrument=_pins(), timeout=600, mem_gb=4, cbmc=["--object-bits", "10", "--no-standard-checks"],
             desc="%s: %s on a %s event (state %d) by thread %d%s" % (entry, op, kind, st, thread, "" if bs == 0 else ", base variant %d" % bs))
    d.update(kw)
    if _T: d["timeout"] = _T
    return d

def obligations(tier):
    obs = []
    W = "wakeup"
    # (ii) wake-up
    for kind in ("io", "timer", "sig"):
        for st in (0, 1, 2):
            obs.append(_ob(W, "ADD", kind, st, tv=True))
            obs.append(_ob(W, "DEL", kind, st))
            obs.append(_ob(W, "ACTIVE", kind, st))
    for op in ("LOOPBREAK", "LOOPCONTINUE", "DEFERRED", "NOOP", "ADD_VIRTUAL", "ACTIVE_LATER", "DEL_BLOCK", "DEL_NOBLOCK"):
        obs.append(_ob(W, op))
    obs.append(_ob(W, "LOOPEXIT", tv=True))
    obs.append(_ob(W, "ONCE", tv=True))
    obs.append(_ob(W, "DEL_LAST", "io", 1, bs=1))
    obs.append(_ob(W, "DEL_LAST", "timer", 1, bs=1))
    obs.append(_ob(W, "DEL_VIRTUAL", bs=2))
    obs.append(_ob(W, "ADD", "io", 0, bs=2, tv=True))
    for op in ("ADD", "DEL", "ACTIVE", "LOOPBREAK", "DEFERRED"):
        obs.append(_ob(W, op, thread=1, tv=(op == "ADD")))
    # (iii) del waits
    D = "delwait"
    for kind in ("io", "iofin", "timer", "sig"):
        for op in ("DEL", "DEL_BLOCK", "DEL_NOBLOCK"):
            for th in (2, 1):
                obs.append(_ob(D, op, kind, 2, th))
    obs.append(_ob(D, "DEL_OTHER", "io", 2, 2))
    for th in (2, 1):
        obs.append(_ob(D, "ADD", "sig", 2, th))
        obs.append(_ob(D, "ACTIVE", "sig", 2, th))
    obs.append(_ob(D, "ADD", "io", 2, 2))
    obs.append(_ob(D, "ACTIVE", "io", 2, 2))
    # a spurious condition wake-up (POSIX allows it) must not let event_del return while the callback still runs
    # (was a defect: single `if`-guarded wait; fixed in /repo by waiting in a loop, fixes/C09-del-wait-loop.diff)
    for op in ("DEL", "DEL_BLOCK"):
        obs.append(_ob("delwait_spurious", op, "io", 2, 2))
    if tier != "quick":
        for o in list(obs):
            if (o["name"].startswith("delwait_del") or "_add_" in o["name"]):
                n = dict(o); n["name"] += "_ndebug"; n["ndebug"] = True; n["desc"] += " (NDEBUG build)"; obs.append(n)
    return obs
