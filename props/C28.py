ID = "C28"
LEVEL = "model_checking"
TECHNIQUE = "CBMC bounded symbolic execution of http.c's URI parser/joiner/setters vs an RFC 3986 reference split (compositional: evbuffer contract model, IPv6 text oracle)"
UNITS = ["http.c", "evutil.c"]
FUNCTIONS = ["evhttp_uri_parse_with_flags", "parse_authority", "end_of_authority", "end_of_path", "scheme_ok", "userinfo_ok",
             "regname_ok", "parse_port", "bracket_addr_ok", "path_matches_noscheme", "evhttp_uri_join", "evhttp_uri_set_*", "evhttp_uri_free"]
BOUNDS = "work in progress"
OUT = "work in progress"
TEXT = "work in progress"
NOTE = ""
ASSUMPTIONS = []
DESIGN_REF = "DESIGN.md §5 C28"

def parse_ob(name, n, prefix="", flags=None, extra=(), timeout=900, mem=6, desc="", solver="cadical"):
    L = len(prefix) + n
    J = 2 * L + 2
    B = J + 2
    d = ["VP_N=%d" % n, "VP_STR_OBJ=%d" % (L + 2), "VP_BYTES_MAX=%d" % B, "VP_EVP_MAX=%d" % (L + 8)] + list(extra)
    if prefix: d.append('VP_PREFIX="%s"' % prefix)
    if flags is not None: d.append("VP_FLAGS=%d" % flags)
    us = ["vpb_init.0:%d" % (2 * B + 1), "vpb_append.0:%d" % (2 * B + 1), "evbuffer_remove.0:%d" % (B + 1),
          "vp_opt_streq.0:%d" % (J + 2), "vp_evp_num.0:7", "vp_evp_num.1:7", "vp_evp_num.2:7", "parse_port.0:%d" % (L + 1), "strchr.0:%d" % max(L + 2, 13)]
    return dict(name=name, harness="C28_uri.c", entry="harness_parse", defines=d, unwind=L + 3, unwindset=us,
                cbmc=["--object-bits", "10"], solver=solver, timeout=timeout, mem_gb=mem, desc=desc)

def setters_ob(name, ks=1, ku=1, kh=2, kx=-1, kp=3, kq=1, kf=1, flags=None, extra=(), timeout=900, mem=6, desc="", solver="cadical"):
    pos = lambda k: max(k, 0)
    J = pos(ks) + pos(ku) + pos(kh) + pos(kx) + pos(kp) + pos(kq) + pos(kf) + 22
    B = J + 2
    d = ["VP_KS=%d" % ks, "VP_KU=%d" % ku, "VP_KH=%d" % kh, "VP_KX=%d" % kx, "VP_KP=%d" % kp, "VP_KQ=%d" % kq, "VP_KF=%d" % kf,
         "VP_N=%d" % J, "VP_STR_OBJ=%d" % (J + 2), "VP_BYTES_MAX=%d" % B, "VP_EVP_MAX=%d" % 24] + list(extra)
    if flags is not None: d.append("VP_FLAGS=%d" % flags)
    us = ["vpb_init.0:%d" % (2 * B + 1), "vpb_append.0:%d" % (2 * B + 1), "evbuffer_remove.0:%d" % (B + 1),
          "vp_opt_streq.0:%d" % (2 * J + 5), "vp_evp_num.0:7", "vp_evp_num.1:7", "vp_evp_num.2:7", "strchr.0:%d" % max(J + 2, 13),
          "vp_component.0:9", "evbuffer_add_vprintf.0:8", "evbuffer_add_vprintf.1:4", "evbuffer_add_vprintf.2:%d" % (J + 2)]
    return dict(name=name, harness="C28_uri.c", entry="harness_setters", defines=d, unwind=J + 3, unwindset=us,
                cbmc=["--object-bits", "10"], solver=solver, timeout=timeout, mem_gb=mem, desc=desc)

def obligations(tier):
    q = tier == "quick"
    RT, SP = ["VP_ONLY_ROUNDTRIP"], ["VP_ONLY_SPLIT"]
    ns, nr, na, nu = (6, 4, 4, 3) if q else (8, 7, 7, 6)
    T = 900 if q else 2400
    obs = [
        parse_ob("split_any", ns, extra=SP + ["VP_WIT_SCHEME"], timeout=T,
                 desc="RFC 3986 components + completeness: any string <= %d bytes, all 8 flag combinations" % ns),
        parse_ob("split_auth", ns, prefix="//", extra=SP + ["VP_WIT_PORT", "VP_WIT_V6"], timeout=T,
                 desc="RFC 3986 components + completeness: '//' + any string <= %d bytes, all 8 flag combinations" % ns),
        parse_ob("rt_any", nr, extra=RT + ["VP_WIT_SCHEME"], timeout=T,
                 desc="parse-join-parse: any string <= %d bytes, all 8 flag combinations" % nr),
        parse_ob("rt_auth", na, prefix="//", extra=RT + ["VP_WIT_PORT"], timeout=T,
                 desc="parse-join-parse: '//' + any string <= %d bytes, all 8 flag combinations" % na),
        parse_ob("unix", nu, prefix="//unix:", flags=8, extra=["VP_WIT_UNIX"], timeout=T,
                 desc="components + parse-join-parse: '//unix:' + any string <= %d bytes, UNIX_SOCKET" % nu),
        setters_ob("setters", timeout=T, desc="setters then join: scheme<=1 userinfo<=1 host<=2 path<=3 query<=1 fragment<=1 bytes, any port in [-2,70000], all flags"),
    ]
    return obs
