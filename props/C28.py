ID = "C28"
LEVEL = "model_checking"
TECHNIQUE = "CBMC bounded symbolic execution of http.c's URI parser/joiner/setters vs an RFC 3986 reference split (compositional: evbuffer contract model, IPv6 text oracle)"
UNITS = ["http.c", "evutil.c"]
FUNCTIONS = ["evhttp_uri_parse_with_flags", "parse_authority", "end_of_authority", "end_of_path", "scheme_ok", "userinfo_ok",
             "regname_ok", "parse_port", "bracket_addr_ok", "path_matches_noscheme", "evhttp_uri_join", "evhttp_uri_set_*", "evhttp_uri_free"]
BOUNDS = "work in progress"
OUT = "work in progress"
TEXT = "work in progress"
NOTE = ""
ASSUMPTIONS = []
DESIGN_REF = "DESIGN.md §5 C28"

def parse_ob(name, n, prefix="", flags=None, extra=(), timeout=900, mem=6, desc="", solver="cadical"):
    L = len(prefix) + n
    J = 2 * L + 2
    B = J + 2
    d = ["VP_N=%d" % n, "VP_STR_OBJ=%d" % (L + 2), "VP_BYTES_MAX=%d" % B, "VP_EVP_MAX=%d" % (L + 8)] + list(extra)
    if prefix: d.append('VP_PREFIX="%s"' % prefix)
    if flags is not None: d.append("VP_FLAGS=%d" % flags)
    us = ["vpb_init.0:%d" % (2 * B + 1), "vpb_append.0:%d" % (2 * B + 1), "evbuffer_remove.0:%d" % (B + 1),
          "vp_opt_streq.0:%d" % (J + 2), "vp_evp_num.0:7", "vp_evp_num.1:7", "vp_evp_num.2:7", "parse_port.0:%d" % (L + 1), "strchr.0:%d" % max(L + 2, 13)]
    return dict(name=name, harness="C28_uri.c", entry="harness_parse", defines=d, unwind=L + 3, unwindset=us,
                cbmc=["--object-bits", "10"], solver=solver, timeout=timeout, mem_gb=mem, desc=desc)

def obligations(tier):
    n = 6 if tier == "quick" else 8
    RT = ["VP_ONLY_ROUNDTRIP"]
    obs = [parse_ob("split_any", n, extra=["VP_ONLY_SPLIT"], desc="RFC 3986 components: any string <= %d bytes, all 8 flag combinations" % n),
           parse_ob("rt_any", n - 1, extra=RT, desc="parse-join-parse: any string <= %d bytes, all 8 flag combinations" % (n - 1)),
           parse_ob("rt_auth", n - 1, prefix="//", extra=RT + ["VP_WIT_PORT"], desc="parse-join-parse: '//' + any string <= %d bytes, all 8 flag combinations" % (n - 1)),
           parse_ob("split_auth", n, prefix="//", extra=["VP_ONLY_SPLIT"], desc="RFC 3986 components: '//' + any string <= %d bytes, all 8 flag combinations" % n),
           parse_ob("unix", 4, prefix="//unix:", flags=8, extra=["VP_WIT_UNIX"], desc="'//unix:' + any string <= 4 bytes, UNIX_SOCKET"),
    ]
    return obs
