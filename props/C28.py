ID = "C28"
LEVEL = "model_checking"
TECHNIQUE = "CBMC bounded symbolic execution of http.c's URI parser/joiner/setters vs an RFC 3986 reference split (compositional: evbuffer contract model, IPv6 text oracle)"
UNITS = ["http.c", "evutil.c"]
FUNCTIONS = ["evhttp_uri_parse_with_flags", "parse_authority", "end_of_authority", "end_of_path", "scheme_ok", "userinfo_ok",
             "regname_ok", "parse_port", "bracket_addr_ok", "path_matches_noscheme", "evhttp_uri_join", "evhttp_uri_set_*", "evhttp_uri_free"]
BOUNDS = ("quick: RFC-components check on any string <= 6 bytes and '//'+<=5; parse-join-parse on any string <= 4, '//'+<=4, '//unix:'+<=3; "
          "setters with component strings of 1-3 bytes and ports from small ranges incl. 65534..65537. thorough: 8 / '//'+7; round trips 6 / '//'+6 / '//unix:'+5 / "
          "'//u@unix:'+3 / '//['+4; larger setter shapes incl. IP-literals under HOST_STRIP_BRACKETS. Every byte symbolic (0x01-0xff), all 8 combinations of "
          "NONCONFORMANT|HOST_STRIP_BRACKETS|UNIX_SOCKET symbolic unless the description names one")
OUT = ("strings longer than the bounds; the syntax of IPv6 addresses inside brackets (evutil_inet_pton is cut and replaced by an oracle that gives one verdict per run; C40 "
       "is the property about that syntax); buffer.c (the evbuffer used by evhttp_uri_join is the contract model established by C12); allocation failure; "
       "a unix socket set on a URI whose flags lack EVHTTP_URI_UNIX_SOCKET (join writes it, but 'parse with the same flags' cannot read the extension back); "
       "changing the flags between setters; evhttp_uri_parse_authority (CONNECT targets) is only covered through the shared parse_authority")
TEXT = ("split_*: for every accepted string the string is a valid URI-reference per RFC 3986 (plus the two documented extensions) and scheme, userinfo, host, "
        "unix socket, port, path, query, fragment are exactly the components of the reference split (ref/rfc3986_ref.h, appendix B + section 3 ABNF); for every refused "
        "string the reference says invalid or port > 65535 (completeness). rt_* / unix*: evhttp_uri_join of a parsed URI succeeds and the result parses with the same "
        "flags into identical components; evhttp_uri_free releases everything. set_*: after the setters accepted a set of components, the getters return them, "
        "and evhttp_uri_join either refuses or produces a string that parses (same flags) into exactly those components; a refusing setter leaves the URI unchanged. host_seq: evhttp_uri_set_host on a URI that already has a host (parsed '//[::]:8/p' or set before; "
        "HOST_STRIP_BRACKETS state included) -- the joined URI parses into the current components, nothing of the replaced host (its brackets) survives. "
        "join_limit: evhttp_uri_join succeeds exactly when text + NUL fit into `limit`, "
        "never writes at or behind buf[limit], and its text does not depend on the limit.")
NOTE = ("FINDINGS (all reproduced natively, fixed in /repo): (1) UNIX_SOCKET URIs lost path/query/fragment -- 'http://unix:/run/control.sock:/controller' parsed with "
        "path '/run/control.sock' (fixes/C28-unixsocket-path); (2) IPvFuture grammar: '[v8.]' accepted, '[V1.o]' refused (fixes/C28-ipvfuture-grammar); (3) setters + join "
        "wrote URIs that parse into different components: port > 65535, path '//x' or 'a:b' without authority/scheme, userinfo/port without host, unix socket with ':' / '@' "
        "/ relative path / host (fixes/C28-join-roundtrip). The obligations unix, split_auth, set_noauth, set_qf, set_nohost, set_bigport, set_unix fail on the "
        "tree before those commits. (4) under EVHTTP_URI_UNIX_SOCKET a setter-built host 'unix' with a port joined into '//unix:8/p', which parses as the "
        "unix-socket form (fixes/C28-join-host-named-unix; host_seq fails without it). A path that was never set (NULL) compares equal to the parsed empty path. Port 65535 is the largest accepted (implementation limit, "
        "RFC 3986 has *DIGIT). Trusted: cbmc, env/http_fmt.h, env/http_stralloc.h, env/evbuf_contract*.h, ref/rfc3986_ref.h, the IPv6 oracle.")
ASSUMPTIONS = ["allocation does not fail", "evbuffer API behaves as documented (contract model, property C12)",
               "evutil_inet_pton(AF_INET6) is a deterministic function of its text that accepts only texts over HEXDIG ':' '.' of length >= 2 (property C40)",
               "input strings are NUL-terminated and within the stated bounds"]
DESIGN_REF = "DESIGN.md §5 C28"

def parse_ob(name, n, prefix="", flags=None, extra=(), timeout=900, mem=3, desc="", solver="cadical"):
    L = len(prefix) + n
    J = 2 * L + 2
    B = J + 2
    d = ["VP_N=%d" % n, "VP_STR_OBJ=%d" % (L + 2), "VP_BYTES_MAX=%d" % B, "VP_EVP_MAX=%d" % (L + 8)] + list(extra)
    if prefix: d.append('VP_PREFIX="%s"' % prefix)
    if flags is not None: d.append("VP_FLAGS=%d" % flags)
    us = ["vpb_init.0:%d" % (2 * B + 1), "vpb_append.0:%d" % (2 * B + 1), "evbuffer_remove.0:%d" % (B + 1),
          "vp_opt_streq.0:%d" % (J + 2), "vp_evp_num.0:7", "vp_evp_num.1:7", "vp_evp_num.2:7", "parse_port.0:%d" % (L + 1), "strchr.0:%d" % max(L + 2, 13)]
    return dict(name=name, harness="C28_uri.c", entry="harness_parse", defines=d, unwind=L + 3, unwindset=us,
                cbmc=["--object-bits", "10"], solver=solver, timeout=timeout, mem_gb=mem, desc=desc)

def setters_ob(name, ks=-1, ku=-1, kh=-1, kx=-1, kp=-1, kq=-1, kf=-1, port=None, flags=None, extra=(), timeout=900, mem=3, desc="", solver="cadical"):
    """k* = longest string the solver may set for that component (-1: never set); port = (lo, hi) or None"""
    pos = lambda k: max(k, 0)
    plen = 0 if port is None else 1 + max(len(str(port[0])), len(str(port[1])))
    # scheme ":"  "//" userinfo "@" host|"unix:" sock ":"  ":" port  path  "?" query  "#" fragment  NUL
    J = (pos(ks) + 1 if ks >= 0 else 0) + (2 if (kh >= 0 or kx >= 0) else 0) + (pos(ku) + 1 if ku >= 0 else 0) + \
        max(pos(kh), pos(kx) + 6 if kx >= 0 else 0) + plen + pos(kp) + (pos(kq) + 1 if kq >= 0 else 0) + (pos(kf) + 1 if kf >= 0 else 0) + 1
    B = J + 2
    d = ["VP_KS=%d" % ks, "VP_KU=%d" % ku, "VP_KH=%d" % kh, "VP_KX=%d" % kx, "VP_KP=%d" % kp, "VP_KQ=%d" % kq, "VP_KF=%d" % kf,
         "VP_SJMAX=%d" % J, "VP_N=%d" % J, "VP_STR_OBJ=%d" % (J + 2), "VP_BYTES_MAX=%d" % B, "VP_EVP_MAX=%d" % (J + 8)] + list(extra)
    d += ["VP_PORT_LO=%d" % (port[0] if port else 0), "VP_PORT_HI=%d" % (port[1] if port else -1)]
    if flags is not None: d.append("VP_FLAGS=%d" % flags)
    us = ["vpb_init.0:%d" % (2 * B + 1), "vpb_append.0:%d" % (2 * B + 1), "evbuffer_remove.0:%d" % (B + 1),
          "vp_opt_streq.0:%d" % (2 * J + 5), "vp_evp_num.0:7", "vp_evp_num.1:7", "vp_evp_num.2:7", "strchr.0:%d" % max(J + 2, 13),
          "vp_component.0:9", "evbuffer_add_vprintf.0:8", "evbuffer_add_vprintf.1:4", "evbuffer_add_vprintf.2:%d" % (J + 2)]
    return dict(name=name, harness="C28_uri.c", entry="harness_setters", defines=d, unwind=J + 3, unwindset=us,
                cbmc=["--object-bits", "10"], solver=solver, timeout=timeout, mem_gb=mem, desc=desc)

def obligations(tier):
    q = tier == "quick"
    RT, SP = ["VP_ONLY_ROUNDTRIP"], ["VP_ONLY_SPLIT"]
    ns, nr, na, nu = (5, 4, 3, 2) if q else (6, 5, 5, 4)
    T = 900 if q else 3000
    obs = [
        parse_ob("split_any", ns + 1, extra=SP + ["VP_WIT_SCHEME"], timeout=T,
                 desc="RFC 3986 components + completeness: any string <= %d bytes, all 8 flag combinations" % (ns + 1)),
        parse_ob("split_auth", ns, prefix="//", extra=SP + ["VP_WIT_PORT"] + (["VP_WIT_V6"] if ns >= 6 else []), timeout=T,
                 desc="RFC 3986 components + completeness: '//' + any string <= %d bytes, all 8 flag combinations" % ns),
        parse_ob("rt_any", nr, extra=RT + (["VP_WIT_SCHEME"] if nr >= 6 else []), timeout=T,
                 desc="parse-join-parse: any string <= %d bytes, all 8 flag combinations" % nr),
        parse_ob("rt_auth", na, prefix="//", extra=RT + ["VP_WIT_PORT"], timeout=T,
                 desc="parse-join-parse: '//' + any string <= %d bytes, all 8 flag combinations" % na),
        parse_ob("unix", nu, prefix="//unix:", flags=8, extra=["VP_WIT_UNIX"] + (["VP_NO_WIT_QF", "VP_ONLY_SPLIT"] if q else []), timeout=T, mem=3 if q else 5,
                 desc="components%s: '//unix:' + any string <= %d bytes, UNIX_SOCKET" % ("" if q else " + parse-join-parse", nu)),
        dict(setters_ob("join_limit", kh=1 if q else 2, kp=2 if q else 3, kq=-1 if q else 1, flags=1, timeout=T, desc="evhttp_uri_join size limit: host, path%s set through the setters, any limit up to the buffer size" % ("" if q else ", query")), entry="harness_join_limit", unwind=12 if q else 18),
        dict(setters_ob("host_seq", kh=4, kp=2, port=(8, 8), timeout=T, extra=["VP_KH2=4", "VP_WIT_V6"],
                        desc="host replaced on a URI that already has one: first host from parse('//[::]:8/p') or set_host(<=4 bytes), then set_host(<=4 bytes or NULL), join, parse; all 8 flag combinations"),
             entry="harness_host_seq"),
        setters_ob("set_noauth", ks=1, kp=3, extra=["VP_WIT_REL"], timeout=T, desc="setters+join, no authority: scheme<=1, path<=3 bytes, all flags"),
        setters_ob("set_qf", kp=1, kq=1, kf=1, extra=["VP_WIT_REL"], timeout=T, desc="setters+join: path<=1 query<=1 fragment<=1, all flags"),
        setters_ob("set_nohost", ku=1, port=(-2, 9), kp=1, timeout=T, desc="setters+join, userinfo/port without host: userinfo<=1, port in [-2,9], path<=1"),
        setters_ob("set_bigport", kh=0 if q else 1, port=(65534, 65537), timeout=T, desc="setters+join: host<=%d, port in [65534,65537]" % (0 if q else 1)),
    ]
    if q:
        obs += [
            setters_ob("set_host", ku=1, kh=1, port=(-2, 9), kp=1, extra=["VP_WIT_FULL"], timeout=T, desc="setters+join: userinfo<=1 host<=1 port in [-2,9] path<=1, all flags"),
            setters_ob("set_unix", ku=0, kh=0, kx=1, port=(-1, 0), kp=1, flags=8, timeout=T, desc="setters+join, UNIX_SOCKET: userinfo<=0 host<=0 socket<=1 port in [-1,0] path<=1"),
        ]
    else:
        obs += [
            parse_ob("unix_ui", 3, prefix="//u@unix:", flags=8, extra=["VP_WIT_UNIX", "VP_WIT_UNIX_UI"], timeout=T,
                     desc="components + parse-join-parse: '//u@unix:' + any string <= 3 bytes, UNIX_SOCKET"),
            parse_ob("split_v6", 4, prefix="//[", extra=SP + ["VP_WIT_V6ONLY", "VP_NO_WIT_QF"], timeout=T,
                     desc="RFC 3986 components + completeness: '//[' + any string <= 4 bytes (IP-literals), all 8 flag combinations"),
            parse_ob("rt_v6", 4, prefix="//[", extra=RT + ["VP_WIT_V6ONLY", "VP_NO_WIT_QF"], timeout=T,
                     desc="parse-join-parse: '//[' + any string <= 4 bytes (IP-literals, HOST_STRIP_BRACKETS), all 8 flag combinations"),
            setters_ob("set_host", ku=1, kh=2, port=(-2, 99), kp=2, extra=["VP_WIT_FULL"], timeout=T, desc="setters+join: userinfo<=1 host<=2 port in [-2,99] path<=2, all flags"),
            setters_ob("set_unix", ku=1, kh=0, kx=2, port=(-1, 0), kp=2, flags=8, timeout=T, desc="setters+join, UNIX_SOCKET: userinfo<=1 host<=0 socket<=2 port in [-1,0] path<=2"),
            setters_ob("set_v6", kh=4, port=(-1, 1), kp=1, extra=["VP_WIT_V6"], flags=4, timeout=T, desc="setters+join, HOST_STRIP_BRACKETS: host<=4 (IP-literals) port in [-1,1] path<=1"),
            dict(parse_ob("split_any_ndebug", ns, extra=SP, timeout=T, desc="NDEBUG twin of split_any at <= %d bytes" % ns), ndebug=True),
        ]
    # longest first: the driver starts jobs in list order, this keeps the tail of the schedule short
    heavy = ["set_unix", "host_seq", "set_host", "rt_auth", "rt_any", "unix", "unix_ui", "rt_v6", "split_any", "split_auth"]
    obs.sort(key=lambda o: heavy.index(o["name"]) if o["name"] in heavy else len(heavy))
    return obs
