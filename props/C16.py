"""C16: evbuffer socket I/O -- evbuffer_read / evbuffer_write(_atmost) with the system calls stubbed to their contract."""
import os, importlib.util
_s = importlib.util.spec_from_file_location("prop_C12_for_C16", os.path.join(os.path.dirname(__file__), "C12.py"))
_c12 = importlib.util.module_from_spec(_s); _s.loader.exec_module(_c12)

ID = "C16"
LEVEL = "model_checking"
TECHNIQUE = ("CBMC bounded symbolic execution of buffer.c (real code, MIN_BUFFER_SIZE scaled to 64) with ioctl(FIONREAD)/read/readv/write/writev/sendfile "
             "replaced by contract stubs (env/sock_io.h: -1+errno, 0, or any count in 1..requested; data symbolic); concrete buffer-building prefix, then ONE "
             "evbuffer_read / evbuffer_write_atmost whose size argument is case-split (solver-chosen case) and whose system-call result is symbolic; "
             "oracle = byte-string model ref/bytes.h + chain invariant env/evbuf_inv.h")
UNITS = ["buffer.c", "evbuffer-internal.h", "include/event2/buffer.h"]
FUNCTIONS = ["evbuffer_read", "evbuffer_read_setup_vecs_", "get_n_bytes_readable_on_socket", "evbuffer_expand_fast_", "evbuffer_write_atmost", "evbuffer_write",
             "evbuffer_write_iovec", "evbuffer_write_sendfile", "evbuffer_drain", "evbuffer_add_file_segment", "evbuffer_file_segment_new", "evbuffer_set_max_read"]
BOUNDS = ("10 buffer shapes (empty; partially filled / full / misaligned chain; two chains; reference chain first or last; sendfile chain first (whole and partly sent, file longer than the range, data following) or last), "
          "16-byte chains, <= 20 stored bytes; read: howmuch in {-1,0,1,5,12,17,30} x FIONREAD in {fails,0,3,20,5000}, max_read 24, <= 4 iovecs; "
          "write: howmuch in {-1 (evbuffer_write),0,1,3,4,7,100}; every system-call outcome (EINTR/EAGAIN/ECONNRESET/EPIPE, 0, any short count)")
OUT = ("sequences of several I/O calls on one buffer (each call is checked from concrete pre-states that include the shapes a short write leaves behind); "
       "production chain size; frozen buffers (C12); more than 4 chains offered to writev (NUM_WRITE_IOVEC=128 is not reached); non-Linux sendfile variants; "
       "file contents actually delivered by sendfile (the kernel's job; only fd, offset and count are checked)")
TEXT = ("From every listed buffer shape, for every listed size argument and every system-call outcome: evbuffer_read issues one read/readv that never asks "
        "for more than min(howmuch, max_read, FIONREAD) bytes, writes only into free chain space (never into referenced memory), and appends exactly the bytes "
        "the kernel returned; evbuffer_write/_atmost offers only the buffer's first bytes in order, never more than howmuch, and removes exactly the accepted "
        "prefix; a failed or empty call leaves length, contents and chain invariant unchanged; the return value is the system call's.")
NOTE = ("Trusted: cbmc 6.11, env/sock_io.h (system-call contract), env/evbuf_alloc.h, env/evbuf_copy.h, ref/bytes.h, LP64. Assert-enabled encoding; NDEBUG twins "
        "in the thorough tier. Finding KF-C16-sendfile-howmuch is isolated in obligation write_shape8_kf (fails on the unpatched tree, passes with "
        "fixes/C16-sendfile-howmuch.diff).")
ASSUMPTIONS = ["system calls behave per env/sock_io.h", "library heap objects have the literal size VP_OBJ=160", "locking disabled, no callbacks, buffer not frozen",
               "allocation never fails", "Linux sendfile(out,in,&off,count) variant (as configured in /repo/_build)"]
DESIGN_REF = "DESIGN.md §5 C16, §3.3, §3.4"

VP_OBJ = 160
H = "C16_socket_io.c"
SHAPES = {1: "empty", 2: "add(5)", 3: "add(16) full chain", 4: "add(3)+reference(4)", 5: "add(20) two chains", 6: "add(5)+drain(2) misaligned",
          7: "reference(4)+add(3)", 8: "sendfile chain(6)+add(3)", 9: "add(3)+sendfile chain(6)", 10: "sendfile chain(6)+add(3)+drain(2): partly sent sendfile chain"}
LOOPS = {"vp_bytes.0": 26, "vpb_init.0": 130, "vpb_append.0": 130, "vp_evb_byte.0": 8, "vp_evb_check.0": 8, "compare.0": 5, "add_ref.0": 5,
         "harness_read.0": 28, "harness_read.1": 28, "harness_read.2": 28, "harness_write.0": 24, "harness_write.1": 24, "vp_io_readv.0": 50, "vp_io_readv.1": 50, "vp_io_readv.2": 50,
         "vp_io_writev.0": 50, "vp_io_writev.1": 50, "vp_io_writev.2": 50, "vp_io_pread.0": 18, "vp_io_mmap.0": 26}

def ob(name, entry, defs, desc, ndebug=False, timeout=900, mem_gb=8, **kw):
    o = dict(name=name + ("__ndebug" if ndebug else ""), harness=H, entry=entry,
             defines=["LIBEVENT_VERIF_MIN_BUFFER_SIZE=64", "VP_OBJ=%d" % VP_OBJ] + defs,
             desc=desc + (" (NDEBUG build)" if ndebug else ""), unwind=6,
             unwindset=["evbuffer_chain_free:1", "evbuffer_decref_and_unlock_:1", "evbuffer_file_segment_free:2"] +
                       ["%s:%d" % (l, n) for l, n in sorted(LOOPS.items())] + ["%s:%d" % (l, 30) for l in _c12.COPY_LOOPS],
             cbmc=["--max-field-sensitivity-array-size", str(VP_OBJ), "--object-bits", "10"],
             instrument=[["--replace-calls", "evbuffer_decref_and_unlock_:vp_cut_decref"]],
             solver="cadical",     # minisat needs 520 s where cadical needs 24 s (write_shape2)
             timeout=timeout, mem_gb=mem_gb, ndebug=ndebug)
    o.update(kw)
    return o

KF_TEXT = ["C16: sendfile asked to send more bytes than requested", "C16: bytes offered to the kernel exceed the request", "C16: evbuffer_write removed more than requested"]

HM_R = [-1, 0, 1, 5, 12, 17, 30]
FR = ["fails", "0", "3", "20", "5000"]
HM_W = [-1, 0, 1, 3, 4, 7, 100]

def obligations(tier):
    obs = []
    if tier == "quick":
        rplan = [(s, f) for s in (1, 2, 4, 5, 8) for f in (0, 2, 4)]
        wplan = [(s, h) for s in (1, 2, 3, 4, 5, 6, 7, 9) for h in (0, 4)] + [(8, 5), (10, 0)]
        twins = []
    else:
        rplan = [(s, f) for s in SHAPES if s != 10 for f in range(5)]
        wplan = [(s, h) for s in SHAPES for h in range(7) if not (s == 8 and h in (2, 3, 4)) and not (s == 10 and h in (2, 3))]
        twins = [("r", 2, 2), ("r", 4, 4), ("w", 5, 0), ("w", 7, 4), ("w", 8, 5)]
    for s, f in rplan:
        obs.append(ob("read_shape%d_fion%s" % (s, FR[f]), "harness_read", ["VP_READ", "SHAPE=%d" % s, "VP_FRI=%d" % f],
                      "evbuffer_read from [%s], FIONREAD %s, howmuch in %s" % (SHAPES[s], FR[f], HM_R)))
    for s, h in wplan:
        obs.append(ob("write_shape%d_hm%d" % (s, HM_W[h]), "harness_write", ["VP_WRITE", "SHAPE=%d" % s, "VP_HMI=%d" % h] + (["KF_EXCLUDE_SENDFILE_HOWMUCH"] if s in (8, 10) else []) + (["VP_NO_PROGRESS"] if HM_W[h] == 0 else []),
                      "evbuffer_write%s from [%s], every accepted count" % ("" if HM_W[h] == -1 else "_atmost(howmuch=%d)" % HM_W[h], SHAPES[s])))
    for k, s, x in twins:
        if k == "r":
            obs.append(ob("read_shape%d_fion%s" % (s, FR[x]), "harness_read", ["VP_READ", "SHAPE=%d" % s, "VP_FRI=%d" % x], "evbuffer_read from [%s], FIONREAD %s" % (SHAPES[s], FR[x]), ndebug=True))
        else:
            obs.append(ob("write_shape%d_hm%d" % (s, HM_W[x]), "harness_write", ["VP_WRITE", "SHAPE=%d" % s, "VP_HMI=%d" % x] + (["KF_EXCLUDE_SENDFILE_HOWMUCH"] if s in (8, 10) else []),
                          "evbuffer_write_atmost(howmuch=%d) from [%s]" % (HM_W[x], SHAPES[s]), ndebug=True))
    # finding KF-C16-sendfile-howmuch: fails on the unpatched tree (expect_fail), passes with fixes/C16-sendfile-howmuch.diff
    obs.append(ob("write_shape8_kf", "harness_write", ["VP_WRITE", "SHAPE=8", "VP_HMI=3", "KF_ONLY_SENDFILE_HOWMUCH"],
                  "evbuffer_write_atmost(howmuch=3) with a leading 6-byte sendfile chain (KF-C16-sendfile-howmuch)",
                  expect_fail=KF_TEXT, known_finding="KF-C16-sendfile-howmuch"))
    return obs
