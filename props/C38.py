ID = "C38"
LEVEL = "model_checking"
TECHNIQUE = ("CBMC bounded symbolic execution of evdns_getaddrinfo and its helpers on an evdns_base built through the API; A/AAAA answers are "
             "delivered through reply_handle + the deferred callback; evutil's addrinfo list helpers are a typed transcription "
             "(env/addrinfo_model.h), the numeric fast path a contract stub in the evdns harness and real evutil.c code in C38_numeric.c")
UNITS = ["evdns.c", "evutil.c"]
FUNCTIONS = ["evdns_getaddrinfo", "evdns_getaddrinfo_fromhosts", "find_hosts_entry", "evdns_getaddrinfo_gotresolve", "evdns_cache_write",
             "evdns_cache_lookup", "evdns_ttl_expired", "evdns_cache_free", "add_cname_to_reply", "free_getaddrinfo_request",
             "evdns_base_resolve_ipv4", "evdns_base_resolve_ipv6", "reply_handle", "reply_run_callback",
             "evutil_getaddrinfo_common_", "evutil_parse_servname"]
BOUNDS = ("one name (\"a\"), family hint UNSPEC/INET/INET6, socktype fixed (TCP) or open, 0..2 A and 0..2 AAAA addresses with solver-chosen "
          "bytes, TTLs 1..100000 and port, either arrival order, NXDOMAIN/NODATA on one or both sides; hosts file of 4 lines; cache: one entry, "
          "hit, expiry, miss")
OUT = ("the asynchronous interplay with live requests (timeouts, the allow-skew timer evdns_getaddrinfo_timeout_cb, cancellation: C34 covers "
       "the request side), CNAME chains / EVUTIL_AI_CANONNAME, AI_ADDRCONFIG (evutil_adjust_hints_for_addrconfig_ is a no-op here), search "
       "domains, allocation failure, the system resolver behind EVUTIL_AI_NUMERICHOST (contract stub), evutil.c's list helpers themselves "
       "(transcribed model)")
TEXT = ("evdns_getaddrinfo answers numeric / NULL-node lookups without any query and with exactly the fast path's answer; hosts entries win over "
        "DNS; otherwise the callback runs exactly once after the last wanted answer with the A addresses followed by the AAAA addresses allowed "
        "by the family hint, each with the service port and the socktype/protocol of the hints; the answer is cached, served again within the "
        "TTL (same addresses, requested port, family filter) and not after it.")
NOTE = ("Findings: KF-C38-cache-dup (a list cached from an open-socktype lookup holds a TCP and a UDP entry per address; evdns_cache_lookup expands EACH of them again, so the cached answer has every address twice as often as the original); KF-C38-port-pair (answers from the hosts file and from the cache carry port 0 on the UDP entry of a TCP+UDP pair); KF-C38-cache-ttl: the merged A+AAAA answer is cached with the TTL of whichever answer arrived FIRST "
        "(res_ttl = data->pending_result_ttl), not with the smaller one, so addresses are served from the cache after their TTL.")
ASSUMPTIONS = ["transaction ids concrete (see C34)", "sends succeed", "allocation does not fail",
               "evutil_getaddrinfo_common_ behaves as decided in C38_numeric.c (returns an answer, an error, or EVUTIL_EAI_NEED_RESOLVE with the port)"]
DESIGN_REF = "DESIGN.md §5 C38"

US = ["vpe_timeout_set.0:10", "vpe_timeout_of.0:10", "nameserver_pick.3:4", "transaction_id_pick.2:3", "vpe_strlen.0:26", "vpe_strncmp.0:26", "vpd_calloc.0:15", "evdns_base_set_max_requests_inflight.4:15",
      "vpd_memcpy.0:130", "vpd_memcpy_var.0:30", "vpd_memset.0:130", "vpe_memcpy.0:30", "vpd_check_write.0:10", "vpe_strcasecmp.0:3", "evdns_tree_SPLAY.4:3", "vpd_strdup.0:3", "vpd_strdup.1:4", "evdns_cache_lookup.1:6", "evutil_addrinfo_append_.0:9", "evutil_freeaddrinfo.0:10", "evutil_dup_addrinfo_.0:10"]

def ob(name, entry, desc, fam=0, socktype=1, extra=(), **kw):
    defs = ["C38_FAMILY=%d" % fam, "C38_SOCKTYPE=%d" % socktype] + list(extra)
    d = dict(name=name, harness="C38_gai.c", entry=entry, desc=desc + " [hints: family %s, socktype %s]" % ({0: "UNSPEC", 4: "INET", 6: "INET6"}[fam], "STREAM/TCP" if socktype else "open"),
             defines=defs, unwind=18, unwindset=list(US),
             cbmc=["--memory-leak-check", "--object-bits", "10", "--max-field-sensitivity-array-size", "136"], timeout=900, mem_gb=4)
    d.update(kw)
    return d

def merge(fam, n4, n6, first, socktype=1, nocache=0, entry="harness_merge", kf=None, **kw):
    n = "%s_f%d_a%s_aaaa%s_first%d_st%d%s" % (entry.replace("harness_", ""), fam, str(n4).replace("-1", "x"), str(n6).replace("-1", "x"), first, socktype, "_nocache" if nocache else "")
    what = {"harness_merge": "A answer: %s, AAAA answer: %s, %s first: callback exactly once, list == A then AAAA addresses allowed by the hint (port, socktype, protocol); "
                             "the answer is written to the cache once with the smallest contributing TTL (cache routine replaced by a recorder)",
            "harness_cache": "evdns_cache_write of a list with %s (IPv4) and %s (IPv6), solver-chosen TTL (%s): miss before, expiry timer == TTL, hit for the name in any case "
                             "with equal addresses / requested port / family filter, miss for another name, miss after evdns_ttl_expired; original list untouched"}[entry]
    sa = lambda k: "NXDOMAIN" if k < 0 else "%d address(es)" % k
    d = ob(n, entry, what % (sa(n4), sa(n6), "A" if first == 4 else "AAAA"), fam=fam, socktype=socktype,
           extra=["C38_N4=%d" % n4, "C38_N6=%d" % n6, "C38_FIRST=%d" % first, "C38_NOCACHE=%d" % nocache], **kw)
    if entry == "harness_merge": d["instrument"] = [["--replace-calls", "evdns_cache_write:c38_cache_write_rec"]]
    if kf == "dup": d.update(expect_fail=["C38: port of an answer is not the service port", "C38: address family of an answer differs", "C38: ai_addrlen does not fit",
                                          "C38: IPv6 address of an answer differs", "C38: IPv4 address of an answer differs", "C38: answer list longer than the union",
                                          "C38: open hints must give a TCP and a UDP entry per address", "harness: answer list longer than the recorder"],
                             known_finding="KF-C38-cache-dup", name=n + "_kf")
    elif kf: d.update(expect_fail=["C38: cache entry outlives the TTL of an answer it contains"], known_finding="KF-C38-cache-ttl", name=n + "_kf")
    return d

def numeric(node, kf=None):
    what = {0: "NULL node", 1: "numeric IPv4 node 10.0.0.1", 2: "numeric IPv6 node ::1", 3: "host name"}[node]
    d = dict(name="numeric_node%d%s" % (node, "_kf_servwrap" if kf else ""), harness="C38_numeric.c", entry="harness_numeric",
             desc="evutil_getaddrinfo_common_ (real evutil.c) on a %s, any service text <= 3 bytes / any (value, end) strtol can report, any family/socktype/protocol/"
                  "PASSIVE/NUMERICHOST/NUMERICSERV hints, getservbyname unknown or any port: result, addresses, port, socktype/protocol pairs == reference%s"
                  % (what, " (on exactly the KF-C38-servname-wrap inputs)" if kf else " (excluding KF-C38-servname-wrap)"),
             defines=["C38_NODE=%d" % node, "KF_ONLY_SERV_WRAP" if kf else "KF_EXCLUDE_SERV_WRAP"], unwind=18,
             unwindset=["vpf_vsscanf.0:6"], cbmc=["--memory-leak-check"], timeout=900, mem_gb=4)
    if kf: d.update(expect_fail=["C38: a service that is neither a port 0..65535 nor a known name must be refused", "C38: host name: resolver needed, port handed on"], known_finding="KF-C38-servname-wrap")
    return d

def obligations(tier):
    full = tier != "quick"
    obs = []
    for node in (0, 1, 2, 3): obs.append(numeric(node))
    obs.append(numeric(3, kf=True))
    for mode, nul, what in ((0, 0, "numeric host answered by the fast path"), (0, 1, "NULL node answered by the fast path"), (1, 0, "fast path reports an error (any code)"),
                            (2, 0, "EVUTIL_AI_NUMERICHOST: system resolver answers")):
        obs.append(ob("fastpath_m%d_null%d" % (mode, nul), "harness_fastpath", what + ": callback at once, exactly once, with exactly that answer; no request, no query",
                      extra=["C38_FP_MODE=%d" % mode] + (["C38_NULL_NODE"] if nul else [])))
    for fam in (0, 4, 6):
        obs.append(ob("hosts_f%d" % fam, "harness_hosts", "name with hosts entries (2 IPv4, 1 IPv6, mixed case): answered from them in file order, filtered by family, no query", fam=fam))
    obs.append(ob("hosts_f0_open_kf", "harness_hosts", "the same with open socktype: TCP+UDP pair per entry, both with the service port [KF-C38-port-pair]", fam=0, socktype=0,
                  expect_fail=["C38: port of an answer is not the service port"], known_finding="KF-C38-port-pair"))
    obs.append(ob("hosts_absent", "harness_hosts", "name without hosts entry goes to DNS", fam=0, extra=["C38_NAME=\"c\"", "C38_NAME_ABSENT"]))
    # merge: single-source shapes (no TTL merge) and two-source shapes with the cache check excluded by NO_CACHE, plus the finding
    obs.append(merge(4, 2, 0, 4)); obs.append(merge(6, 0, 2, 6)); obs.append(merge(0, 2, -1, 4)); obs.append(merge(0, 0, 1, 6)); obs.append(merge(0, -1, -1, 4))
    obs.append(merge(0, 1, 1, 4, nocache=1)); obs.append(merge(0, 2, 2, 6, nocache=1)); obs.append(merge(0, 1, 1, 4, socktype=0, nocache=1))
    obs.append(merge(0, 1, 1, 4, kf=True)); obs.append(merge(0, 1, 1, 6, kf=True))
    obs.append(merge(4, 1, 0, 4, entry="harness_cache")); obs.append(merge(0, 1, 1, 4, entry="harness_cache")); obs.append(merge(6, 2, 0, 4, entry="harness_cache"))
    obs.append(merge(0, 1, 1, 4, socktype=0, entry="harness_cache", kf="dup"))
    if full:
        obs.append(merge(0, 2, 1, 4, nocache=1)); obs.append(merge(0, 1, 2, 6, socktype=0, nocache=1)); obs.append(merge(0, -1, 2, 4)); obs.append(merge(0, 0, 0, 6))
        obs.append(merge(6, 0, 1, 6, entry="harness_cache")); obs.append(merge(0, 2, 2, 4, entry="harness_cache")); obs.append(merge(4, 2, 0, 4, socktype=0))
    return obs
