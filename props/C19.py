ID = "C19"
LEVEL = "model_checking"
TECHNIQUE = ("CBMC bounded symbolic execution of the real bufferevent.c + bufferevent_sock.c over enumerated operation shapes (<= 5 operations, kinds concrete, "
             "all data symbolic) with callback monitors; evbuffers = contract sink, event core = recording stubs whose deferred/finalizer queues the harness runs")
UNITS = ["bufferevent.c", "bufferevent_sock.c", "bufferevent-internal.h"]
FUNCTIONS = ["bufferevent_socket_connect", "bufferevent_connect_getaddrinfo_cb", "bufferevent_socket_connect_hostname", "bufferevent_readcb", "bufferevent_writecb",
             "bufferevent_run_deferred_callbacks_locked", "bufferevent_run_deferred_callbacks_unlocked", "bufferevent_run_readcb_", "bufferevent_run_writecb_",
             "bufferevent_run_eventcb_", "bufferevent_trigger", "bufferevent_setcb", "bufferevent_free", "bufferevent_incref_and_lock_",
             "bufferevent_decref_and_unlock_", "bufferevent_finalize_cb_", "be_socket_setfd", "be_socket_destruct", "bufferevent_enable", "bufferevent_disable"]
BOUNDS = ("operation shapes of length <= 5 listed in props/C19.py (connect: in progress / immediate / refused / error; hostname lookup ok / fail / cancel; write event: "
          "connected / failed / pending / wrote / error / 0; read event: data / EOF / error / retry / ECONNREFUSED; run deferred; setcb(NULL); free; enable/disable; "
          "trigger; read high-water mark 4; application drains its input), options 0, DEFER, DEFER|UNLOCK, DEFER|THREADSAFE, DEFER|UNLOCK|THREADSAFE; the application optionally frees / clears callbacks / disables reading from inside "
          "a chosen callback kind; errno values inside an operation are symbolic, byte counts are concrete (3 read, 5 queued, 2 or all written: the count does not influence the lifecycle code)")
OUT = ("pair/filter/TLS bufferevents; callback order BETWEEN the two directions in one deferred run (the code runs read, write, then event callbacks; only CONNECTED-first "
       "and data-before-EOF/ERROR per direction are asserted); calls from other threads (C09) -- THREADSAFE only adds the lock monitor; real DNS; base free; "
       "a connecting socket that becomes readable before it becomes writable (not a kernel behaviour)")
TEXT = ("CONNECTED is reported at most once per connect and before any read/write callback; a failed connect is reported once as ERROR; EOF/ERROR at most once per "
        "direction and the read event is not pending afterwards; no callback after bufferevent_free or setcb(NULL) (also when done inside a callback, also with callbacks "
        "still queued); exact callback sequences for the listed shapes; the reference count never reaches zero while a callback/queued deferred callback needs the "
        "object and never goes negative; memory, evbuffers and lock are released exactly once after the last reference.")
NOTE = "Genuine defect found: fixes/C19-connect-immediate-order.{diff,md} (immediate connect: write callback before CONNECTED, CONNECTED lost when EV_WRITE is disabled)."
ASSUMPTIONS = ["evbuffers behave as env/evbuf_sink.h (C12-C16)", "event core behaves as env/bev_env.h documents; deferred callbacks run FIFO, finalizers after the current callback (C03/C10)",
               "the application frees a bufferevent once and does not call into it afterwards", "no rate limit configured"]
DESIGN_REF = "DESIGN.md §5 C19"

R, W, E = "U_READ", "U_WRITE", "U_EVENT"
CONN, RD_EOF, RD_ERR, WR_ERR, WR_EOF, ERR = "BEV_EVENT_CONNECTED", "BEV_EVENT_READING|BEV_EVENT_EOF", "BEV_EVENT_READING|BEV_EVENT_ERROR", \
    "BEV_EVENT_WRITING|BEV_EVENT_ERROR", "BEV_EVENT_WRITING|BEV_EVENT_EOF", "BEV_EVENT_ERROR"
D = "BEV_OPT_DEFER_CALLBACKS"
DT = "BEV_OPT_DEFER_CALLBACKS|BEV_OPT_THREADSAFE"
DUT = "BEV_OPT_DEFER_CALLBACKS|BEV_OPT_UNLOCK_CALLBACKS|BEV_OPT_THREADSAFE"

# (name, seq, opts, initial_fd, expected log or None, in-callback action (kind, act) or None, tier)
S = [
 ("io_data_eof", "REV_DATA,REV_EOF,REV_DATA", "0", 5, [(R, "0"), (E, RD_EOF)], None, "q"),
 ("io_data_err", "REV_DATA,REV_ERR,REV_DATA,REV_EOF", "0", 5, [(R, "0"), (E, RD_ERR)], None, "q"),
 ("io_retry_data", "REV_RETRY,REV_DATA", "0", 5, [(R, "0")], None, "q"),
 ("io_write", "APP_WRITE,WEV_WRITE_OK,WEV_WRITE_ALL,WEV_WRITE_ALL", "0", 5, [(W, "0")], None, "q"),
 ("io_write_err", "APP_WRITE,WEV_WRITE_ERR,WEV_WRITE_OK,APP_WRITE,WEV_WRITE_ERR", "0", 5, [(E, WR_ERR)], None, "q"),
 ("io_write_zero", "APP_WRITE,WEV_WRITE_ZERO,WEV_WRITE_ZERO", "0", 5, [(E, WR_EOF)], None, "q"),
 ("io_free_in_readcb", "REV_DATA,REV_DATA,REV_EOF", "0", 5, [(R, "0")], (R, "FREE"), "q"),
 ("io_free_in_eventcb", "REV_EOF,REV_DATA", "0", 5, [(E, RD_EOF)], (E, "FREE"), "q"),
 ("io_clear_in_readcb", "REV_DATA,REV_DATA,REV_EOF", "0", 5, [(R, "0")], (R, "SETCB_NULL"), "q"),
 ("io_cleared", "SETCB_NULL,REV_DATA,REV_EOF,TRIGGER_RW", "0", 5, [], None, "q"),
 ("io_freed", "FREE,REV_DATA,RUN_DEFERRED", "0", 5, [], None, "q"),
 ("io_trigger", "TRIGGER_RW", "0", 5, [(R, "0"), (W, "0")], None, "q"),
 ("io_disable_in_readcb", "REV_DATA,REV_DATA", "0", 5, [(R, "0")], (R, "DISABLE_R"), "t"),
 ("def_data_eof", "REV_DATA,REV_EOF,RUN_DEFERRED", D, 5, [(R, "0"), (E, RD_EOF)], None, "q"),
 ("def_data_run_eof", "REV_DATA,RUN_DEFERRED,REV_EOF,RUN_DEFERRED,REV_DATA", D, 5, [(R, "0"), (E, RD_EOF)], None, "q"),
 ("def_data_free", "REV_DATA,FREE,RUN_DEFERRED", D, 5, [], None, "q"),
 ("def_data_clear", "REV_DATA,SETCB_NULL,RUN_DEFERRED,REV_EOF,RUN_DEFERRED", D, 5, [], None, "q"),
 ("def_eof_free", "REV_EOF,FREE,RUN_DEFERRED", D, 5, [], None, "q"),
 ("def_free_in_readcb", "REV_DATA,REV_EOF,RUN_DEFERRED", D, 5, [(R, "0")], (R, "FREE"), "q"),
 ("def_trigger", "TRIGGER_RW,TRIGGER_RW,RUN_DEFERRED", D, 5, [(R, "0"), (W, "0")], None, "t"),
 ("defts_data_eof", "REV_DATA,REV_EOF,RUN_DEFERRED", DT, 5, [(R, "0"), (E, RD_EOF)], None, "q"),
 ("defuts_free_in_readcb", "REV_DATA,REV_EOF,RUN_DEFERRED", DUT, 5, [(R, "0")], (R, "FREE"), "q"),
 ("defuts_clear_in_readcb", "REV_DATA,REV_EOF,RUN_DEFERRED", DUT, 5, [(R, "0")], (R, "SETCB_NULL"), "t"),
 ("defts_free_in_eventcb", "REV_DATA,REV_EOF,RUN_DEFERRED", DT, 5, [(R, "0"), (E, RD_EOF)], (E, "FREE"), "t"),
 ("io_wm_eof_drain", "SET_WM_HIGH4,REV_DATA,REV_EOF,APP_DRAIN,REV_EOF,REV_DATA", "0", 5, [(R, "0"), (E, RD_EOF)], None, "q"),
 ("io_wm_drain_in_eofcb", "SET_WM_HIGH4,REV_DATA,REV_EOF,REV_EOF", "0", 5, [(R, "0"), (E, RD_EOF)], (E, "APP_DRAIN"), "q"),
 ("io_wm_err_drain", "SET_WM_HIGH4,REV_DATA,REV_ERR,APP_DRAIN,REV_EOF", "0", 5, [(R, "0"), (E, RD_ERR)], None, "t"),
 ("def_wm_eof_drain", "SET_WM_HIGH4,REV_DATA,REV_EOF,RUN_DEFERRED,APP_DRAIN,REV_EOF,RUN_DEFERRED", D, 5, [(R, "0"), (E, RD_EOF)], None, "q"),
 ("conn_defu_ok", "ENABLE_R,CONNECT_INPROGRESS,WEV_CONNECTED,REV_DATA,RUN_DEFERRED,RUN_DEFERRED", "BEV_OPT_DEFER_CALLBACKS|BEV_OPT_UNLOCK_CALLBACKS", -1, [(E, CONN), (R, "0")], None, "q"),
 ("conn_defuts_ok", "ENABLE_R,CONNECT_INPROGRESS,WEV_CONNECTED,REV_DATA,REV_EOF,RUN_DEFERRED,RUN_DEFERRED", DUT, -1, [(E, CONN), (R, "0"), (E, RD_EOF)], None, "q"),
 ("conn_defuts_immediate", "CONNECT_IMMEDIATE,RUN_DEFERRED,WEV_CONNECTED,RUN_DEFERRED", DUT, -1, [(E, CONN)], None, "t"),
 ("conn_ok", "ENABLE_R,CONNECT_INPROGRESS,WEV_CONNPENDING,WEV_CONNECTED,REV_DATA", "0", -1, [(E, CONN), (R, "0")], None, "q"),
 ("conn_fail", "ENABLE_R,CONNECT_INPROGRESS,WEV_CONNFAIL,WEV_CONNECTED,REV_DATA", "0", -1, [(E, ERR)], None, "q"),
 ("conn_once", "CONNECT_INPROGRESS,WEV_CONNECTED,WEV_CONNECTED,APP_WRITE,WEV_WRITE_ALL", "0", -1, [(E, CONN), (W, "0")], None, "q"),
 ("conn_immediate", "CONNECT_IMMEDIATE,RUN_DEFERRED,WEV_CONNECTED,RUN_DEFERRED", "0", -1, [(E, CONN)], None, "q"),
 ("conn_immediate_nowrite", "DISABLE_W,CONNECT_IMMEDIATE,RUN_DEFERRED,WEV_CONNECTED", "0", -1, [(E, CONN)], None, "q"),
 ("conn_immediate_def", "CONNECT_IMMEDIATE,RUN_DEFERRED,WEV_CONNECTED,RUN_DEFERRED", D, -1, [(E, CONN)], None, "q"),
 ("conn_refused", "CONNECT_REFUSED,RUN_DEFERRED,WEV_CONNECTED", "0", -1, [(E, ERR)], None, "q"),
 ("conn_error", "CONNECT_FAIL,RUN_DEFERRED", "0", -1, [], None, "q"),
 ("conn_bsd_refused", "ENABLE_R,CONNECT_INPROGRESS,REV_REFUSED,WEV_CONNPENDING,REV_DATA", "0", -1, [(E, ERR)], None, "q"),
 ("conn_def_ok", "ENABLE_R,CONNECT_INPROGRESS,WEV_CONNECTED,REV_DATA,RUN_DEFERRED", D, -1, [(E, CONN), (R, "0")], None, "q"),
 ("conn_free_in_connected", "ENABLE_R,CONNECT_INPROGRESS,WEV_CONNECTED,REV_DATA", "0", -1, [(E, CONN)], (E, "FREE"), "q"),
 ("conn_free_while_connecting", "CONNECT_INPROGRESS,FREE,WEV_CONNECTED", "0", -1, [], None, "t"),
 ("host_ok", "HOSTNAME_CONNECT,GAI_OK_INPROGRESS,WEV_CONNECTED", "0", -1, [(E, CONN)], None, "q"),
 ("host_fail", "HOSTNAME_CONNECT,GAI_FAIL,WEV_CONNECTED", "0", -1, [(E, ERR)], None, "q"),
 ("host_cancel", "HOSTNAME_CONNECT,GAI_CANCEL", "0", -1, [], None, "q"),
 ("host_free_then_answer", "HOSTNAME_CONNECT,FREE,GAI_OK_INPROGRESS,WEV_CONNECTED", "0", -1, [], None, "q"),
 ("host_fail_free_in_cb", "HOSTNAME_CONNECT,GAI_FAIL", "0", -1, [(E, ERR)], (E, "FREE"), "t"),
 ("host_def_fail", "HOSTNAME_CONNECT,GAI_FAIL,RUN_DEFERRED", DT, -1, [(E, ERR)], None, "t"),
]

def obligations(tier):
    obs = []
    for (name, seq, opts, fd, log, incb, t) in S:
        if t == "t" and tier != "thorough": continue
        defs = ["C19_SEQ=" + seq, "C19_OPTS=(" + opts + ")", "C19_INITIAL_FD=(%d)" % fd]
        if log is not None:
            defs.append("C19_EXPECT_LOG=" + (",".join("%s,(%s)" % (k, w) for k, w in log) if log else "0"))
            if not log: defs.append("C19_EXPECT_EMPTY")
        if incb: defs += ["C19_IN_CB_KIND=" + incb[0], "C19_IN_CB_ACT=" + incb[1]]
        obs.append(dict(name=name, harness="C19_lifecycle.c", entry="harness_lifecycle", defines=defs, unwind=8, unwindset=["vp_sink_run_callbacks:3"],
                        timeout=600, mem_gb=4,
                        desc="shape [%s] options %s%s%s" % (seq, opts, ", application does %s inside its %s callback" % (incb[1], incb[0]) if incb else "",
                                                             ", exact callback log asserted" if log is not None else "")))
        if tier == "thorough" and name in ("io_data_eof", "def_data_free", "conn_ok", "conn_immediate", "host_free_then_answer", "defuts_free_in_readcb"):
            o = dict(obs[-1]); o["name"] = name + "_ndebug"; o["ndebug"] = True; o["desc"] += " (NDEBUG build)"; obs.append(o)
    return obs
