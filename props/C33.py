ID = "C33"
LEVEL = "model_checking"
TECHNIQUE = "CBMC bounded symbolic execution of evdns.c name_parse / reply_parse on symbolic packets vs the RFC 1035 reference decoder ref/dns_ref.h"
UNITS = ["evdns.c"]
FUNCTIONS = ["name_parse", "reply_parse", "reply_handle", "reply_schedule_callback"]
FUNCTIONS += ["reply_run_callback"]
BOUNDS = ("name_parse: every packet of <= 12 (quick) / 16 (thorough) octets for memory safety and termination, <= 8 / 9 octets for equivalence with the "
          "reference decoder, any start index, output size 0..L+2, exact-size objects. reply_parse..reply_run_callback: every reply of <= 32 (quick) / 48 "
          "(thorough) octets, one pending A/AAAA/PTR request with/without DNS_CNAME_CALLBACK and 0x20, QDCOUNT<=1, ANCOUNT<=2, NSCOUNT<=1, decoded names <= 3 "
          "octets (name_parse replaced by its contract), optional solver-chosen allocation failures.")
OUT = ("UDP/TCP framing and segmentation (nameserver_read, client_tcp_read_packet_cb); authority-section (SOA) TTL handling and NODATA classification are only "
       "checked generically (no crash/leak/foreign data); CNAME TTL is not part of the TTL bound; put_cname_in_ptr (getaddrinfo); request life cycle below "
       "reply_handle (request_finished, reissue, timeout, TCP retry, search) is cut to recorders (C34); replies >= 255 octets (data buffer then sized by the reply); "
       "name_parse functional equivalence above 9 octets (SAT miter grows exponentially); pigeonhole lemma 'a finite name follows <= length/2 pointers' argued on paper.")
TEXT = ("name_parse is decided against an RFC 1035 reference decoder (result, text, index; loops, truncation, out-of-range pointers, too-small buffers) and for "
        "memory safety on exact-size objects; reply_parse -> reply_handle -> reply_schedule_callback -> reply_run_callback is run on a symbolic reply with name_parse "
        "replaced by exactly that contract: foreign packets (id/QR) never touch the request, data is delivered only from matching error-free well-formed replies and "
        "equals the answer records of the queried type (addresses in order / first PTR target, count, TTL <= min), CNAME as reported, nothing leaks, allocation "
        "failure is survived.")
NOTE = ("Trusted: cbmc 6.11, ref/dns_ref.h, the name_parse contract stub (states only what np_* obligations prove, plus 'decoded text <= 3 octets' as an input "
        "bound), recorders listed in harness/C33_reply_parse.c, a 10-line model of evutil_ascii_strcasecmp. Tolerated via expect_fail: name_parse computes "
        "`cp + label_len` past the end of name_out before comparing (C undefined behaviour, never dereferenced). Findings: C33-cname-leak, C33-unchecked-malloc, "
        "C33-reserved-label-type (fixes/). Observation: an A record with RDLENGTH 0 yields a success callback with count 0.")
ASSUMPTIONS = ["name_parse behaves per its contract outside the verified packet bound (the contract is proved for packets <= 16 octets, used for replies <= 48)",
               "callbacks below reply_handle (request_finished, nameserver_up/failed, request_reissue, timeout, TCP retry) do not touch the reply object",
               "handle->user_callback is the harness recorder (other functions of the same type are cut)",
               "evutil_ascii_strcasecmp is ASCII case-insensitive comparison (model in the harness)"]
DESIGN_REF = "DESIGN.md §5 C33, §3.8"

PTR_UB = "pointer relation: pointer outside object bounds in cp + "

def np_ob(name, L, mode, front=True, **kw):
    """mode 'safe': all cbmc memory checks, no reference; 'func': reference equivalence, memory checks
    off (the same calls are covered by a 'safe' obligation at >= the same L)."""
    S = (L + 1) + (L + 3) // 2 + 1
    d = dict(name=name, harness="C33_name_parse.c", entry="harness_name_parse",
             defines=["C33_L=%d" % L] + (["C33_FRONT"] if front else []) + (["C33_NOREF"] if mode == "safe" else []),
             unwind=2,
             unwindset=["name_parse.2:%d" % (S + 1), "vp_memcpy.0:%d" % (L + 1), "dnsref_name.0:%d" % (L + 1),
                        "dnsref_name.1:%d" % (S + 2), "harness_name_parse.0:%d" % (L + 4), "vp_bytes.0:%d" % (L + 1)],
             timeout=900, mem_gb=4)
    if mode == "safe":
        d["expect_fail"] = [PTR_UB]
        d["desc"] = ("name_parse memory safety + termination: symbolic packet object of %d bytes (message = symbolic-length %s of it), "
                     "symbolic start index, symbolic output size 0..%d in an exact object; every read/write in bounds, loop ends within %d iterations"
                     % (L, "prefix" if front else "suffix", L + 2, S))
    else:
        d["cbmc"] = ["--no-pointer-check", "--no-bounds-check"]
        d["desc"] = ("name_parse == RFC 1035 reference decoder (result, decoded text, index after the name; failure iff malformed/loop/does not fit) "
                     "for every packet <= %d bytes, start index, output size 0..%d" % (L, L + 2))
    d.update(kw)
    return d

RP_INSTR = [["--replace-calls", "name_parse:c33r_name_parse_contract"],
            ["--replace-calls", "request_finished:c33r_request_finished"],
            ["--replace-calls", "nameserver_up:c33r_nameserver_up"],
            ["--replace-calls", "nameserver_failed:c33r_nameserver_failed"],
            ["--replace-calls", "request_reissue:c33r_request_reissue"],
            ["--replace-calls", "evdns_request_timeout_callback:c33r_timeout_cb"],
            ["--replace-calls", "client_retransmit_through_tcp:c33r_retransmit_tcp"],
            ["--replace-calls", "search_try_next:c33r_search_try_next"],
            # the only other functions of evdns_callback_type (cbmc resolves handle->user_callback by signature)
            ["--remove-function-body", "evdns_getaddrinfo", "--remove-function-body", "evdns_getaddrinfo_gotresolve", "--remove-function-body", "nameserver_probe_callback"]]

def rp_ob(name, L, T=3, qd=1, an=2, ns=1, extra=(), **kw):
    Q = qd + 1; R = an + 1
    d = dict(name=name, harness="C33_reply_parse.c", entry="harness_reply_parse",
             defines=["C33R_L=%d" % L, "C33R_TEXT=%d" % T, "C33R_QD=%d" % qd, "C33R_AN=%d" % an, "C33R_NS=%d" % ns] + list(extra), instrument=RP_INSTR, unwind=2,
             unwindset=["reply_parse.9:%d" % Q, "reply_parse.15:%d" % R, "reply_parse.28:%d" % (ns + 1), "c33r_ref.0:%d" % Q, "c33r_ref.1:%d" % (L + 1), "c33r_ref.2:%d" % R,
                        "c33r_texteq.0:%d" % (T + 2), "event_mm_strdup_.0:%d" % (T + 2), "c33r_name_parse_contract.0:%d" % (T + 1),
                        "c33r_user_cb.0:%d" % (T + 2), "c33r_user_cb.1:%d" % (L + 8), "c33r_user_cb.2:%d" % (4 * L + 20), "c33r_user_cb.3:%d" % (T + 2),
                        "harness_reply_parse.0:%d" % (T + 2), "harness_reply_parse.1:%d" % (L + 1), "harness_reply_parse.2:%d" % (T + 2),
                        "vp_bytes.0:%d" % (L + 1), "vp_memcpy.0:%d" % (L + 2), "strcmp.0:%d" % (T + 2), "strlen.0:%d" % (T + 2), "evutil_ascii_strcasecmp.0:%d" % (T + 2)],
             timeout=900, mem_gb=8, cbmc=["--object-bits", "10"], native=False,
             desc="reply_parse..reply_run_callback on every reply <= %d bytes for one pending A/AAAA/PTR request, name_parse by contract (names <= %d bytes)" % (L, T))
    d.update(kw); return d

def obligations(tier):
    if tier == "quick":
        obs = [np_ob("np_safe_front_L12", 12, "safe"), np_ob("np_safe_tail_L8", 8, "safe", front=False),
               np_ob("np_func_L8", 8, "func"), rp_ob("reply_wf_L32", 32, extra=["C33R_KF_EXCLUDE_CNAME_LEAK"]), rp_ob("reply_L32", 32),
               rp_ob("reply_allocfail_L32", 32, extra=["C33R_ALLOC_FAIL"])]
    else:
        strict = np_ob("np_reserved_L8", 8, "func")
        strict["defines"] = strict["defines"] + ["C33_STRICT_LABELTYPE"]
        strict["desc"] = "as np_func_L8, and names containing a reserved label type (01/10) must be rejected (finding C33-reserved-label-type)"
        obs = [np_ob("np_safe_front_L16", 16, "safe", timeout=1800), np_ob("np_safe_tail_L12", 12, "safe", front=False, timeout=1800),
               np_ob("np_func_L9", 9, "func", timeout=1800), strict,
               rp_ob("reply_wf_L48", 48, extra=["C33R_KF_EXCLUDE_CNAME_LEAK"], timeout=3000, mem_gb=12), rp_ob("reply_L48", 48, timeout=3000, mem_gb=12),
               rp_ob("reply_allocfail_L32", 32, extra=["C33R_ALLOC_FAIL"])]
    return obs
