ID = "C33"
LEVEL = "model_checking"
TECHNIQUE = "CBMC bounded symbolic execution of evdns.c name_parse / reply_parse on symbolic packets vs the RFC 1035 reference decoder ref/dns_ref.h"
UNITS = ["evdns.c"]
FUNCTIONS = ["name_parse", "reply_parse", "reply_handle", "reply_schedule_callback"]
BOUNDS = ""
OUT = ""
TEXT = ""
NOTE = ""
ASSUMPTIONS = []
DESIGN_REF = "DESIGN.md §5 C33, §3.8"

def np_ob(name, L, front=False, extra=(), **kw):
    d = dict(name=name, harness="C33_name_parse.c", entry="harness_name_parse",
             defines=["C33_L=%d" % L] + (["C33_FRONT"] if front else []) + list(extra),
             unwind=2 * L + 6, timeout=900, mem_gb=8,
             desc="name_parse on a symbolic %d-byte object (%s-aligned message of symbolic length), symbolic start index and output size, vs reference decoder; exact-size objects" % (L, "front" if front else "tail"))
    d.update(kw)
    return d

def obligations(tier):
    obs = [np_ob("name_parse_L8", 8)]
    return obs
