ID = "C33"
LEVEL = "model_checking"
TECHNIQUE = "CBMC bounded symbolic execution of evdns.c name_parse / reply_parse on symbolic packets vs the RFC 1035 reference decoder ref/dns_ref.h"
UNITS = ["evdns.c"]
FUNCTIONS = ["name_parse", "reply_parse", "reply_handle", "reply_schedule_callback"]
BOUNDS = ""
OUT = ""
TEXT = ""
NOTE = ""
ASSUMPTIONS = []
DESIGN_REF = "DESIGN.md §5 C33, §3.8"

PTR_UB = "pointer relation: pointer outside object bounds in cp + "

def np_ob(name, L, mode, front=True, **kw):
    """mode 'safe': all cbmc memory checks, no reference; 'func': reference equivalence, memory checks
    off (the same calls are covered by a 'safe' obligation at >= the same L)."""
    S = (L + 1) + (L + 3) // 2 + 1
    d = dict(name=name, harness="C33_name_parse.c", entry="harness_name_parse",
             defines=["C33_L=%d" % L] + (["C33_FRONT"] if front else []) + (["C33_NOREF"] if mode == "safe" else []),
             unwind=2,
             unwindset=["name_parse.2:%d" % (S + 1), "vp_memcpy.0:%d" % (L + 1), "dnsref_name.0:%d" % (L + 1),
                        "dnsref_name.1:%d" % (S + 2), "harness_name_parse.0:%d" % (L + 4), "vp_bytes.0:%d" % (L + 1)],
             timeout=900, mem_gb=4)
    if mode == "safe":
        d["expect_fail"] = [PTR_UB]
        d["desc"] = ("name_parse memory safety + termination: symbolic packet object of %d bytes (message = symbolic-length %s of it), "
                     "symbolic start index, symbolic output size 0..%d in an exact object; every read/write in bounds, loop ends within %d iterations"
                     % (L, "prefix" if front else "suffix", L + 2, S))
    else:
        d["cbmc"] = ["--no-pointer-check", "--no-bounds-check"]
        d["desc"] = ("name_parse == RFC 1035 reference decoder (result, decoded text, index after the name; failure iff malformed/loop/does not fit) "
                     "for every packet <= %d bytes, start index, output size 0..%d" % (L, L + 2))
    d.update(kw)
    return d

RP_INSTR = [["--replace-calls", "name_parse:c33r_name_parse_contract"],
            ["--replace-calls", "request_finished:c33r_request_finished"],
            ["--replace-calls", "nameserver_up:c33r_nameserver_up"],
            ["--replace-calls", "nameserver_failed:c33r_nameserver_failed"],
            ["--replace-calls", "request_reissue:c33r_request_reissue"],
            ["--replace-calls", "evdns_request_timeout_callback:c33r_timeout_cb"],
            ["--replace-calls", "client_retransmit_through_tcp:c33r_retransmit_tcp"]]

def rp_ob(name, L, T=3, extra=(), **kw):
    Q = (L - 12) // 5 + 2; R = (L - 12) // 11 + 2
    d = dict(name=name, harness="C33_reply_parse.c", entry="harness_reply_parse",
             defines=["C33R_L=%d" % L, "C33R_TEXT=%d" % T] + list(extra), instrument=RP_INSTR, unwind=2,
             unwindset=["reply_parse.9:%d" % Q, "reply_parse.15:%d" % R, "reply_parse.28:%d" % R, "c33r_ref.0:%d" % Q, "c33r_ref.1:%d" % (L + 1), "c33r_ref.2:%d" % R,
                        "c33r_texteq.0:%d" % (T + 2), "event_mm_strdup_.0:%d" % (T + 2), "c33r_name_parse_contract.0:%d" % (T + 1),
                        "c33r_user_cb.0:%d" % (T + 2), "c33r_user_cb.1:%d" % (L + 8), "c33r_user_cb.2:%d" % (4 * L + 20), "c33r_user_cb.3:%d" % (T + 2),
                        "harness_reply_parse.0:%d" % (T + 2), "harness_reply_parse.1:%d" % (L + 1), "harness_reply_parse.2:%d" % (T + 2),
                        "vp_bytes.0:%d" % (L + 1), "vp_memcpy.0:%d" % (L + 2), "strcmp.0:%d" % (T + 2), "strlen.0:%d" % (T + 2)],
             timeout=900, mem_gb=8, cbmc=["--object-bits", "10"], native=False,
             desc="reply_parse..reply_run_callback on every reply <= %d bytes for one pending A/AAAA/PTR request, name_parse by contract (names <= %d bytes)" % (L, T))
    d.update(kw); return d

def obligations(tier):
    if tier == "quick":
        obs = [np_ob("np_safe_front_L12", 12, "safe"), np_ob("np_safe_tail_L8", 8, "safe", front=False),
               np_ob("np_func_L8", 8, "func"), rp_ob("reply_L32", 32)]
    else:
        obs = [np_ob("np_safe_front_L16", 16, "safe"), np_ob("np_safe_tail_L12", 12, "safe", front=False),
               np_ob("np_func_L9", 9, "func")]
    return obs
