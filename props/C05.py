ID = "C05"
LEVEL = "model_checking"
TECHNIQUE = ("CBMC bounded symbolic execution of the real evmap.c + epoll.c / poll.c / select.c, driven at the evmap level "
             "(evmap_io_add_/evmap_io_del_/evsel->dispatch), against an executable kernel contract model "
             "(epoll_create1/epoll_ctl/epoll_pwait2/poll/select/close); the predicate is asserted inside the kernel's wait entry point")
UNITS = ["evmap.c", "epoll.c", "epolltable-internal.h", "changelist-internal.h", "poll.c", "select.c"]
FUNCTIONS = ["evmap_io_add_", "evmap_io_del_", "evmap_make_space", "event_changelist_add_", "event_changelist_del_",
             "event_changelist_get_or_construct", "event_changelist_grow", "event_changelist_remove_all_",
             "epoll_init", "epoll_apply_one_change", "epoll_apply_changes", "epoll_nochangelist_add", "epoll_nochangelist_del",
             "epoll_dispatch", "poll_init", "poll_add", "poll_del", "poll_dispatch", "select_init", "select_add", "select_del",
             "select_resize", "select_dispatch"]
BOUNDS = ("3 I/O events on 2 fds (ev0, ev1 on fd A; ev2 on fd B), interest masks symbolic non-empty subsets of "
          "{EV_READ, EV_WRITE, EV_CLOSED} (select: {EV_READ, EV_WRITE}), EV_ET symbolic per fd (epoll), EV_PERSIST symbolic; "
          "histories = ALL sequences of 3 (quick) / 3, 4 and 5 (thorough) solver-chosen steps from {add(ev_i), del(ev_i), close+reopen(fd_j), wait} followed by a wait, "
          "decided in one query per back end, plus fixed deeper shapes (up to 10 steps, two intermediate waits, close+reopen between del and re-add); "
          "each history runs after a concrete warm-up prefix (add+del of an EV_READ event per fd, one wait) "
          "so tables exist with concrete sizes ('cold' obligations repeat add-only/add-del shapes from the freshly initialised back end); "
          "poll with and without th_base_lock (event_set_copy path); one injected epoll_ctl failure (ENOMEM) on an add for epoll direct")
OUT = (">2 fds / table growth (pollfd array beyond 32 entries, changelist beyond 64, evmap beyond 32 slots, fd_sets beyond one word: "
       "a realloc of a live block is asserted unreachable inside the bound); dup()-shared epitems; fds closed while events stay added past the next wait "
       "(application contract); mixed ET/LT events on one fd (documented unsupported); kernel refusing EPOLL_CTL_MOD/DEL or failures surfacing only at "
       "dispatch time in changelist mode (epoll_apply_changes ignores them by design); what happens after a wait that reports readiness (C04); "
       "the event_add/event_del -> evmap link (C02); timerfd (not compiled: epoll_pwait2 present)")
TEXT = ("At every wait the kernel-facing interest set equals the union of the added events' conditions: for epoll (direct and changelist) the model "
        "instance's registration per fd (presence, EPOLLIN/OUT/RDHUP, EPOLLET iff requested, data.fd, no other flag, no stale entry), for poll the pollfd "
        "array handed to poll() (exactly one entry per fd with added events, events == union, nfds exact, idxplus1 consistent), for select the fd_sets "
        "handed to select() - over all enumerated add/del/close+reopen/wait histories with symbolic masks.")
NOTE = ("Trusted: cbmc; env/kernel_io.h (kernel contract model, ~200 lines); env/iobase.h (event_base reduced to the fields the units read); "
        "env/typed_alloc.h + env/alloc_nogrow.h (allocator stand-ins: typed tables, growth asserted unreachable; select fd_sets handed out as full fd_set "
        "objects, so an overrun inside the 128-byte fd_set would be invisible). Every wait is answered EINTR so dispatch returns without scanning.")
ASSUMPTIONS = [
    "kernel behaves per env/kernel_io.h: epoll_ctl EEXIST/ENOENT/EBADF contract, close(fd) drops the fd's registration from every epoll instance, a reopened number starts unregistered",
    "application contract: an fd is closed only while no event is added on it, or every event added on it at close time is deleted before anything else is added on that number and before the next wait",
    "all events on one fd agree on EV_ET; EV_ET only on epoll; EV_CLOSED only on back ends advertising EV_FEATURE_EARLY_CLOSE (epoll, poll)",
    "waits return EINTR (dispatch returns without scanning); allocation does not fail",
]
DESIGN_REF = "DESIGN.md §5 C05"

FD = [0, 0, 1]

def shapes(n, closes):
    """legal histories of exactly n steps (final wait is appended by the caller), up to ev0<->ev1 symmetry"""
    out = []
    def rec(seq, added, stale, ever):
        if len(seq) == n:
            if seq[-1] != "WAIT" and not any(added[i] and stale[i] for i in range(3)):
                out.append(seq)
            return
        for i in range(3):
            if not added[i]:
                if i == 1 and not ever[0]:
                    continue
                if any(added[j] and stale[j] and FD[j] == FD[i] for j in range(3)):
                    continue
                a = list(added); a[i] = 1; s = list(stale); s[i] = 0; e = list(ever); e[i] = 1
                rec(seq + ["ADD(%d)" % i], a, s, e)
            else:
                a = list(added); a[i] = 0; s = list(stale); s[i] = 0
                rec(seq + ["DEL(%d)" % i], a, s, ever)
        if closes:
            for f in range(2):
                if not any(ever[i] and FD[i] == f for i in range(3)):
                    continue
                if seq and seq[-1] == "CLOSE(%d)" % f:
                    continue
                s = list(stale)
                for i in range(3):
                    if added[i] and FD[i] == f:
                        s[i] = 1
                rec(seq + ["CLOSE(%d)" % f], added, s, ever)
        if seq and seq[-1] != "WAIT" and not any(added[i] and stale[i] for i in range(3)):
            rec(seq + ["WAIT"], added, stale, ever)
    rec([], [0] * 3, [0] * 3, [0] * 3)
    return out

def short(seq):
    return "".join(s.replace("ADD(", "a").replace("DEL(", "d").replace("CLOSE(", "c").replace(")", "").replace("WAIT", "w") for s in seq)

BACKENDS = [("epoll", 1, True), ("epollcl", 2, True), ("poll", 3, False), ("select", 4, False)]
USET = {"epollcl": ["epoll_apply_changes.0:3", "event_changelist_remove_all_.1:3"]}

def ob(bn, b, seq, extra=(), tag="", **kw):
    steps = " ".join(seq) + " WAIT"
    d = dict(name="%s_%s%s" % (bn, short(seq), tag), harness="C05_interest.c", entry="harness_shape",
             defines=["VP_BACKEND=%d" % b, "VP_WEAKRAND_ZERO", "VP_STEPS=" + steps] + list(extra),
             unwind=8, unwindset=USET.get(bn, []), timeout=300, mem_gb=3,
             desc="%s: history [%s]; masks/ET symbolic; interest set asserted at every wait" % (bn, steps))
    d.update(kw)
    return d

def sym(bn, b, n, **kw):
    d = dict(name="%s_sym%d" % (bn, n), harness="C05_interest.c", entry="harness_sym",
             defines=["VP_BACKEND=%d" % b, "VP_WEAKRAND_ZERO", "VP_WARM", "VP_SYMSTEPS=%d" % n] + (["VP_SYM_WITNESSES"] if n >= 3 else []), unwind=8, unwindset=USET.get(bn, []),
             timeout=900, mem_gb=8,
             desc="%s: ALL histories of %d solver-chosen steps (each step any of add/del ev0..2, close+reopen fd A/B, wait; illegal ones assumed away) + final wait; masks/ET symbolic" % (bn, n))
    d.update(kw)
    return d

def obligations(tier):
    obs = []
    for bn, b, closes in BACKENDS:
        # every history of n steps in one query
        if tier == "quick":
            obs.append(sym(bn, b, 3))
        else:
            obs.append(sym(bn, b, 3))
            obs.append(sym(bn, b, 4, timeout=1800, mem_gb=10))
            obs.append(sym(bn, b, 5, timeout=2400, mem_gb=14))
        # deeper close+reopen histories (changelist: pending del+add across a reopen -> MOD/ENOENT -> ADD retry, DEL/ENOENT tolerated)
        if closes:
            for seq in (["ADD(0)", "WAIT", "DEL(0)", "CLOSE(0)", "ADD(1)"], ["ADD(0)", "WAIT", "CLOSE(0)", "DEL(0)", "ADD(0)"],
                        ["ADD(0)", "ADD(1)", "WAIT", "CLOSE(0)", "DEL(0)", "DEL(1)", "ADD(0)"], ["ADD(0)", "WAIT", "DEL(0)", "CLOSE(0)", "ADD(0)", "DEL(0)"],
                        ["ADD(2)", "ADD(0)", "WAIT", "CLOSE(1)", "DEL(2)", "ADD(2)", "WAIT", "CLOSE(0)", "DEL(0)"],
                        ["ADD(0)", "ADD(1)", "WAIT", "DEL(1)", "CLOSE(0)", "DEL(0)", "ADD(1)"],
                        ["ADD(0)", "ADD(2)", "WAIT", "DEL(0)", "CLOSE(0)", "ADD(1)", "WAIT", "DEL(2)", "CLOSE(1)", "ADD(2)"]):
                obs.append(ob(bn, b, seq, extra=["VP_WARM"], tag="_deep"))
        else:
            # close+reopen is a no-op for poll/select (no kernel state); a few shapes show that
            for seq in (["ADD(0)", "WAIT", "DEL(0)", "CLOSE(0)", "ADD(1)"], ["ADD(0)", "ADD(2)", "WAIT", "CLOSE(0)", "DEL(0)", "ADD(1)", "WAIT", "DEL(2)", "ADD(0)"]):
                obs.append(ob(bn, b, seq, extra=["VP_WARM"], tag="_deep"))
        # from the freshly initialised back end (first allocations on symbolic paths)
        for seq in (["ADD(0)", "ADD(1)", "ADD(2)"], ["ADD(0)", "DEL(0)"], ["ADD(0)", "ADD(2)", "WAIT", "DEL(2)"]):
            obs.append(ob(bn, b, seq, tag="_cold"))
        # NDEBUG twins (as shipped)
        obs.append(sym(bn, b, 2, ndebug=True, name="%s_sym2_ndebug" % bn))
        for seq in (["ADD(0)", "ADD(1)", "WAIT", "DEL(0)", "ADD(2)"],):
            obs.append(ob(bn, b, seq, extra=["VP_WARM"], tag="_ndebug", ndebug=True))
    # epoll direct: the kernel refuses one registration (ENOMEM): add reports -1, event stays out, set still exact
    for seq in (["ADD(0)", "ADD(1)", "ADD(2)"], ["ADD(0)", "ADD(1)", "DEL(0)"], ["ADD(0)", "WAIT", "ADD(1)", "ADD(2)"]):
        obs.append(ob("epoll", 1, seq, extra=["VP_WARM", "VP_INJECT"], tag="_inject"))
    # poll with a base lock: poll() is handed event_set_copy
    for seq in (["ADD(0)", "ADD(2)", "DEL(0)"], ["ADD(0)", "ADD(2)", "WAIT", "DEL(0)", "ADD(1)"]):
        obs.append(ob("poll", 3, seq, extra=["VP_WARM", "VP_LOCKS_ON", "VP_WITH_LOCK"], tag="_locked"))
    return obs
