ID = "C27"
LEVEL = "model_checking"
TECHNIQUE = "CBMC bounded symbolic execution of http.c failure/completion functions, one step from constructed connection states (unit steps; whole exchanges are outside the claim)"
UNITS = ["http.c", "http-internal.h", "evutil.c"]
FUNCTIONS = ["evhttp_connection_fail_", "evhttp_connection_incoming_fail", "evhttp_connection_done", "evhttp_error_cb", "evhttp_connection_cb_cleanup",
             "evhttp_cancel_request", "evhttp_send_done", "evhttp_request_free", "evhttp_request_free_", "evhttp_request_free_auto", "evhttp_connection_free",
             "evhttp_connection_reset_", "evhttp_connection_reset_hard_", "evhttp_request_new", "evhttp_get_request", "evhttp_is_request_connection_close"]
BOUNDS = "one step per obligation from a constructed connection: outgoing or incoming, 0-2 queued requests built by evhttp_request_new, every evcon->state, every evhttp_request_error, symbolic bufferevent event mask, symbolic AUTOFREE / READ_ON_WRITE_ERROR / CLOSEDETECT flags, symbolic presence of error/on_complete callbacks, retry_cnt/retry_max in 0..2 (and unlimited), connection_max and connection_cnt in 0..3"
OUT = "whole exchanges (failure at every byte / loop step, retries over time, pipelining sequences, base free during callbacks): PARTIAL claim, unit steps only; the calls that start the next exchange (evhttp_connection_connect_, evhttp_request_dispatch, evhttp_associate_new_request_with_connection, evhttp_connection_read_on_write_error, evhttp_send_error in the accept step) are recorders; bufferevent / event / evbuffer are recorders (C17-C19); user callbacks that re-enter the API (make a new request, free the connection) from inside the callback"
TEXT = "From every constructed connection state one step of the real failure/completion code is executed and the per-request counts are asserted: completion callback exactly once (none when cancelled), error callback at most once and only when set, on_complete once, the other queued request untouched and restarted exactly once; every request and connection is freed exactly once (cbmc pointer checks for double free / use after free plus --memory-leak-check after the harness released what is legitimately alive); server connection_cnt is decremented exactly once per freed connection and connections being served never exceed connection_max (the connection beyond the limit only lives to carry its 503)."
NOTE = "Trusted: recorders for bufferevent/event/evbuffer; request objects come from the library's evhttp_request_new and are queued as evhttp_make_request / evhttp_associate_new_request_with_connection queue them."
ASSUMPTIONS = ["constructed states: requests attached to the connection as the library attaches them (req->evcon, EVHTTP_REQ_OWN_CONNECTION for incoming); an idle close-detecting connection has no queued request; evhttp_error_cb is only installed on connections that have a request or are close-detecting",
               "user callbacks only count (they do not call back into the library)"]
DESIGN_REF = "DESIGN.md §5 C27"

# Indirect calls (req->cb, error_cb, closecb, on_complete_cb): cbmc's function-pointer removal considers every function whose
# parameter list is pointer-compatible, i.e. also the message readers/writers of http.c (void f(evcon *, req *) ...) and
# evhttp_handle_request (routing, C30).  In the constructed states these pointers only ever hold the harness callbacks
# (ASSUMPTIONS); the bodies of the other candidates are removed so that symbolic execution does not wander into the parsers.
NOT_TARGETS = ["evhttp_handle_request", "evhttp_read_firstline", "evhttp_read_header", "evhttp_get_body", "evhttp_read_body", "evhttp_read_trailer",
               "evhttp_lingering_close", "evhttp_lingering_fail", "evhttp_send_continue", "evhttp_send_continue_done", "evhttp_write_connectioncb",
               "evhttp_make_header", "evhttp_make_header_request", "evhttp_make_header_response", "evhttp_send_page_", "evhttp_send",
               "evhttp_send_reply_chunk", "evhttp_read_cb", "evhttp_write_cb", "evhttp_send_notfound", "evhttp_deferred_read_cb"]
def _rm(extra=()):
    return sum([["--remove-function-body", f] for f in list(NOT_TARGETS) + list(extra)], [])
CUTS = [_rm(["evhttp_send_done"]), ["--replace-calls", "evhttp_connection_connect_:vp_cut_connect"], ["--replace-calls", "evhttp_request_dispatch:vp_cut_dispatch"],
        ["--replace-calls", "evhttp_connection_read_on_write_error:vp_cut_read_on_write_error"],
        ["--replace-calls", "evhttp_associate_new_request_with_connection:vp_cut_associate"]]
CUTS_ACCEPT = CUTS + [["--replace-calls", "evhttp_send_error:vp_cut_send_error"], ["--replace-calls", "evhttp_get_request_connection:vp_cut_get_request_connection"]]

def obligations(tier):
    obs = []
    steps = [("FAIL_OUT", "evhttp_connection_fail_ on an outgoing connection: every error code x every state x 1-2 requests"),
             ("FAIL_IN", "evhttp_connection_fail_ on an incoming connection: every error code, userdone or not"),
             ("DONE", "evhttp_connection_done: outgoing (1-2 requests, Connection: close or not, auto-free or not) and incoming"),
             ("ERROR_CB", "evhttp_error_cb: symbolic event mask x every state x flags"),
             ("CLEANUP", "evhttp_connection_cb_cleanup: retry or give up (retry_cnt, retry_max symbolic)"),
             ("CANCEL", "evhttp_cancel_request: request in progress or queued"),
             ("SEND_DONE", "evhttp_send_done: persistent or closing server connection"),
             ("CONN_FREE", "evhttp_connection_free with 0-2 queued requests, every state"),
             ("REQ_FREE", "evhttp_request_free incl. the DEFER_FREE protocol"),
             ("ACCEPT", "evhttp_get_request: connection_max / connection_cnt symbolic")]
    for s, d in steps:
        obs.append(dict(name="step_" + s.lower(), harness="C27_lifecycle.c", entry="harness_step", defines=["VP_STEP_" + s], unwind=12,
                    unwindset=["vp_in_set.0:80", "strspn.0:20", "evhttp_connection_cb_cleanup.1:4", "evhttp_connection_cb_cleanup.5:4", "evhttp_connection_cb_cleanup.7:4",
                               "evhttp_connection_free.0:4", "evhttp_clear_headers.1:3", "evhttp_clear_headers.0:3"], instrument=CUTS_ACCEPT if s == "ACCEPT" else ([_rm()] + CUTS[1:] if s == "SEND_DONE" else CUTS), native=False,
                    cbmc=["--memory-leak-check", "--object-bits", "10"], timeout=900, mem_gb=6, desc=d))
    return obs
