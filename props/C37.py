ID = "C37"
LEVEL = "model_checking"
TECHNIQUE = "CBMC bounded symbolic execution of evdns.c request_parse on a symbolic datagram (name_parse by its C33-verified contract, response formatting cut), vs an RFC 1035/6891 reference walk"
UNITS = ["evdns.c"]
FUNCTIONS = ["request_parse", "evdns_server_request_add_reply", "server_request_free", "evdns_server_request_drop"]
BOUNDS = ("every UDP datagram of <= 28 (quick) / 44 (thorough) octets in an exact-size object, name_parse replaced by its C33-verified contract with decoded "
          "names <= 4 / 6 octets, optional solver-chosen allocation failures; counts in the header unrestricted.")
OUT = ("TCP length-prefix framing (tcp_read_message, server_tcp_read_packet_cb: their bodies are cut because cbmc resolves port->user_callback to them by "
       "signature); response formatting/sending (evdns_server_request_respond is a recorder: C35); records after the first OPT are not examined by evdns and "
       "not by the check; QDCOUNT=0 packets are dropped (zero-size allocation) - accepted as is; datagrams > 44 octets.")
TEXT = ("request_parse on a symbolic datagram against an RFC 1035/6891 reference walk sharing the name oracle: no out-of-bounds access, at most one "
        "callback/response, callback only for QR=0 opcode-0 packets whose questions and walked records are complete, delivered questions (name, type, class), id, "
        "RD/CD flags and reply size limit max(512, OPT class) as in the packet, OPT echo record iff OPT present, well-formed standard queries are delivered, other "
        "opcodes answered NOTIMPL, every path (including allocation failures) releases all memory and restores the port reference count.")
NOTE = ("Trusted: cbmc 6.11, the name_parse contract stub, ref/dns_ref.h header/RR helpers. Findings (fixes/): C37-notimpl-dead (opcode bits masked before the "
        "NOTIMPL test; on the unpatched tree the witness 'NOTIMPL answered' is unreachable), C37-truncated-rdata (last record's RDATA may run past the datagram). "
        "parse_wf_*/parse_allocfail_* pass on the unpatched tree with both predicates excluded; parse_opcode_* and parse_strict_* fail without / pass with the "
        "patches. Both findings were also reproduced natively (gcc+ASan) with concrete datagrams, see fixes/*.md. Harness notes: question objects are plain byte "
        "objects and names are compared through a char pointer (cbmc 6.11 loses stores into struct padding / mis-reads char-array members of struct arrays).")
ASSUMPTIONS = ["name_parse behaves per the contract proved in C33 (fails, or advances within (idx,length] with a NUL-terminated text) - proved for packets <= 16 octets",
               "decoded question names have <= 4 (quick) / 6 (thorough) octets", "port->user_callback is the harness recorder"]
DESIGN_REF = "DESIGN.md §5 C37, §3.8"

INSTR = [["--replace-calls", "name_parse:c37_name_parse_contract"],
         ["--replace-calls", "evdns_server_request_respond:c37_respond_recorder"],
         # cbmc resolves port->user_callback by signature void(*)(ptr, ptr): besides the harness recorder these
         # three library functions match; the port's callback is the recorder, so their bodies are cut
         ["--remove-function-body", "client_tcp_read_packet_cb", "--remove-function-body", "server_tcp_read_packet_cb",
          "--remove-function-body", "reply_run_callback"]]

def rp(name, L, T=4, extra=(), **kw):
    Q = (L - 12) // 5 + 1; R = (L - 12) // 11 + 1
    d = dict(name=name, harness="C37_request_parse.c", entry="harness_request_parse",
             defines=["C37_L=%d" % L, "C37_TEXT=%d" % T] + list(extra), instrument=INSTR,
             unwind=2,
             unwindset=["request_parse.10:%d" % (Q + 2), "request_parse.14:%d" % (R + 2), "request_parse.18:%d" % (R + 2), "request_parse.24:%d" % (R + 2),
                        "request_parse.25:%d" % (Q + 2), "server_request_free.0:%d" % (Q + 2), "strlen.0:%d" % (T + 2), "strcmp.0:%d" % (T + 2), "vp_memcpy.0:18",
                        "c37_name_parse_contract.0:%d" % (T + 1), "c37_ref.0:%d" % (Q + 2), "c37_ref.1:%d" % (R + 2), "c37_ref.2:4", "harness_request_parse.0:%d" % max(Q + 1, T + 2), "harness_request_parse.1:%d" % max(Q + 1, T + 2),
                        "event_mm_calloc_.0:%d" % (Q + 1), "vp_bytes.0:%d" % (L + 1), "server_request_free_answers.0:3", "server_request_free_answers.1:4",
                        "evdns_server_request_add_reply.1:2"],
             timeout=900, mem_gb=6, cbmc=["--object-bits", "10"], native=False,
             desc="request_parse on every datagram <= %d bytes (exact-size object), decoded names <= %d bytes" % (L, T))
    d.update(kw); return d

LEN = ["C37_LENIENT_RDATA", "C37_LENIENT_AFTER_OPT"]
def obligations(tier):
    L, T = (28, 4) if tier == "quick" else (44, 6)
    kw = {} if tier == "quick" else dict(timeout=2400, mem_gb=10)
    return [rp("parse_wf_L%d" % L, L, T, extra=["C37_KF_EXCLUDE_OPCODE"] + LEN, **kw),
            rp("parse_opcode_L%d" % L, L, T, extra=LEN, **kw),
            rp("parse_strict_L%d" % L, L, T, extra=["C37_KF_EXCLUDE_OPCODE"], **kw),
            rp("parse_allocfail_L%d" % L, L, T, extra=["C37_KF_EXCLUDE_OPCODE", "C37_ALLOC_FAIL"] + LEN, **kw)]
