ID = "C37"
LEVEL = "model_checking"
TECHNIQUE = "CBMC bounded symbolic execution of evdns.c request_parse on a symbolic datagram (name_parse by its C33-verified contract, response formatting cut), vs an RFC 1035/6891 reference walk"
UNITS = ["evdns.c"]
FUNCTIONS = ["request_parse", "evdns_server_request_add_reply", "server_request_free", "evdns_server_request_drop"]
BOUNDS = ""
OUT = ""
TEXT = ""
NOTE = ""
ASSUMPTIONS = []
DESIGN_REF = "DESIGN.md §5 C37, §3.8"

INSTR = [["--replace-calls", "name_parse:c37_name_parse_contract"],
         ["--replace-calls", "evdns_server_request_respond:c37_respond_recorder"]]

def rp(name, L, T=4, extra=(), **kw):
    Q = (L - 12) // 5 + 1; R = (L - 12) // 11 + 1
    d = dict(name=name, harness="C37_request_parse.c", entry="harness_request_parse",
             defines=["C37_L=%d" % L, "C37_TEXT=%d" % T] + list(extra), instrument=INSTR,
             unwind=2,
             unwindset=["request_parse.10:%d" % (Q + 2), "request_parse.14:%d" % (R + 2), "request_parse.18:%d" % (R + 2), "request_parse.24:%d" % (R + 2),
                        "request_parse.25:%d" % (Q + 2), "server_request_free.0:%d" % (Q + 2), "strlen.0:%d" % (T + 2), "strcmp.0:%d" % (T + 2), "vp_memcpy.0:18",
                        "c37_name_parse_contract.0:%d" % (T + 1), "c37_ref.0:%d" % (Q + 2), "c37_ref.1:%d" % (R + 2), "c37_ref.2:4", "harness_request_parse.0:%d" % max(Q + 1, T + 2), "harness_request_parse.1:%d" % max(Q + 1, T + 2),
                        "event_mm_calloc_.0:%d" % (Q + 1), "vp_bytes.0:%d" % (L + 1), "server_request_free_answers.0:3", "server_request_free_answers.1:4",
                        "evdns_server_request_add_reply.1:2"],
             timeout=900, mem_gb=6, cbmc=["--object-bits", "10"], native=False,
             desc="request_parse on every datagram <= %d bytes (exact-size object), decoded names <= %d bytes" % (L, T))
    d.update(kw); return d

LEN = ["C37_LENIENT_RDATA", "C37_LENIENT_AFTER_OPT"]
def obligations(tier):
    return [rp("parse_wf_L28", 28, extra=["C37_KF_EXCLUDE_OPCODE"] + LEN),
            rp("parse_opcode_L28", 28, extra=LEN),
            rp("parse_strict_L28", 28, extra=["C37_KF_EXCLUDE_OPCODE"]),
            rp("parse_allocfail_L28", 28, extra=["C37_KF_EXCLUDE_OPCODE", "C37_ALLOC_FAIL"] + LEN)]
