ID = "C41"
LEVEL = "proof"
TECHNIQUE = "CBMC bounded symbolic execution of evutil.c ASCII helpers vs reference definitions (all 256 chars; all strings <= L) and order axioms of evutil_sockaddr_cmp on three symbolic addresses"
UNITS = ["evutil.c", "util-internal.h"]
FUNCTIONS = ["EVUTIL_IS*_", "EVUTIL_TOLOWER_", "EVUTIL_TOUPPER_", "evutil_ascii_strcasecmp", "evutil_ascii_strncasecmp", "evutil_ascii_strcasestr", "evutil_rtrim_lws_", "evutil_snprintf", "evutil_vsnprintf", "evutil_sockaddr_cmp"]
BOUNDS = "character functions: all 256 values (complete); strings: every byte string of length <= 5 (thorough 7) incl. bytes >= 0x80, n in [0,L+2]; snprintf: buffer <= 8, formatter result in [-1,11]; sockaddr_cmp: three fully symbolic IPv4/IPv6 addresses+ports"
OUT = "strings longer than the bound; the platform's vsnprintf (weakest historical contract stub); sign of strcasecmp for non-ASCII bytes is only required to be antisymmetric (the implementation compares as signed char where POSIX compares as unsigned char; not claimed either way)"
TEXT = "Tables are proved for every character; comparisons/search/trim for every string within the length bound against a restated ASCII definition; evutil_snprintf's termination/return contract against a formatter that does not terminate on truncation; sockaddr_cmp's order axioms over all address triples."
NOTE = "Trusted: cbmc incl. its strlen/strchr/memcmp library models; reference definitions in the harness."
ASSUMPTIONS = ["vsnprintf: returns would-be length or <0, writes <= buflen bytes, terminates only when the output fits", "sockaddr families restricted to AF_INET/AF_INET6 as the property states"]
DESIGN_REF = "DESIGN.md §5 C41"

def obligations(tier):
    L = 5 if tier == "quick" else 7
    d = ["VP_L=%d" % L]
    return [
        dict(name="ctype_tables", harness="C41_ascii.c", entry="harness_ctype", timeout=120, desc="all 256 characters x 10 functions"),
        dict(name="strcasecmp", harness="C41_ascii.c", entry="harness_casecmp", defines=d, unwind=L + 3, timeout=600, desc="all string pairs of length <= %d, all n" % L),
        dict(name="strcasestr", harness="C41_ascii.c", entry="harness_casestr", defines=d, unwind=L + 3, timeout=900, mem_gb=8, desc="all (haystack, needle) of length <= %d vs first-occurrence reference" % L),
        dict(name="rtrim_lws", harness="C41_ascii.c", entry="harness_rtrim", defines=d, unwind=L + 3, timeout=300, desc="all strings of length <= %d" % L),
        dict(name="snprintf_contract", harness="C41_ascii.c", entry="harness_snprintf", unwind=10, timeout=300, desc="buflen 0..8, formatter result -1..11"),
        dict(name="sockaddr_cmp_order", harness="C41_ascii.c", entry="harness_sockaddr_cmp", unwind=18, timeout=600, desc="reflexive, antisymmetric, transitive, equality-consistent on 3 symbolic IPv4/IPv6 sockaddrs, with and without port"),
    ]
