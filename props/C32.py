ID = "C32"
LEVEL = "proof"
TECHNIQUE = "CBMC bounded symbolic execution of ws.c encoders vs RFC 4648/6455 references; SHA-1 (sha1.c) decided compositionally: per-round lemmas + structural miter of SHA1Transform + padding per length"
UNITS = ["ws.c", "sha1.c"]
FUNCTIONS = ["Base64encode", "ws_gen_accept_key", "make_ws_frame", "evws_send", "evws_send_binary", "evws_close", "builtin_SHA1", "SHA1Transform", "SHA1Update", "SHA1Final"]
BOUNDS = "base64: every 20-byte input and every input of 0..6 bytes; accept key: every key of length 0..40 (SHA-1 as recorder); frames: every payload length up to 2^62; close: every 16-bit code; SHA-1: see obligations (all 512-bit blocks x all chaining values for the compression function; every message of length 0..70 bytes concretely sized for padding)"
OUT = "client keys long enough to be truncated by the 1024-byte concatenation buffer (>= 988 bytes; see DESIGN.md); HTTP upgrade header handling (C23/C26)"
TEXT = "Encoders are decided for all inputs against reference encoders/decoders; the accept value is shown to be base64(SHA1(key||GUID)) by composition: hashing input == key||GUID, output == base64(digest), and builtin_SHA1 == FIPS 180-4 SHA-1 via round lemmas and a structural miter."
NOTE = "Trusted: cbmc; references written from RFC 4648 / RFC 6455 5.2 / FIPS 180-4 in the harnesses."
ASSUMPTIONS = ["evbuffer/bufferevent replaced by recording sinks (env/ws_env.h)", "snprintf(\"%s\" GUID) per C99 (model in the harness)"]
DESIGN_REF = "DESIGN.md §5 C32"

def obligations(tier):
    obs = [dict(name="base64_n%d" % n, harness="C32_encode.c", entry="harness_base64", defines=["VP_B64N=%d" % n], unwind=42, timeout=300,
                desc="Base64encode == RFC 4648 for every input of %d bytes" % n) for n in (20, 0, 1, 2, 3, 4, 5, 6)]
    obs += [
        dict(name="accept_composition", harness="C32_encode.c", entry="harness_accept", unwind=80, timeout=600, mem_gb=6,
             desc="every key of length 0..40: SHA-1 applied to key||GUID, accept == base64(digest)"),
        dict(name="make_frame", harness="C32_encode.c", entry="harness_make_frame", unwind=17, timeout=300, desc="every payload length <= 2^62, text and binary"),
        dict(name="close_frame", harness="C32_encode.c", entry="harness_close", unwind=17, timeout=300, desc="every 16-bit status code; second close is a no-op"),
    ]
    sd = ["LITTLE_ENDIAN=1"]   # the per-file define of the real build (CMakeLists: sha1.c)
    obs += [
        dict(name="sha1_schedule", harness="C32_sha1.c", entry="harness_schedule", defines=sd, unwind=81, timeout=600, mem_gb=6, desc="S1: ring expansion + LE byte swap == FIPS W[0..79] for every block"),
        dict(name="sha1_rounds", harness="C32_sha1.c", entry="harness_rounds", defines=sd, unwind=17, timeout=600, desc="S2: each round macro == FIPS round function for arbitrary words"),
    ]
    # one five-round cut per obligation (measured 130-240 s each with cadical on a loaded box; four cuts in one query did not finish in 280 s)
    cuts = range(16)   # all cuts in both tiers: a change in any single round must be caught on every run
    for k in cuts:
        obs.append(dict(name="sha1_structure_cut%d" % k, harness="C32_sha1.c", entry="harness_structure", defines=sd + ["LIBEVENT_VERIF_SHA1_TRACE", "VP_CUT_LO=%d" % k, "VP_CUT_HI=%d" % k], unwind=81,
                        solver="cadical", timeout=900 if tier == "quick" else 2400, mem_gb=4,
                        desc="S3: rounds %d..%d of SHA1Transform == FIPS rounds over the FIPS schedule (cut at the hook's trace points) + trace order + feed-forward, every chaining value and block" % (5 * k, 5 * k + 4)))
    lens = range(0, 71) if tier == "thorough" else (0, 1, 55, 56, 60, 63, 64)
    for L in lens:
        obs.append(dict(name="sha1_driver_len%d" % L, harness="C32_sha1.c", entry="harness_driver", defines=sd + ["VP_LEN=%d" % L, "VP_LEN_HI=%d" % max(L, 1)], unwind=200, timeout=600, mem_gb=4,
                        instrument=[["--replace-calls", "SHA1Transform:vp_rec_transform"]], cbmc=["--object-bits", "10"],
                        desc="S4: builtin_SHA1 on every message of %d bytes feeds exactly the FIPS-padded blocks from the FIPS IV into one chaining state and outputs it big-endian (compression function abstracted)" % L))
    return obs
