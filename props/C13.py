"""C13: evbuffer change callbacks report exactly the changes that happened (same harness family as C12)."""
import os, importlib.util
_s = importlib.util.spec_from_file_location("prop_C12_shared", os.path.join(os.path.dirname(os.path.abspath(__file__)), "C12.py"))
C12 = importlib.util.module_from_spec(_s); _s.loader.exec_module(C12)
A, B = C12.A, C12.B

ID = "C13"
LEVEL = "model_checking"
TECHNIQUE = ("CBMC bounded symbolic execution of buffer.c: C12's concrete-prefix + one symbolic step harness with user callbacks registered "
             "on both buffers (immediate; deferred + NODEFER through a recording event_deferred_cb_schedule_ stub that later runs the real "
             "evbuffer_deferred_callback; disabled; self-removing; enable/disable toggled by prefix steps)")
UNITS = ["buffer.c", "evbuffer-internal.h", "include/event2/buffer.h"]
FUNCTIONS = ["evbuffer_run_callbacks", "evbuffer_invoke_callbacks_", "evbuffer_deferred_callback", "evbuffer_add_cb", "evbuffer_remove_cb_entry",
             "evbuffer_cb_set_flags", "evbuffer_cb_clear_flags", "evbuffer_defer_callbacks", "n_add_for_cb/n_del_for_cb updates in every mutator of C12"]
BOUNDS = C12.BOUNDS + "; 1-3 callbacks per buffer"
OUT = C12.OUT + "; callbacks that modify the buffer re-entrantly (other than removing themselves); evbuffer_setcb (obsolete API); real event loop scheduling of the deferred callback"
TEXT = ("Inside every callback invocation orig_size + n_added - n_deleted == evbuffer_get_length(); no invocation without a change; after each "
        "operation (immediate callbacks) resp. after the deferred run, the sums of n_added / n_deleted over all invocations equal the bytes the "
        "byte-string model says were added / removed while the callback was enabled; disabled callbacks are never called; a self-removing "
        "callback is called at most once.")
NOTE = ("Trusted base as C12. Recorded finding KF-C13-nodefer (open, not a local repair): NODEFER callbacks on an evbuffer with deferred callbacks "
        "get earlier changes reported again until the deferred callback runs (counters are not cleared in the immediate pass); cb2_* obligations "
        "assume the predicate away only for the NODEFER sum equality, kf_nodefer_* must keep failing as predicted. The C14 fixes "
        "(prepend partial copy, add_buffer_reference OOM) also remove wrong callback reports for failed operations.")
ASSUMPTIONS = C12.ASSUMPTIONS + ["event_deferred_cb_schedule_ records the request (returns 1 once until run), the harness runs evbuffer_deferred_callback after the prefix and after the final step",
                                 "bytes added/removed per operation are those of ref/bytes.h (append/prepend count as added, drain/remove/readln/move-out as removed)"]
DESIGN_REF = "DESIGN.md §5 C13"

MUT_1 = ["ADD", "PREPEND", "DRAIN", "REMOVE", "PULLUP", "EXPAND", "RESERVE_COMMIT", "RESERVE_COMMIT2", "REF", "ADD_IOVEC"]
MUT_2 = C12.FINALS_2
PRE_Q = [[], [(A, "ADD", 3)], [(A, "ADD", 16)], [(A, "REF", 3)], [(A, "ADD", 15), (A, "DRAIN", 4)]]
PRE_T = PRE_Q + [[(A, "ADD", 16), (A, "ADD", 3)], [(A, "PREPEND", 3)], [(A, "ADD", 3), (A, "REF", 2)], [(A, "MCAST", 3)]]
TOGGLE = [[(A, "ADD", 3), (A, "CB_TOGGLE", 0)], [(A, "ADD", 3), (A, "CB_TOGGLE", 0), (A, "ADD", 2), (A, "CB_TOGGLE", 1)]]
PB_Q = [[(B, "ADD", 3)], [(B, "ADD", 17)], [(B, "ADD", 16), (B, "ADD", 3)]]

# KF-C13-nodefer: on a buffer with deferred callbacks n_add_for_cb/n_del_for_cb are not cleared after running the NODEFER
# callbacks, so a NODEFER callback sees every change again with each later change until the deferred run ("reported twice").
# KF_EXCLUDE_NODEFER drops only the sum check for the NODEFER callback (the per-invocation equation stays).
CORE = ["ADD", "PREPEND", "DRAIN", "REMOVE", "RESERVE_COMMIT", "REF"]
def gen(tier):
    """quick: budget <= 5 min wall on 16 idle cores (measured ~38 s per obligation); thorough: superset"""
    obs = []
    def one(pre, fin, cb, npfx=None, **kw):
        xd = (["KF_EXCLUDE_NODEFER"] if cb == 2 else []) + list(kw.pop("extra_defs", []))
        obs.append(C12.evb_split(13, pre, fin, cb=cb, name_prefix=npfx or "cb%d_" % cb, extra_defs=xd, **dict(C12.timeouts(fin[1], tier), **kw)))
    if tier == "quick":
        for pre in [[], [(A, "ADD", 3)], [(A, "ADD", 15), (A, "DRAIN", 4)]] + TOGGLE:
            for fk in CORE: one(pre, (A, fk), 1)
        for fk in ["PULLUP", "EXPAND", "RESERVE_COMMIT2", "ADD_IOVEC"]: one([(A, "ADD", 16)], (A, fk), 1)
        for pre in [[], [(A, "ADD", 3)], [(A, "ADD", 16)]]:
            for fk in CORE: one(pre, (A, fk), 2)
        for fk in ["ADD", "DRAIN", "PREPEND", "REMOVE"]: one([(A, "ADD", 3)], (A, fk), 3)
        for cb in (1, 2):
            for y in PB_Q[:2]:
                for fk in MUT_2: one([(A, "ADD", 3)] + y, (A, fk), cb)
            # two-chain source: remove_buffer lengths that end on the chain boundary relink whole chains into the destination
            one([(A, "ADD", 3)] + PB_Q[2], (A, "REMOVEBUF"), cb)
    else:
        for cb in (1, 2, 3):
            for pre in PRE_T + (TOGGLE if cb == 1 else []):
                for fk in MUT_1:
                    if cb == 3 and fk not in ("ADD", "DRAIN", "PREPEND", "REMOVE"): continue
                    one(pre, (A, fk), cb)
            if cb == 3: continue
            for x in [[], [(A, "ADD", 3)], [(A, "ADD", 16)]]:
                for y in PB_Q:
                    for fk in MUT_2: one(x + y, (A, fk), cb)
    # several changes between two runs of the deferred callback: the deferred callback must aggregate them
    for pre in [[(A, "ADD", 3), (A, "ADD", 2)], [(A, "ADD", 16), (A, "DRAIN", 5)], [(A, "ADD", 3), (A, "PREPEND", 2), (A, "DRAIN", 1)]]:
        for fk in ["ADD", "DRAIN", "PREPEND"]:
            one(pre, (A, fk), 2, npfx="cb2agg_")
    # the recorded finding: must still fail exactly as predicted
    obs.append(C12.evb_split(13, [(A, "ADD", 3), (A, "ADD", 2)], (A, "ADD"), cb=2, name_prefix="kf_nodefer_", extra_defs=["KF_ONLY_NODEFER"],
                             expect_fail=["C13: NODEFER callback: sum of"], known_finding="KF-C13-nodefer", **C12.timeouts("ADD", tier)))
    return obs

def obligations(tier):
    return gen(tier)
