import os
ID = "C08"
LEVEL = "model_checking"
TECHNIQUE = ("CBMC bounded symbolic execution of the real event.c/watch.c/evmap.c entry points on a constructed, locked "
             "event_base; lock monitor (counting lock, owner, recursion flag) installed as the evthread callbacks; "
             "solver-chosen allocation faults through event.c's mm hooks and refusing back-end/signal/pipe stubs")
UNITS = ["event.c", "watch.c", "evmap.c", "evthread-internal.h", "buffer.c", "listener.c", "bufferevent.c", "bufferevent_sock.c"]
FUNCTIONS = ["event_add", "event_del", "event_del_block", "event_del_noblock", "event_active", "event_assign", "event_base_set",
             "event_new", "event_free", "event_base_once", "event_priority_set", "event_remove_timer", "event_base_loopbreak",
             "event_base_loopcontinue", "event_base_loopexit", "event_base_loop", "event_base_gettimeofday_cached",
             "event_base_update_cache_time", "event_base_dump_events", "event_base_foreach_event", "event_pending",
             "event_finalize", "event_free_finalize", "event_base_priority_init", "event_base_init_common_timeout",
             "evwatch_prepare_new", "evwatch_check_new", "evwatch_free", "event_base_get_npriorities", "event_base_get_num_events",
             "event_base_get_max_events", "event_base_got_break", "event_base_got_exit", "event_base_get_running_event",
             "event_base_active_by_fd", "event_base_active_by_signal", "event_base_add_virtual_", "event_base_del_virtual_",
             "evthread_make_base_notifiable", "event_callback_activate_", "event_callback_cancel_", "event_callback_finalize_",
             "event_callback_finalize_many_", "event_deferred_cb_schedule_", "event_deferred_cb_cancel_", "event_active_later_",
             "event_base_free", "event_base_free_nofinalize", "event_base_assert_ok_",
             "evbuffer_add", "evbuffer_prepend", "evbuffer_expand", "evbuffer_drain", "evbuffer_remove", "evbuffer_copyout", "evbuffer_copyout_from",
             "evbuffer_pullup", "evbuffer_reserve_space", "evbuffer_commit_space", "evbuffer_add_reference", "evbuffer_add_buffer",
             "evbuffer_prepend_buffer", "evbuffer_remove_buffer", "evbuffer_add_buffer_reference", "evbuffer_search", "evbuffer_search_range",
             "evbuffer_peek", "evbuffer_ptr_set", "evbuffer_freeze", "evbuffer_unfreeze", "evbuffer_get_length", "evbuffer_get_contiguous_space",
             "evbuffer_set_max_read", "evbuffer_set_flags", "evbuffer_add_cb", "evbuffer_remove_cb", "evbuffer_remove_cb_entry", "evbuffer_cb_set_flags",
             "evbuffer_free", "evbuffer_new", "evbuffer_enable_locking", "evbuffer_defer_callbacks", "evbuffer_add_iovec",
             "bufferevent_socket_new", "bufferevent_free", "bufferevent_write", "bufferevent_write_buffer", "bufferevent_read", "bufferevent_read_buffer",
             "bufferevent_enable", "bufferevent_disable", "bufferevent_get_enabled", "bufferevent_setwatermark", "bufferevent_getwatermark",
             "bufferevent_set_timeouts", "bufferevent_settimeout", "bufferevent_setcb", "bufferevent_getcb", "bufferevent_flush", "bufferevent_trigger",
             "bufferevent_trigger_event", "bufferevent_priority_set", "bufferevent_get_priority", "bufferevent_setfd", "bufferevent_getfd",
             "bufferevent_incref", "bufferevent_decref", "bufferevent_run_deferred_callbacks_locked", "bufferevent_run_deferred_callbacks_unlocked",
             "bufferevent_finalize_cb_", "bufferevent_decref_and_unlock_",
             "evconnlistener_new", "evconnlistener_free", "evconnlistener_enable", "evconnlistener_disable", "evconnlistener_get_fd",
             "evconnlistener_get_base", "evconnlistener_set_cb", "evconnlistener_set_error_cb", "listener_read_cb"]
BOUNDS = ("event.c/watch.c: one API call per obligation on a base with 2 priorities holding a pending timer, a persistent read event and the target "
          "event (kind io/timer/signal, state assigned/added/active); call made with no loop running, from inside the target's "
          "callback, or by another thread id while the loop waits in the back end; fds/signals/priority counts from small sets, "
          "data arguments symbolic, fault vector / timeout / variant solver-chosen per unmerged scenario. buffer.c: one call on a locked two-chain "
          "evbuffer (25 bytes) + a second locked evbuffer, sizes {0,3,16,30}, k-th allocation of the call fails for k in {none,1,2,3}. "
          "listener.c: one THREADSAFE listener; creation with failing allocations; accept pass with 0-2 connections, EAGAIN or hard error "
          "(with/without error callback), accept callback disabling/freeing/re-enabling the listener. bufferevent: one THREADSAFE socket "
          "bufferevent (plain / deferred / deferred+unlocked callbacks), creation with the k-th allocation failing (k<=4), 1-4 calls with the "
          "k-th allocation failing (k<=2) and the back end refusing or not, free, two loop passes")
OUT = ("bufferevent_pair/filter/openssl, rate-limit groups, bufferevent_socket_connect*, socket I/O callbacks (bufferevent_readcb/writecb never "
       "fire here), evdns.c, http.c entry points (lock balance there is asserted by the harnesses of those units' own properties through "
       "VP_ASSERT_NO_LOCKS, not by a dedicated family); evbuffer_search_eol/evbuffer_readln (no verdict within 400 s), evbuffer_add_file/"
       "evbuffer_read/evbuffer_write (descriptors; C15/C16), evbuffer_add_printf (no vsnprintf model); evconnlistener_new_bind (sockets); "
       "event_reinit; event_base_get_running_event outside a callback (documented undefined); histories of more than one call before the "
       "checked call; real back ends (the back end is a recording stub that may refuse); deadlocks that need a real interleaving (e.g. "
       "evconnlistener_disable holding the listener lock while event_del waits for an accept callback that is about to take it)")
TEXT = ("Every listed entry point returns with vp_lock_depth_total == 0 on every path (success, allocation failure, back-end refusal), "
        "never unlocks an unheld lock, never re-enters a non-recursive lock, never waits on a condition without the lock; "
        "user callbacks are entered with no internal lock held.")
NOTE = "Trusted: cbmc, env/locks.h monitor, env/evbase.h constructed base and stubs."
ASSUMPTIONS = ["base constructed field-by-field as event_base_new_with_config does (env/evbase.h), lock allocated through the callbacks",
               "setup calls (adding T, R, E) succeed; faults are enabled only for the call under test and the following loop pass",
               "lock callbacks behave as a counting recursive mutex; condition wait returns immediately (sequential execution)"]
DESIGN_REF = "DESIGN.md §5 C08"

_T = int(os.environ.get("VP_PROBE_T", "0"))

def _pins(op="", extra=()):
    # candidate sets are as small as the operation allows: with merged states every candidate of an
    # indirect call is explored (and goto-instrument asserts the pointer is one of them)
    evcb = "cb"
    if op in ("ONCE", "LOOPEXIT"): evcb += ",event_once_cb"
    if op == "COMMON_TIMEOUT": evcb += ",common_timeout_callback"
    pcb = "cb"
    if op == "NOTIFIABLE": pcb += ",evthread_notify_drain_eventfd,evthread_notify_drain_default"
    ntf = "vp_notify_fn"
    if op == "NOTIFIABLE": ntf += ",evthread_notify_base_eventfd,evthread_notify_base_default"
    P = [
        ("event_base_loop.function_pointer_call.5", "prep_cb"),
        ("event_base_loop.function_pointer_call.9", "chk_cb"),
        ("event_base_loop.function_pointer_call.7", "c08_dispatch"),
        ("event_process_active_single_queue.function_pointer_call.2", evcb),
        ("event_process_active_single_queue.function_pointer_call.4", "self_cb"),
        ("event_process_active_single_queue.function_pointer_call.6", "fin_cb"),
        ("event_process_active_single_queue.function_pointer_call.8", "cbfin_cb"),
        ("event_persist_closure.function_pointer_call.2", pcb),
        ("event_signal_closure.function_pointer_call.2", "cb"),
        ("event_once_cb.function_pointer_call.1", "cb,event_loopexit_cb"),
        ("evmap_io_add_.function_pointer_call.1", "vp_be_add"),
        ("evmap_io_del_.function_pointer_call.1", "vp_be_del"),
        ("evmap_signal_add_.function_pointer_call.1", "vp_sig_add"),
        ("evmap_signal_del_.function_pointer_call.1", "vp_sig_del"),
        ("event_base_cancel_single_callback_.function_pointer_call.3", "fin_cb"),
        ("event_base_cancel_single_callback_.function_pointer_call.4", "cbfin_cb"),
        ("event_base_foreach_event_nolock_.function_pointer_call.1", "foreach_cb,dump_inserted_event_fn,dump_active_event_fn"),
        ("event_base_foreach_event_nolock_.function_pointer_call.2", "foreach_cb,dump_inserted_event_fn,dump_active_event_fn"),
        ("event_base_foreach_event_nolock_.function_pointer_call.3", "foreach_cb,dump_inserted_event_fn,dump_active_event_fn"),
        ("evmap_io_foreach_event_fn.function_pointer_call.1", "foreach_cb,dump_inserted_event_fn,dump_active_event_fn"),
        ("evmap_signal_foreach_event_fn.function_pointer_call.1", "foreach_cb,dump_inserted_event_fn,dump_active_event_fn"),
        ("evmap_io_foreach_fd.function_pointer_call.1", "evmap_io_foreach_event_fn,evmap_io_reinit_iter_fn,evmap_io_check_integrity_fn,evmap_io_delete_all_iter_fn,event_changelist_assert_ok_foreach_iter_fn"),
        ("evmap_signal_foreach_signal.function_pointer_call.1", "evmap_signal_foreach_event_fn,evmap_signal_reinit_iter_fn,evmap_signal_check_integrity_fn,evmap_signal_delete_all_iter_fn"),
        ("event_base_free_.function_pointer_call.1", "vp_be_dealloc"),
        ("evthread_notify_base.function_pointer_call.1", ntf),
        ("event_mm_malloc_.function_pointer_call.1", "c08_malloc"),
        ("event_mm_calloc_.function_pointer_call.1", "c08_malloc"),
        ("event_mm_realloc_.function_pointer_call.1", "c08_realloc"),
        ("event_mm_free_.function_pointer_call.1", "c08_free"),
        ("vp_base_new_ops.function_pointer_call.1", "vp_be_init"),
    ] + list(extra)
    out = []
    for lab, tg in P:
        out += ["--restrict-function-pointer", "%s/%s" % (lab, tg)]
    return [out]

OPS = ["ADD", "DEL", "DEL_BLOCK", "DEL_NOBLOCK", "ACTIVE", "ASSIGN", "BASE_SET", "NEW_FREE", "ONCE", "PRIORITY_SET", "REMOVE_TIMER",
       "LOOPBREAK", "LOOPCONTINUE", "LOOPEXIT", "LOOP", "TIME", "DUMP", "FOREACH", "PENDING", "FINALIZE", "FREE_FINALIZE",
       "PRIORITY_INIT", "COMMON_TIMEOUT", "WATCH", "GETTERS", "ACTIVE_BY_FD", "ACTIVE_BY_SIGNAL", "VIRTUAL", "NOTIFIABLE",
       "CALLBACK", "DEFERRED", "ACTIVE_LATER", "FINALIZE_MANY", "ASSERT_OK", "BASE_FREE"]
KINDS = ["K_IO", "K_TIMER", "K_SIG"]
CTXN = {0: "idle", 1: "incb", 2: "xthread"}

WHATS = ["timeout", "read", "write_closed_timeout", "signal", "read_persist", "read_et_finalize", "none"]
def _ob(op, kind="K_IO", st=1, ctx=0, what=None, **kw):
    d = dict(name="%s%s_%s_st%d_%s" % (op.lower(), "" if what is None else "_" + WHATS[what], kind[2:].lower(), st, CTXN[ctx]), harness="C08_event_api.c", entry="harness_api",
             sources=[], defines=["C08_OP=OP_" + op, "C08_KIND=" + kind, "C08_ST=%d" % st, "C08_CTX=%d" % ctx],
             unwind=6, unwindset=["evmap_io_foreach_fd.0:34", "evmap_signal_foreach_signal.0:34", "evmap_io_clear_.0:34", "evmap_signal_clear_.0:34"], instrument=_pins(op), timeout=600, mem_gb=4, cbmc=["--object-bits", "10", "--no-standard-checks"],
             desc="%s on a %s event (state %d), context %s: lock balance on every path, faults symbolic" % (op, kind, st, CTXN[ctx]))
    if what is not None: d["defines"].append("C08_WHAT=%d" % what)
    d.update(kw)
    if _T: d["timeout"] = _T
    return d

BOPS = ["ADD", "PREPEND", "EXPAND", "DRAIN", "REMOVE", "COPYOUT", "PULLUP", "RESERVE_COMMIT", "ADD_REFERENCE", "ADD_BUFFER", "PREPEND_BUFFER",
        "REMOVE_BUFFER", "ADD_BUFFER_REFERENCE", "SEARCH", "SEARCH_EOL", "READLN", "PEEK", "PTR_SET", "FREEZE", "GETTERS", "CALLBACKS", "FREE",
        "DEFER", "ENABLE_LOCKING", "ADD_IOVEC", "COPYOUT_FROM", "NEW_FREE"]
def _obb(op, **kw):
    d = dict(name="evbuffer_%s" % op.lower(), harness="C08_evbuffer_api.c", entry="harness_evbuffer_api", sources=[],
             defines=["C08B_OP=%d" % BOPS.index(op), "LIBEVENT_VERIF_MIN_BUFFER_SIZE=64", "VP_OBJ=160"], unwind=42,
             unwindset=["evbuffer_chain_free:2", "evbuffer_decref_and_unlock_:2", "evbuffer_file_segment_free:1"],
             cbmc=["--max-field-sensitivity-array-size", "160", "--object-bits", "10", "--no-standard-checks"], timeout=600, mem_gb=5,
             desc="buffer.c: %s on a locked two-chain evbuffer, sizes {0,3,16,30}, k-th allocation fails k in {-,1,2,3}: lock balance" % op)
    if op in BSMALL: d["defines"].append("C08B_SMALL"); d["desc"] = d["desc"].replace("sizes {0,3,16,30}, k-th allocation fails k in {-,1,2,3}", "sizes {all/0,16}, 1st allocation may fail")
    d.update(kw)
    if _T: d["timeout"] = _T
    return d
BSMALL = ("PULLUP", "ADD_BUFFER_REFERENCE")
BSKIP = ("SEARCH_EOL", "READLN")   # no verdict within 400 s even on concrete text (evbuffer_strspn / eol scanning unrolls): left out, see OUT

LOPS = ["NEW_FREE", "ENABLE_DISABLE", "GETTERS", "SET_CB", "ACCEPT"]
LACTS = ["NONE", "DISABLE", "FREE", "CLEAR_CB", "ENABLE"]
def _obl(op, act="NONE", **kw):
    P = [("event_base_loop.function_pointer_call.7", "c08l_dispatch"),
         ("event_persist_closure.function_pointer_call.2", "listener_read_cb"),
         ("event_process_active_single_queue.function_pointer_call.2", "listener_read_cb"),
         ("listener_read_cb.function_pointer_call.3", "accept_cb"),
         ("listener_read_cb.function_pointer_call.6", "error_cb"),
         ("evmap_io_add_.function_pointer_call.1", "vp_be_add"), ("evmap_io_del_.function_pointer_call.1", "vp_be_del"),
         ("evmap_signal_add_.function_pointer_call.1", "vp_sig_add"), ("evmap_signal_del_.function_pointer_call.1", "vp_sig_del"),
         ("event_base_free_.function_pointer_call.1", "vp_be_dealloc"), ("evthread_notify_base.function_pointer_call.1", "vp_notify_fn"),
         ("event_mm_malloc_.function_pointer_call.1", "c08l_malloc"), ("event_mm_calloc_.function_pointer_call.1", "c08l_malloc"),
         ("event_mm_realloc_.function_pointer_call.1", "c08l_realloc"), ("event_mm_free_.function_pointer_call.1", "c08l_free"),
         ("vp_base_new_ops.function_pointer_call.1", "vp_be_init"),
         ("evmap_io_foreach_fd.function_pointer_call.1", "evmap_io_delete_all_iter_fn"),
         ("evmap_signal_foreach_signal.function_pointer_call.1", "evmap_signal_delete_all_iter_fn")]
    pins = []
    for lab, tg in P: pins += ["--restrict-function-pointer", "%s/%s" % (lab, tg)]
    d = dict(name="listener_%s%s" % (op.lower(), "" if act == "NONE" else "_cb" + act.lower()), harness="C08_listener_api.c", entry="harness_listener_api",
             sources=[], defines=["C08L_OP=%d" % LOPS.index(op), "C08L_CBACT=%d" % LACTS.index(act)], unwind=6,
             unwindset=["evmap_io_foreach_fd.0:34", "evmap_signal_foreach_signal.0:34", "evmap_io_clear_.0:34", "evmap_signal_clear_.0:34"],
             instrument=[pins], cbmc=["--object-bits", "10", "--no-standard-checks"], timeout=600, mem_gb=4,
             desc="listener.c: %s on a LEV_OPT_THREADSAFE listener%s: lock balance (listener lock + base lock)" % (op, "" if act == "NONE" else ", accept/error callback does " + act))
    d.update(kw)
    if _T: d["timeout"] = _T
    return d

EOPS = ["NEW_FREE", "WRITE", "READ", "ENABLE_DISABLE", "WATERMARK", "TIMEOUTS", "SETCB", "FLUSH", "TRIGGER", "PRIORITY", "FD", "REF", "GETTERS", "WRITE_BUFFER"]
EOPTS = {"plain": "0", "defer": "BEV_OPT_DEFER_CALLBACKS", "defer_unlock": "(BEV_OPT_DEFER_CALLBACKS|BEV_OPT_UNLOCK_CALLBACKS)"}
def _obe(op, opts="plain", **kw):
    P = [("event_base_loop.function_pointer_call.7", "c08e_dispatch"),
         ("event_persist_closure.function_pointer_call.2", "bufferevent_readcb,bufferevent_writecb"),
         ("event_process_active_single_queue.function_pointer_call.2", "bufferevent_readcb,bufferevent_writecb"),
         ("event_process_active_single_queue.function_pointer_call.4", "bufferevent_run_deferred_callbacks_locked,bufferevent_run_deferred_callbacks_unlocked,evbuffer_deferred_callback"),
         ("event_process_active_single_queue.function_pointer_call.8", "bufferevent_finalize_cb_"),
         ("event_base_cancel_single_callback_.function_pointer_call.4", "bufferevent_finalize_cb_"),
         ("evbuffer_run_callbacks.function_pointer_call.2", "bufferevent_socket_outbuf_cb,bufferevent_inbuf_wm_cb"),
         ("bufferevent_run_readcb_.function_pointer_call.1", "readcb"), ("bufferevent_run_writecb_.function_pointer_call.1", "writecb"),
         ("bufferevent_run_eventcb_.function_pointer_call.1", "eventcb"),
         ("bufferevent_run_deferred_callbacks_locked.function_pointer_call.2", "eventcb"), ("bufferevent_run_deferred_callbacks_locked.function_pointer_call.3", "readcb"),
         ("bufferevent_run_deferred_callbacks_locked.function_pointer_call.4", "writecb"), ("bufferevent_run_deferred_callbacks_locked.function_pointer_call.5", "eventcb"),
         ("bufferevent_run_deferred_callbacks_unlocked.function_pointer_call.3", "eventcb"), ("bufferevent_run_deferred_callbacks_unlocked.function_pointer_call.6", "readcb"),
         ("bufferevent_run_deferred_callbacks_unlocked.function_pointer_call.9", "writecb"), ("bufferevent_run_deferred_callbacks_unlocked.function_pointer_call.12", "eventcb"),
         ("evmap_io_add_.function_pointer_call.1", "vp_be_add"), ("evmap_io_del_.function_pointer_call.1", "vp_be_del"),
         ("evmap_signal_add_.function_pointer_call.1", "vp_sig_add"), ("evmap_signal_del_.function_pointer_call.1", "vp_sig_del"),
         ("event_base_free_.function_pointer_call.1", "vp_be_dealloc"), ("evthread_notify_base.function_pointer_call.1", "vp_notify_fn"),
         ("event_mm_malloc_.function_pointer_call.1", "c08e_malloc"), ("event_mm_calloc_.function_pointer_call.1", "c08e_malloc"),
         ("event_mm_realloc_.function_pointer_call.1", "c08e_realloc"), ("event_mm_free_.function_pointer_call.1", "c08e_free"),
         ("vp_base_new_ops.function_pointer_call.1", "vp_be_init"),
         ("evmap_io_foreach_fd.function_pointer_call.1", "evmap_io_delete_all_iter_fn"),
         ("evmap_signal_foreach_signal.function_pointer_call.1", "evmap_signal_delete_all_iter_fn")]
    pins = []
    for lab, tg in P: pins += ["--restrict-function-pointer", "%s/%s" % (lab, tg)]
    d = dict(name="bufferevent_%s_%s" % (op.lower(), opts), harness="C08_bufferevent_api.c", entry="harness_bufferevent_api", sources=[],
             defines=["C08E_OP=%d" % EOPS.index(op), "C08E_OPTS=%s" % EOPTS[opts], "LIBEVENT_VERIF_MIN_BUFFER_SIZE=64"], unwind=10,
             unwindset=["evmap_io_foreach_fd.0:34", "evmap_signal_foreach_signal.0:34", "evmap_io_clear_.0:34", "evmap_signal_clear_.0:34",
                        "evbuffer_chain_free:2", "evbuffer_decref_and_unlock_:2", "evbuffer_file_segment_free:1"],
             instrument=[pins], cbmc=["--object-bits", "10", "--no-standard-checks"], timeout=900, mem_gb=6,
             desc="bufferevent.c/bufferevent_sock.c: %s on a THREADSAFE socket bufferevent (%s): lock balance (bufferevent lock + base lock), allocation/back-end faults" % (op, opts))
    d.update(kw)
    if _T: d["timeout"] = _T
    return d

EVENT_OPS = ["ADD", "DEL", "DEL_BLOCK", "DEL_NOBLOCK", "ACTIVE", "ACTIVE_LATER", "PRIORITY_SET", "REMOVE_TIMER", "PENDING", "FINALIZE", "BASE_SET"]
NO_LOOP_CTX = ("BASE_FREE", "PRIORITY_INIT")   # documented as illegal while the loop runs

def obligations(tier):
    if os.environ.get("C08E_PROBE"):
        return [_obe(*x.split(":")) for x in os.environ["C08E_PROBE"].split(",")]
    if os.environ.get("C08L_PROBE"):
        return [_obl(*x.split(":")) for x in os.environ["C08L_PROBE"].split(",")]
    if os.environ.get("C08B_PROBE"):
        return [_obb(x) for x in os.environ["C08B_PROBE"].split(",")]
    if os.environ.get("C08_PROBE"):
        return [_ob(*x.split(":")[:2], st=int(x.split(":")[2]), ctx=int(x.split(":")[3])) for x in os.environ["C08_PROBE"].split(",")]
    obs = []
    seen = set()
    def add(op, **kw):
        o = _ob(op, **kw)
        if o["name"] not in seen:
            seen.add(o["name"]); obs.append(o)
    # every entry point once, no loop running, target = added I/O event
    for op in OPS:
        if op == "ONCE":
            for w in range(7): add(op, what=w)
        elif op == "NEW_FREE":
            for w in ((1, 3) if tier == "quick" else range(7)): add(op, what=w)
        else:
            add(op)
    # buffer.c and listener.c entry points (lock balance only; their functional properties are C12..C16 / C44)
    for op in BOPS:
        if op not in BSKIP: obs.append(_obb(op))
    for op in EOPS:
        for opts in (("plain",) if tier == "quick" and op not in ("TRIGGER", "WRITE", "NEW_FREE") else ("plain", "defer", "defer_unlock")):
            obs.append(_obe(op, opts))
    for op in LOPS: obs.append(_obl(op))
    for act in LACTS[1:]: obs.append(_obl("ACCEPT", act))
    if tier == "quick":
        # other kinds / states / calling contexts for the calls that do the real work
        for op in ("ADD", "DEL"):
            for kind in ("K_TIMER", "K_SIG"): add(op, kind=kind, st=1)
            add(op, st=0); add(op, kind="K_SIG", st=0); add(op, st=2)
        for op in ("ADD", "DEL_BLOCK", "ACTIVE", "LOOP", "FINALIZE", "NOTIFIABLE"):
            for ctx in (1, 2): add(op, ctx=ctx)
        for ctx in (1, 2): add("ONCE", ctx=ctx, what=1)
        add("DEL_BLOCK", kind="K_SIG", st=1, ctx=2)
    else:
        for op in EVENT_OPS:
            for kind in KINDS:
                for st in (0, 1, 2):
                    for ctx in (0, 1, 2):
                        if ctx == 1 and st != 2: continue     # (inside its own callback the target was active)
                        add(op, kind=kind, st=st, ctx=ctx)
        for op in OPS:
            if op in EVENT_OPS or op in NO_LOOP_CTX: continue
            for ctx in (1, 2):
                if op == "ONCE":
                    for w in range(7): add(op, ctx=ctx, what=w)
                elif op == "NEW_FREE":
                    for w in range(7): add(op, ctx=ctx, what=w)
                else:
                    add(op, ctx=ctx)
        # the shipped configuration compiles EVUTIL_ASSERT out
        for op in ("ADD", "DEL", "ONCE", "LOOP", "BASE_FREE", "FINALIZE"):
            o = _ob(op, **({"what": 1} if op == "ONCE" else {})); o["name"] += "_ndebug"; o["ndebug"] = True; o["desc"] += " (NDEBUG build)"; obs.append(o)
    return obs
