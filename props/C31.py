ID = "C31"
LEVEL = "model_checking"
TECHNIQUE = "CBMC bounded symbolic execution of ws.c get_ws_frame / ws_evhttp_read_cb on symbolic frame bytes vs an RFC 6455 reference decoder"
UNITS = ["ws.c"]
FUNCTIONS = ["get_ws_frame", "ws_evhttp_read_cb", "evws_close"]
BOUNDS = "frame decoder: every buffer of <= 14 bytes with every buf_len 0..14 (all three length forms, masked/unmasked, payload <= 12); message assembly: every stream of <= 6 bytes (thorough 8) in every split into two reads"
OUT = "frames longer than the buffer bound (payload loops are uniform in the length); real sockets/bufferevents (recording stand-ins)"
TEXT = "Every byte string up to the bound is decoded by the real get_ws_frame and by an RFC 6455 reference; classification, payload pointer/length/unmasking and the incomplete/complete decision must agree; buffer is exact-size so any out-of-bounds access is a failure."
NOTE = "Trusted: cbmc; ref/ws_ref.h written from RFC 6455 5.2; env/ws_env.h stand-ins for bufferevent/evbuffer."
ASSUMPTIONS = ["bufferevent/evbuffer replaced by recording stand-ins in the codec obligations (their own behaviour is C12-C19)"]
DESIGN_REF = "DESIGN.md §5 C31"

def obligations(tier):
    N = 6 if tier == "quick" else 8
    F = N // 2 + 1     # at most N/2 frames (2 bytes each) fit into N bytes
    us = ["ws_ref_run.3:%d" % (F + 1), "ws_evhttp_read_cb.0:%d" % (F + 1), "ws_ref_run.0:9", "ws_ref_run.1:%d" % (N + 1), "ws_ref_run.2:%d" % (N + 1), "get_ws_frame.0:9", "get_ws_frame.1:%d" % (N + 1),
          "evbuffer_add.0:%d" % (N + 1), "ws_ref_header.0:9", "ws_ref_header.1:5", "vp_bytes.0:%d" % (N + 1), "on_msg.0:%d" % (N + 1)]
    return [
        dict(name="stream_nofrag", harness="C31_stream.c", entry="harness_stream", defines=["VP_N=%d" % N, "KF_EXCLUDE_fragmentation"], unwind=N + 2, unwindset=us, timeout=900 if tier == "quick" else 3000, mem_gb=8, no_trace=(tier != "quick"),
             desc="every stream of <= %d bytes without fragmentation (all frames FIN, no continuation), every split into two reads: delivered (type,len,payload) sequence and closed state == RFC 6455 reference" % N),
        dict(name="stream_frag_kf", harness="C31_stream.c", entry="harness_stream", defines=["VP_N=%d" % N, "KF_ONLY_fragmentation"], unwind=N + 2, unwindset=us, timeout=900 if tier == "quick" else 3000, mem_gb=8, no_trace=(tier != "quick"),
             expect_fail=["C31: number of delivered messages differs", "C31: connection closed state differs", "C31: delivered message"], known_finding="KF-C31-fragmentation",
             desc="streams that contain a non-final or continuation frame: recorded finding (libevent does not implement RFC 6455 continuation frames)"),
        dict(name="get_ws_frame", harness="C31_frame.c", entry="harness_get_ws_frame", defines=["VP_N=14"], unwind=15, timeout=600, mem_gb=6,
             desc="all buffers <= 14 bytes x buf_len 0..14 vs RFC 6455 reference header decoder"),
    ]
