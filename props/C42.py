"""C42: tagged data -- event_tagging.c on real small evbuffers (buffer.c)."""
import os, importlib.util
_s = importlib.util.spec_from_file_location("prop_C12_for_C42", os.path.join(os.path.dirname(__file__), "C12.py"))
_c12 = importlib.util.module_from_spec(_s); _s.loader.exec_module(_c12)

ID = "C42"
LEVEL = "model_checking"
TECHNIQUE = ("CBMC bounded symbolic execution of event_tagging.c + buffer.c (real code, MIN_BUFFER_SIZE scaled to 64): (a) marshal one item with "
             "every value solver-chosen, compare the wire bytes with the reference encoder ref/tag_ref.h, unmarshal and compare; (b) one decoder on an "
             "arbitrary byte string split at a solver-chosen point over two exact-size evbuffer_add_reference chains, cbmc pointer checks + reference parser")
UNITS = ["event_tagging.c", "buffer.c", "include/event2/tag.h"]
FUNCTIONS = ["evtag_encode_int", "evtag_encode_int64", "evtag_decode_int", "evtag_decode_int64", "evtag_encode_tag", "evtag_decode_tag", "decode_tag_internal",
             "decode_int_internal", "decode_int64_internal", "encode_int_internal", "encode_int64_internal", "evtag_peek", "evtag_peek_length",
             "evtag_payload_length", "evtag_unmarshal_header", "evtag_consume", "evtag_marshal", "evtag_marshal_buffer", "evtag_unmarshal",
             "evtag_marshal_int", "evtag_unmarshal_int", "evtag_marshal_int64", "evtag_unmarshal_int64", "evtag_marshal_string", "evtag_unmarshal_string",
             "evtag_marshal_timeval", "evtag_unmarshal_timeval", "evtag_unmarshal_fixed", "evbuffer_pullup", "evbuffer_add", "evbuffer_drain", "evbuffer_remove",
             "evbuffer_add_reference"]
BOUNDS = ("round trips: ALL 2^32 tags, ALL 32-bit and ALL 64-bit integers, all timevals with 0 <= tv_sec < 2^32 and 0 <= tv_usec < 10^6, strings and raw "
          "payloads of length <= 4 (any bytes), item stored at buffer offset 0 and at offset 13 of a 16-byte chain (straddling the chain boundary); "
          "decoders: every byte string of length <= 12 (quick 10) in every split over two reference chains")
OUT = ("strings/payloads longer than 4 bytes, payloads >= 2^31 (evtag_unmarshal_header returns the uint32 length as int), allocation failure inside the decoders "
       "(decode_int_internal adds the offset to a NULL pullup result before testing it), production chain size, reads beyond the pulled-up prefix but inside "
       "a library-allocated chain (harmless slack; only reads outside user-provided exact-size memory are detected), more than two items in a row")
TEXT = ("Every tag / integer / timeval / short string / raw item marshalled with solver-chosen values is byte-for-byte the reference wire encoding, is reported "
        "by the peek functions without being consumed, and is returned unchanged with the same tag and length by the matching decoder, leaving the buffer empty. "
        "For every byte string within the bound, in every two-chain split, each decoder stays inside the data and, when it succeeds, has consumed exactly the "
        "one well-formed item the reference parser sees, with the same values; the remaining bytes are intact.")
NOTE = ("Trusted: cbmc 6.11, env/evbuf_alloc.h + env/evbuf_copy.h, ref/tag_ref.h (written from the format comment of event_tagging.c; the comment's "
        "'big-endian nibble order' is wrong, the model follows the wire), LP64. Assert-enabled encoding; NDEBUG twins in the thorough tier. "
        "Finding KF-C42-tag-overread is isolated in obligation dec_tag_kf6 / dec_peek_kf6 (fails on the unpatched tree, passes with fixes/C42-tag-overread.diff).")
ASSUMPTIONS = ["library heap objects have the literal size VP_OBJ=160 (requests <= 160 asserted); user data of the decoder obligations lives in exact-size objects",
               "memcpy/memmove are the byte loops of env/evbuf_copy.h", "locking disabled, no callbacks", "allocation never fails",
               "timeval round trip: 0 <= tv_sec < 2^32, 0 <= tv_usec < 10^6 (the wire format stores two unsigned 32-bit integers)",
               "strings contain no NUL before their end"]
DESIGN_REF = "DESIGN.md §5 C42, §3.3"

VP_OBJ = 160
H = "C42_tagging.c"
# loop bounds: exact iteration bound + 1 (value loops terminate by arithmetic the symex simplifier cannot see, so a generous bound is
# unwound in full: keep them tight; unwinding assertions are on, a too small bound is reported)
LOOPS = {"vp_bytes.0": 17, "vp_evb_byte.0": 8, "vp_evb_check.0": 8, "vp_evb_nchains.0": 8, "exp_bytes.0": 6, "tagref_enc_tag.0": 6, "tagref_nibbles.0": 17,
         "tagref_enc_int.0": 10, "tagref_enc_int.1": 17, "tagref_dec_tag.0": 6, "tagref_dec_int.0": 17, "harness_roundtrip.0": 6, "harness_roundtrip.1": 6,
         "harness_decode.0": 17, "harness_decode.1": 17, "evtag_encode_tag.0": 6, "encode_int_internal.0": 9, "encode_int64_internal.0": 17,
         "decode_tag_internal.0": 7, "decode_int_internal.0": 9, "decode_int64_internal.0": 17, "strlen.0": 6}

def _ob(name, entry, defs, desc, copy=12, ndebug=False, timeout=600, mem_gb=5, **kw):
    ob = dict(name=name + ("__ndebug" if ndebug else ""), harness=H, entry=entry,
              defines=["LIBEVENT_VERIF_MIN_BUFFER_SIZE=64", "VP_OBJ=%d" % VP_OBJ] + defs,
              desc=desc + (" (NDEBUG build)" if ndebug else ""), unwind=8,
              unwindset=["evbuffer_chain_free:1", "evbuffer_decref_and_unlock_:1", "evbuffer_file_segment_free:1"] +
                        ["%s:%d" % (l, n) for l, n in sorted(LOOPS.items())] + ["%s:%d" % (l, copy) for l in _c12.COPY_LOOPS],
              cbmc=["--max-field-sensitivity-array-size", str(VP_OBJ), "--object-bits", "10"],
              instrument=[["--replace-calls", "evbuffer_decref_and_unlock_:vp_cut_decref"],
                          ["--replace-calls", "evbuffer_file_segment_free:vp_cut_segfree"]],
              timeout=timeout, mem_gb=mem_gb, ndebug=ndebug)
    ob.update(kw)
    return ob

RTS = [("INT", "evtag_encode_int/evtag_decode_int, all 32-bit values"),
       ("INT64", "evtag_encode_int64/evtag_decode_int64, all 64-bit values"),
       ("TAG", "evtag_encode_tag/evtag_peek/evtag_decode_tag, all 32-bit tags"),
       ("MINT", "evtag_marshal_int/peek_length/payload_length/unmarshal_int, all tags x all 32-bit values"),
       ("WRONGTAG", "evtag_unmarshal_int with a different need_tag is refused"),
       ("MINT64", "evtag_marshal_int64/unmarshal_int64, all tags x all 64-bit values"),
       ("TIMEVAL", "evtag_marshal_timeval/unmarshal_timeval"),
       ("STRING", "evtag_marshal_string/unmarshal_string, length <= 4"),
       ("RAW", "evtag_marshal/evtag_unmarshal into a second buffer, length <= 4"),
       ("FIXED", "evtag_marshal/evtag_unmarshal_fixed, length <= 4"),
       ("CONSUME", "evtag_marshal/evtag_consume, length <= 4"),
       ("BUFFER", "evtag_marshal_buffer/evtag_unmarshal, length <= 4"),
       ("SEQ", "marshal_int then marshal_string, read back in order")]
DECS = ["INT", "INT64", "TAG", "PEEK", "PEEK_LENGTH", "PAYLOAD_LENGTH", "HEADER", "CONSUME", "UNMARSHAL", "UINT", "UINT64", "FIXED", "STRING", "TIMEVAL"]
TAG_FIRST = ("TAG", "PEEK", "PEEK_LENGTH", "PAYLOAD_LENGTH", "HEADER", "CONSUME", "UNMARSHAL", "UINT", "UINT64", "FIXED", "STRING", "TIMEVAL")

def obligations(tier):
    obs = []
    pres = [0, 13] if tier == "quick" else [0, 13, 15]
    for k, d in RTS:
        for pre in pres:
            if pre and k in ("WRONGTAG",): continue
            obs.append(_ob("rt_%s_pre%d" % (k.lower(), pre), "harness_roundtrip", ["RT=RT_" + k, "VP_PRE=%d" % pre], "round trip: %s; item at offset %d" % (d, pre), copy=max(pre, 10) + 2))
    L = 10 if tier == "quick" else 12
    for k in DECS:
        defs = ["DEC=DEC_" + k, "VP_L=%d" % L]
        if k in TAG_FIRST: defs.append("KF_EXCLUDE_TAG6")
        obs.append(_ob("dec_%s" % k.lower(), "harness_decode", defs, "decoder %s on arbitrary bytes, length <= %d, every 2-chain split%s" %
                       (k, L, " (excluding the KF-C42-tag-overread inputs)" if k in TAG_FIRST else ""), copy=L + 2))
    return obs
