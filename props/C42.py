"""C42: tagged data -- event_tagging.c on real small evbuffers (buffer.c)."""
import os, importlib.util
_s = importlib.util.spec_from_file_location("prop_C12_for_C42", os.path.join(os.path.dirname(__file__), "C12.py"))
_c12 = importlib.util.module_from_spec(_s); _s.loader.exec_module(_c12)

ID = "C42"
LEVEL = "model_checking"
TECHNIQUE = ("CBMC bounded symbolic execution of event_tagging.c (real code) in two compositions: (m_*) over the evbuffer CONTRACT model "
             "env/evbuf_contract.h (byte string ref/bytes.h + worst-case pullup: a fresh object of exactly the requested size, released by the next "
             "modification) with every size symbolic -- all round trips over all values and every decoder on every byte string; (r_*) over the REAL "
             "buffer.c (64-byte chains): encoders/marshallers, evtag_decode_tag, evtag_peek, decode_int(64)_internal and single-chain "
             "evtag_decode_int(64), the data-dependent sizes split into classes whose concrete sizes are asserted equal to what event_tagging.c "
             "requests; arbitrary bytes live in two exact-size evbuffer_add_reference chains. Oracle: reference codec ref/tag_ref.h + cbmc pointer checks")
UNITS = ["event_tagging.c", "buffer.c", "include/event2/tag.h"]
FUNCTIONS = ["evtag_encode_int", "evtag_encode_int64", "evtag_decode_int", "evtag_decode_int64", "evtag_encode_tag", "evtag_decode_tag", "decode_tag_internal",
             "decode_int_internal", "decode_int64_internal", "encode_int_internal", "encode_int64_internal", "evtag_peek", "evtag_peek_length",
             "evtag_payload_length", "evtag_unmarshal_header", "evtag_consume", "evtag_marshal", "evtag_marshal_buffer", "evtag_unmarshal",
             "evtag_marshal_int", "evtag_unmarshal_int", "evtag_marshal_int64", "evtag_unmarshal_int64", "evtag_marshal_string", "evtag_unmarshal_string",
             "evtag_marshal_timeval", "evtag_unmarshal_timeval", "evtag_unmarshal_fixed", "evbuffer_pullup", "evbuffer_add", "evbuffer_drain",
             "evbuffer_add_reference"]
BOUNDS = ("round trips (m_*): ALL 2^32 tags, ALL 32-bit and ALL 64-bit integers, all timevals with 0 <= tv_sec < 2^32 and 0 <= tv_usec < 10^6, strings and raw "
          "payloads of length <= 4 (any bytes), two items in a row; decoders (m_*): every byte string of length <= 12 (quick 10). Real evbuffers (r_*): same "
          "value ranges for encoders (item at buffer offset 0, 13, 15 of a 16-byte chain; encoded tag sizes 1..5, quick {1,2,5}); leaf decoders on every byte "
          "string of length <= 8 (tags), <= 7 / <= 9 (32-bit integers at offset 0 / 2), <= 11 (64-bit integers) in every split over two exact-size reference chains (quick: one length per decoder, 6..8)")
OUT = ("strings/payloads longer than 4 bytes, payloads >= 2^31 (evtag_unmarshal_header returns the uint32 length as int), timevals outside the 32-bit wire "
       "format (tv_sec is truncated to 32 bits by evtag_marshal_timeval), allocation failure inside the decoders (decode_int_internal adds the offset to a NULL "
       "pullup result before testing it), production chain size, the multi-stage unmarshallers ON REAL evbuffers (a state merge behind a decoder's early "
       "return followed by another evbuffer call does not finish under symex: they are decided over the contract model, whose conformance to buffer.c is C12), "
       "more than two items in a row")
TEXT = ("Every tag / integer / timeval / short string / raw item marshalled with solver-chosen values is byte-for-byte the reference wire encoding, is reported "
        "by the peek functions without being consumed, and is returned unchanged with the same tag and length by the matching decoder, leaving the buffer empty. "
        "For every byte string within the bound each decoder reads only bytes it made contiguous (and only inside the data), and when it succeeds it has consumed "
        "exactly the one well-formed item the reference parser sees, with the same values; the remaining bytes are intact.")
NOTE = ("Trusted: cbmc 6.11, env/evbuf_contract.h (justified by C12), env/evbuf_alloc.h + env/evbuf_copy.h, ref/tag_ref.h (written from the format comment of "
        "event_tagging.c; the comment's 'big-endian nibble order' is wrong, the model follows the wire), LP64. Assert-enabled encoding. "
        "Finding KF-C42-tag-overread is isolated in obligations m_dec_tag_kf6/m_dec_peek_kf6/r_dec_tag_kf6/r_dec_peek_kf6 (fail on the unpatched tree, pass "
        "with fixes/C42-tag-overread.diff).")
ASSUMPTIONS = ["m_*: evbuffer_add/drain/remove/pullup/get_length behave as include/event2/buffer.h documents (env/evbuf_contract.h); pullup sizes <= 16",
               "r_*: library heap objects have the literal size VP_OBJ=160; memcpy/memmove are the byte loops of env/evbuf_copy.h; evbuffer_decref_and_unlock_ and "
               "evbuffer_file_segment_free are replaced by stubs that ASSERT they are unreachable (no multicast/file chains, no evbuffer_free)",
               "locking disabled, no callbacks", "allocation never fails",
               "timeval round trip: 0 <= tv_sec < 2^32, 0 <= tv_usec < 10^6 (the wire format stores two unsigned 32-bit integers)",
               "strings contain no NUL before their end"]
DESIGN_REF = "DESIGN.md §5 C42, §3.3, §3.4, §3.8"

VP_OBJ = 160
HM = "C42_tagmodel.c"      # event_tagging.c over the evbuffer contract model (all sizes symbolic)
HR = "C42_tagging.c"       # event_tagging.c over the real buffer.c (size classes)

# loop bounds: exact iteration bound + 1 (value loops terminate by arithmetic the symex simplifier cannot see, so a generous bound is
# unwound in full: keep them tight; unwinding assertions are on, a too small bound is reported)
def loops(L):
    return {"vp_bytes.0": max(L, 16) + 1, "exp_bytes.0": 6, "tagref_enc_tag.0": 6, "tagref_nibbles.0": 17, "tagref_enc_int.0": 10, "tagref_enc_int.1": 17,
            "tagref_dec_tag.0": 6, "tagref_dec_int.0": 17, "rt_draw.0": 6, "evtag_encode_tag.0": 6, "encode_int_internal.0": 9,
            "encode_int64_internal.0": 17, "decode_tag_internal.0": 7, "decode_int_internal.0": 9, "decode_int64_internal.0": 17, "strlen.0": 6,
            # contract model / byte-string model: constant-bound loops
            "vpb_init.0": 130, "vpb_append.0": 130, "vpb_copyout.0": 66, "evbuffer_remove.0": 66, "evbuffer_pullup.0": 18,
            # real evbuffers
            "vp_evb_byte.0": 8, "vp_evb_check.0": 8, "vp_evb_nchains.0": 8}

def model_ob(name, entry, defs, desc, L=12, ndebug=False, timeout=300, mem_gb=4, **kw):
    ob = dict(name="m_" + name + ("__ndebug" if ndebug else ""), harness=HM, entry=entry, defines=defs,
              desc="[contract model] " + desc + (" (NDEBUG build)" if ndebug else ""), unwind=8,
              unwindset=["%s:%d" % (l, n) for l, n in sorted(loops(L).items())],
              timeout=timeout, mem_gb=mem_gb, ndebug=ndebug)
    ob.update(kw)
    return ob

def real_ob(name, entry, defs, desc, L=12, copy=18, ndebug=False, timeout=300, mem_gb=4, **kw):
    lp = loops(L)
    lp.update({"harness_roundtrip.0": 11, "harness_roundtrip.1": 12, "harness_roundtrip.2": 8, "harness_decode.0": max(L + 3, 12), "harness_decode.1": max(L + 3, 12),
               "tb_mkdec.0": L + 2, "tb_mkdec.1": L + 2, "rt_run.0": 17})
    ob = dict(name="r_" + name + ("__ndebug" if ndebug else ""), harness=HR, entry=entry,
              defines=["LIBEVENT_VERIF_MIN_BUFFER_SIZE=64", "VP_OBJ=%d" % VP_OBJ, "VP_NO_REST"] + defs,
              desc="[real buffer.c] " + desc + (" (NDEBUG build)" if ndebug else ""), unwind=5,
              unwindset=["evbuffer_chain_free:1", "evbuffer_decref_and_unlock_:1", "evbuffer_file_segment_free:1"] +
                        ["%s:%d" % (l, n) for l, n in sorted(lp.items())] + ["%s:%d" % (l, copy) for l in _c12.COPY_LOOPS],
              cbmc=["--max-field-sensitivity-array-size", str(VP_OBJ), "--object-bits", "10"],
              instrument=[["--replace-calls", "evbuffer_decref_and_unlock_:vp_cut_decref"],
                          ["--replace-calls", "evbuffer_file_segment_free:vp_cut_segfree"]],
              timeout=timeout, mem_gb=mem_gb, ndebug=ndebug)
    ob.update(kw)
    return ob

RTS = [("INT", "evtag_encode_int/evtag_decode_int, all 32-bit values"),
       ("INT64", "evtag_encode_int64/evtag_decode_int64, all 64-bit values"),
       ("TAG", "evtag_encode_tag/evtag_peek/evtag_decode_tag, all 32-bit tags"),
       ("MINT", "evtag_marshal_int/peek_length/payload_length/unmarshal_int, all tags x all 32-bit values"),
       ("WRONGTAG", "evtag_unmarshal_int with a different need_tag is refused"),
       ("MINT64", "evtag_marshal_int64/unmarshal_int64, all tags x all 64-bit values"),
       ("TIMEVAL", "evtag_marshal_timeval/unmarshal_timeval"),
       ("STRING", "evtag_marshal_string/unmarshal_string, length <= 4"),
       ("RAW", "evtag_marshal/evtag_unmarshal into a second buffer, length <= 4"),
       ("FIXED", "evtag_marshal/evtag_unmarshal_fixed, length <= 4"),
       ("CONSUME", "evtag_marshal/evtag_consume, length <= 4"),
       ("BUFFER", "evtag_marshal_buffer/evtag_unmarshal, length <= 4"),
       ("SEQ", "marshal_int then marshal_string, read back in order")]
DECS = ["INT", "INT64", "TAG", "PEEK", "PEEK_LENGTH", "PAYLOAD_LENGTH", "HEADER", "CONSUME", "UNMARSHAL", "UINT", "UINT64", "FIXED", "STRING", "TIMEVAL"]
TAG_FIRST = ("TAG", "PEEK", "PEEK_LENGTH", "PAYLOAD_LENGTH", "HEADER", "CONSUME", "UNMARSHAL", "UINT", "UINT64", "FIXED", "STRING", "TIMEVAL")

KF6_TEXT = ["dereference failure: pointer outside object bounds in *tmp_post_data"]

def reach(kind, off, wl):
    """which outcome witnesses exist for byte strings of exactly wl bytes (a tag/integer needs >= 1 byte behind the offset;
    a 64-bit integer has <= 16 nibbles = 9 bytes, so with >= 9 bytes available decode_int64 never rejects)"""
    d = []
    if wl - off < 1: d.append("VP_NO_ACCEPT")
    if kind in ("INT64I", "INT64") and wl - off >= 9: d.append("VP_NO_REJECT")
    return d

def obligations(tier):
    obs = []
    for k, d in RTS:
        obs.append(model_ob("rt_%s" % k.lower(), "harness_roundtrip", ["RT=RT_" + k], "round trip: " + d))
    L = 10 if tier == "quick" else 12
    for k in DECS:
        defs = ["DEC=DEC_" + k, "VP_L=%d" % L]
        if k in TAG_FIRST: defs.append("KF_EXCLUDE_TAG6")
        obs.append(model_ob("dec_%s" % k.lower(), "harness_decode", defs, "decoder %s on arbitrary bytes, length <= %d%s" %
                            (k, L, " (excluding the KF-C42-tag-overread inputs)" if k in TAG_FIRST else ""), L=L))
    # ---- the same routines on real evbuffers (single-stage routines; size classes) ----
    for k, d in RTS:
        if k in ("INT", "INT64", "TAG"):
            obs.append(real_ob("rt_%s_pre0" % k.lower(), "harness_roundtrip", ["RT=RT_" + k], "round trip: %s; single chain" % d))
            for pre in ([13] if tier == "quick" else [13, 15]):
                extra = [] if k == "TAG" else ["VP_LEAF_INTERNAL"]
                obs.append(real_ob("rt_%s_pre%d" % (k.lower(), pre), "harness_roundtrip", ["RT=RT_" + k, "VP_PRE=%d" % pre] + extra,
                                   "round trip: %s; item behind %d bytes, straddling the 16-byte chain boundary%s" %
                                   (d, pre, "" if k == "TAG" else " (decoded by decode_int_internal, the routine behind evtag_decode_int)")))
        elif k in ("MINT", "MINT64", "TIMEVAL", "STRING", "RAW", "BUFFER"):
            combos = [(0, 2), (13, 1), (13, 5)] if tier == "quick" else [(pre, a) for pre in (0, 13, 15) for a in (1, 2, 3, 4, 5)]
            for pre, a in combos:
                obs.append(real_ob("enc_%s_pre%d_tag%d" % (k.lower(), pre, a), "harness_roundtrip", ["RT=RT_" + k, "VP_PRE=%d" % pre, "VP_ENC_ONLY", "VP_A=%d" % a],
                                   "marshalled bytes == reference wire format: %s; tags of %d encoded byte(s); item at offset %d" % (d.split(",")[0].split("/")[0], a, pre)))
    # decoders on arbitrary bytes of length wl, split at wk over two exact-size reference chains
    if tier == "quick":
        plan = {"TAG": [7], "PEEK": [7], ("INTI", 0): [6], ("INT64I", 0): [8], ("INTI", 2): [8]}
    else:
        plan = {"TAG": range(0, 9), "PEEK": range(0, 9), ("INTI", 0): range(0, 8), ("INT64I", 0): range(0, 12), ("INTI", 2): range(0, 10)}
    for key, lens in plan.items():
        for wl in lens:
            for wk in range(0, wl + 1):
                if isinstance(key, str):
                    obs.append(real_ob("dec_%s_L%d_K%d" % (key.lower(), wl, wk), "harness_decode",
                                       ["DEC=DEC_" + key, "VP_WL=%d" % wl, "VP_WK=%d" % wk, "VP_L=%d" % max(wl, 1), "KF_EXCLUDE_TAG6"] + reach(key, 0, wl),
                                       "decoder %s on arbitrary bytes of length %d split %d+%d over two exact-size reference chains (excluding the KF-C42-tag-overread inputs)" %
                                       (key, wl, wk, wl - wk), L=12))
                else:
                    k, off = key
                    obs.append(real_ob("dec_%s_off%d_L%d_K%d" % (k.lower(), off, wl, wk), "harness_decode",
                                       ["DEC=DEC_" + k, "VP_WL=%d" % wl, "VP_WK=%d" % wk, "VP_L=%d" % max(wl, 1), "VP_OFF=%d" % off] + reach(k, off, wl),
                                       "decode_%s_internal(offset %d) on arbitrary bytes of length %d split %d+%d over two exact-size reference chains" %
                                       ("int" if k == "INTI" else "int64", off, wl, wk, wl - wk), L=12))
    for k in ("INT", "INT64"):
        for wl in ([6] if tier == "quick" else range(0, 13)):
            obs.append(real_ob("dec_%s_single_L%d" % (k.lower(), wl), "harness_decode", ["DEC=DEC_" + k, "VP_WL=%d" % wl, "VP_WK=%d" % wl, "VP_L=%d" % max(wl, 1), "VP_SINGLE"] + reach(k, 0, wl),
                               "evtag_decode_%s on arbitrary bytes of length %d in one exact-size reference chain" % (k.lower(), wl), L=12))
    for k in ("TAG", "PEEK"):
        obs.append(real_ob("dec_%s_kf6" % k.lower(), "harness_decode", ["DEC=DEC_" + k, "VP_WL=6", "VP_WK=5", "VP_L=6", "KF_ONLY_TAG6"],
                           "decoder %s on the KF-C42-tag-overread inputs, 6 bytes split 5+1 over two exact-size reference chains" % k, L=12,
                           expect_fail=KF6_TEXT, known_finding="KF-C42-tag-overread"))
    # finding KF-C42-tag-overread: exactly the excluded inputs, on the two routines that expose decode_tag_internal.
    # Fails on the unpatched tree (expect_fail), passes with fixes/C42-tag-overread.diff applied.
    for k in ("TAG", "PEEK"):
        obs.append(model_ob("dec_%s_kf6" % k.lower(), "harness_decode", ["DEC=DEC_" + k, "VP_L=%d" % L, "KF_ONLY_TAG6"],
                            "decoder %s on the KF-C42-tag-overread inputs (five continuation bytes, more data behind them), length <= %d" % (k, L), L=L,
                            expect_fail=KF6_TEXT, known_finding="KF-C42-tag-overread"))
    return obs
