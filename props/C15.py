"""C15: references, buffer references (multicast) and file segments deliver their bytes and clean up exactly once."""
import os, importlib.util
_s = importlib.util.spec_from_file_location("prop_C12_for_C15", os.path.join(os.path.dirname(__file__), "C12.py"))
_c12 = importlib.util.module_from_spec(_s); _s.loader.exec_module(_c12)

ID = "C15"
LEVEL = "model_checking"
TECHNIQUE = ("CBMC bounded symbolic execution of buffer.c (real code, MIN_BUFFER_SIZE scaled to 64): concrete scenario prefix (operation kinds and sizes "
             "enumerated, every payload and file byte symbolic), then ONE further operation whose kind, target buffer and size are solver-chosen by case "
             "split, then release of everything; pread/mmap/munmap/sysconf/close are contract stubs (env/sock_io.h, 16-byte model file, page size 8); "
             "oracle = byte-string model ref/bytes.h per buffer, ghost copy of referenced memory, cleanup callbacks that free the referenced memory")
UNITS = ["buffer.c", "evbuffer-internal.h", "include/event2/buffer.h"]
FUNCTIONS = ["evbuffer_add_reference", "evbuffer_add_reference_with_offset", "evbuffer_add_buffer_reference", "APPEND_CHAIN_MULTICAST", "evbuffer_chain_free",
             "evbuffer_decref_and_unlock_", "evbuffer_free", "evbuffer_file_segment_new", "evbuffer_file_segment_materialize", "evbuffer_add_file_segment",
             "evbuffer_file_segment_free", "evbuffer_file_segment_add_cleanup_cb", "evbuffer_drain", "evbuffer_remove", "evbuffer_copyout", "evbuffer_pullup",
             "evbuffer_add_buffer", "evbuffer_remove_buffer"]
BOUNDS = ("7 scenario prefixes (reference with/without offset between copied data; one source shared by two destinations, with and without a user "
          "reference inside, source drained first; file segment in mmap mode at file offsets 0/3/8/10 with page size 8, used by two buffers with different "
          "sub-ranges; file segment in read mode with short preads; reference chain moved between buffers by add_buffer/remove_buffer) x one further "
          "operation from {drain, remove, copyout, pullup} x sizes {0,1,2,3,4,5,7,9,12} or evbuffer_free, on any of the <= 3 buffers; then free of the rest")
OUT = ("sendfile-mode segments (C16), evbuffer_add_file (needs fstat), real mmap alignment beyond 'offset multiple of the page size', huge files, "
       "histories with two or more further operations, write-to-fd read path (C16), production chain size")
TEXT = ("In every scenario and for every choice of the further operation: each buffer's length and bytes (read from the chains, and as delivered by "
        "remove/copyout/pullup) equal the referenced bytes / file range; referenced user memory is never written; the reference cleanup callback runs at "
        "most once and never while a chain still points into the memory (it frees the memory, so later use is a pointer-check failure), and exactly once "
        "when everything has been released; mmap gets a page-aligned offset, the mapping is unmapped exactly once with its own address/length and not "
        "while chains use it, the segment cleanup callback runs exactly once, the descriptor is not closed without CLOSE_ON_FREE; the allocator is balanced.")
NOTE = ("Trusted: cbmc 6.11, env/sock_io.h, env/evbuf_alloc.h, env/evbuf_copy.h, ref/bytes.h, LP64. Assert-enabled encoding; NDEBUG twins in the thorough tier. "
        "Finding KF-C12-pullup-immutable-multicast (grpD: fixes/C12-pullup-immutable-multicast.diff) is isolated in obligation scen3_kf_pullup.")
ASSUMPTIONS = ["pread/mmap/munmap/sysconf behave per env/sock_io.h", "library heap objects have the literal size VP_OBJ=160", "locking disabled, no callbacks",
               "allocation never fails (C14 owns OOM)"]
DESIGN_REF = "DESIGN.md §5 C15, §3.3, §3.4"

VP_OBJ = 160
H = "C15_refs.c"
SCENS = {1: "add(3) reference_with_offset(R+2,4) add(2)", 2: "reference(R,6)", 3: "S=add(3); A,B=add_buffer_reference(S)+add(5)",
         4: "S=reference(R,4)+add(3); A,B=add_buffer_reference(S); S drained", 5: "file segment (mmap) in A[1..5) and B[0..6)",
         6: "file segment (read mode, short preads) behind add(2)", 7: "reference chain moved by add_buffer/remove_buffer"}
NBUF = {1: 1, 2: 1, 3: 3, 4: 3, 5: 2, 6: 1, 7: 3}
LOOPS = {"vp_bytes.0": 18, "vpb_init.0": 130, "vpb_append.0": 130, "vpb_copyout.0": 66, "vp_evb_byte.0": 8, "vp_evb_check.0": 8, "check_all.0": 5, "check_all.1": 8,
         "chains_into.0": 8, "chains_into.1": 5, "R_new.0": 8, "harness_refs.0": 12, "harness_refs.1": 12, "harness_refs.2": 12, "harness_refs.3": 5, "set_script.0": 6, "check_all.2": 8, "check_all.3": 8,
         "vp_io_pread.0": 18, "vp_io_mmap.0": 26, "evbuffer_file_segment_materialize.0": 6}

def ob(name, defs, desc, rec=1, ndebug=False, timeout=900, mem_gb=8, **kw):
    o = dict(name=name + ("__ndebug" if ndebug else ""), harness=H, entry="harness_refs",
             defines=["LIBEVENT_VERIF_MIN_BUFFER_SIZE=64", "VP_OBJ=%d" % VP_OBJ] + defs,
             desc=desc + (" (NDEBUG build)" if ndebug else ""), unwind=6,
             unwindset=["evbuffer_chain_free:%d" % rec, "evbuffer_decref_and_unlock_:%d" % rec, "evbuffer_file_segment_free:1"] +
                       ["%s:%d" % (l, n) for l, n in sorted(LOOPS.items())] + ["%s:%d" % (l, 20) for l in _c12.COPY_LOOPS],
             cbmc=["--max-field-sensitivity-array-size", str(VP_OBJ), "--object-bits", "10"], solver="cadical",
             timeout=timeout, mem_gb=mem_gb, ndebug=ndebug)
    o.update(kw)
    return o

KF_TEXT = ["C15: a chain shared by evbuffer_add_buffer_reference was extended in place", "C15: bytes read back differ", "C15: evbuffer_pullup result differs"]

KINDS = ["drain", "remove", "copyout", "pullup", "free"]
SCRIPT_DESC = {0: "pread 4", 1: "pread 1,3", 2: "pread 2,1,1", 3: "pread 3,error", 4: "pread 2,EOF", 5: "pread error", 6: "pread EOF", 7: "mmap fails, pread 6",
               8: "mmap fails, pread 2,4", 9: "mmap fails, pread 5,error"}
SCRIPT_FAILS = (3, 4, 5, 6, 9)

def obligations(tier):
    obs = []
    # (scenario, file offset, target buffer, pread script)
    if tier == "quick":
        plan = [(1, None, 0, None), (2, None, 0, None), (3, None, 0, None), (3, None, 2, None), (4, None, 0, None), (5, 3, 0, None), (5, 3, 1, None),
                (5, 10, 0, None), (5, 10, 1, None), (5, 3, 0, 8), (6, 3, 0, 1), (7, None, 0, None), (7, None, 2, None)]
        kinds = [1, 3, 4]
        twins = [False]
    else:
        plan = [(s, None, t, None) for s in (1, 2, 3, 4, 7) for t in range(NBUF[s])]
        plan += [(5, fo, t, None) for fo in (0, 3, 8, 10) for t in (0, 1)] + [(5, 3, t, sc) for t in (0, 1) for sc in (7, 8)]
        plan += [(6, 3, 0, sc) for sc in (0, 1, 2)]
        kinds = [0, 1, 2, 3, 4]
        twins = [False, True]
    for s, fo, t, sc in plan:
        rec = 2 if s in (3, 4) else 1
        for kd in kinds:
            for nd in twins:
                if nd and kd not in (1, 3): continue
                defs = ["SCEN=%d" % s, "VP_TARGET=%d" % t, "VP_KIND=%d" % kd] + (["FOFF=%d" % fo] if fo is not None else []) + (["KF_EXCLUDE_PULLUP_MCAST"] if s == 3 else [])
                if sc is not None: defs += ["VP_SCRIPT=%d" % sc] + (["VP_MMAP_FAIL"] if s == 5 else [])
                obs.append(ob("scen%d%s%s_%s_%s" % (s, "" if fo is None else "_off%d" % fo, "" if sc is None else "_s%d" % sc, "ABS"[t], KINDS[kd]), defs,
                              "[%s]%s%s, then %s on buffer %s%s" % (SCENS[s], "" if fo is None else ", file offset %d" % fo, "" if sc is None else ", " + SCRIPT_DESC[sc],
                                                                 KINDS[kd] + ("" if kd == 4 else " of 0..12 bytes"), "ABS"[t],
                                                                 " (excluding the KF-C12-pullup-immutable-multicast cases)" if s == 3 and kd == 3 else ""), rec=rec, ndebug=nd))
    # unreadable file: segment creation / use must fail cleanly
    for s, sc in ([(6, 3), (5, 9)] if tier == "quick" else [(6, 3), (6, 4), (6, 5), (6, 6), (5, 9)]):
        defs = ["SCEN=%d" % s, "VP_TARGET=0", "VP_KIND=4", "FOFF=3", "VP_SCRIPT=%d" % sc, "VP_SCRIPT_FAILS"] + (["VP_MMAP_FAIL"] if s == 5 else [])
        obs.append(ob("scen%d_unreadable_s%d" % (s, sc), defs, "[%s], %s: the segment cannot be filled, nothing is added, nothing leaks" % (SCENS[s], SCRIPT_DESC[sc])))
    # finding (grpD's fix file): evbuffer_pullup writes into a chain shared through evbuffer_add_buffer_reference
    obs.append(ob("scen3_kf_pullup", ["SCEN=3", "VP_TARGET=0", "VP_KIND=3", "KF_ONLY_PULLUP_MCAST"],
                  "[%s]: pullup on A of more than its leading shared chain holds (KF-C12-pullup-immutable-multicast)" % SCENS[3], rec=2,
                  expect_fail=KF_TEXT, known_finding="KF-C12-pullup-immutable-multicast"))
    return obs
