ID = "C23"
LEVEL = "model_checking"
TECHNIQUE = "CBMC bounded symbolic execution of http.c leaf parsers vs RFC 9112 reference recognisers (compositional)"
UNITS = ["http.c", "http-internal.h", "evutil.c"]
FUNCTIONS = ['evhttp_parse_firstline_', 'evhttp_parse_request_line', 'evhttp_parse_http_version', 'evhttp_parse_headers_', 'evhttp_append_to_last_header', 'evhttp_add_header', 'evhttp_header_is_valid_value', 'evhttp_add_header_internal', 'evhttp_find_header', 'evhttp_count_headers', 'evhttp_get_body', 'evhttp_get_body_length', 'evhttp_method_may_have_body_', 'evhttp_method_', 'evhttp_handle_chunked_read', 'evutil_ascii_strcasecmp', 'evutil_rtrim_lws_', 'evutil_strtoll']
BOUNDS = 'request line <=20 symbolic bytes (thorough 24, NUL included); header section <=2 lines of <=8 bytes (thorough 9); framing decision: 10 (thorough 16) enumerated shapes of <=2 (3) fields {Content-Length, Transfer-Encoding, Connection, X-Y} with symbolic values <=8 (10) bytes [<=5 (6) when two Content-Length], all methods, HTTP/1.1; chunked body: symbolic stream <=8 (10) bytes; segmentation: stream <=6/7/14 (8/9/16) bytes for headers/chunked/status line with symbolic cut point, two reads'
OUT = 'URI syntax of the target (C28: evhttp_uri_parse* are contract stubs); extension methods shorter than 3 bytes (14-byte minimum line length); whole connection flow / pipelining / 100-continue / responses written (C26, C27); HTTP/1.0 requests with Transfer-Encoding; line extraction over evbuffer chains (contract model env/http_lines.h and flat evbuffer env/http_flatbuf.h; buffer.c is C12/C13); NUL bytes inside chunk-size lines; Content-Length values longer than the value bound (overflow guard of the fix is exercised up to 10 digits only); trailer section contents (parsed by evhttp_parse_headers_ = obligation headers)'
TEXT = 'Compositional (DESIGN 3.8): each server-side parsing leaf of http.c is run on fully symbolic bytes against an RFC 9112 reference recogniser (ref/http_ref.h): request line (method table, target split, version), header section (field split, OWS, obs-fold, NUL/CR, white space before colon), framing decision of evhttp_get_body (Content-Length 1*DIGIT and conflicts, Transfer-Encoding exactly chunked, methods without body), chunked decoder (size line, extensions, CRLF after data, last chunk), and segmentation independence of the stateful parsers (one read vs two reads at a symbolic cut). Accepted input must be what the reference derives (same fields), required rejections must happen, strictly grammatical input must be accepted.'
NOTE = """Trusted: cbmc 6.11; libc models env/http_fmt.h (strtoll, sscanf "HTTP/%c.%c%c", strsep, strpbrk, ctype table checked against glibc); allocator env/http_alloc.h (strings in 32-byte objects: overruns inside the slack are not seen); reference ref/http_ref.h. libevent's deliberately non-conformant acceptance of white space inside the request target (EVHTTP_URI_NONCONFORMANT, regress http/simple_nonconformant) is modelled as intended behaviour: the reference splits such lines at the first and last SP. 9 defects found and fixed in /repo (fixes/C23-*.diff)."""
ASSUMPTIONS = ['evbuffer_readln(EVBUFFER_EOL_CRLF) behaves as documented: line without its LF / CRLF terminator, length reported, bytes may include NUL but never LF (env/http_lines.h, env/http_flatbuf.h)', 'evhttp_uri_parse_with_flags / evhttp_uri_parse_authority read the target without modifying it and return an object or NULL (contract stub, C28)', 'framing harness: field values arrive OWS-trimmed and free of CR/LF/NUL (what obligation `headers` establishes for evhttp_parse_headers_)', 'continuations of evhttp_get_body (evhttp_connection_done, evhttp_connection_fail_, evhttp_read_body, evhttp_send_error, evhttp_lingering_fail, evhttp_send_continue) are recorders']
DESIGN_REF = "DESIGN.md §5 C23"

CUT_URI = [["--replace-calls", "evhttp_uri_parse_with_flags:vp_cut_uri_parse"],
           ["--replace-calls", "evhttp_uri_parse_authority:vp_cut_uri_parse_authority"]]

CUT_BODY = [["--replace-calls", "evhttp_connection_done:vp_cut_connection_done"],
            ["--replace-calls", "evhttp_connection_fail_:vp_cut_connection_fail"],
            ["--replace-calls", "evhttp_read_body:vp_cut_read_body"],
            ["--replace-calls", "evhttp_send_error:vp_cut_send_error"],
            ["--replace-calls", "evhttp_lingering_fail:vp_cut_lingering_fail"],
            ["--replace-calls", "evhttp_send_continue:vp_cut_send_continue"]]
KF_FRAMING = ["TE_NOT_CHUNKED", "CL_DUP", "CL_SYNTAX", "NOBODY_METHOD"]

def _with_token_set(obs):
    # evhttp_add_header checks names against the 77-character token alphabet (strspn): the membership loop of the
    # strspn/strpbrk model needs up to 78 rounds on that constant set
    for o in obs:
        us = list(o.get("unwindset", []))
        if not any(u.startswith("vp_in_set.0:") for u in us):
            us.append("vp_in_set.0:80")
        o["unwindset"] = us
    return obs

def obligations(tier):
    return _with_token_set(_obligations(tier))

def _obligations(tier):
    n = 20 if tier == "quick" else 24
    obs = [dict(name="reqline", harness="C23_reqline.c", entry="harness_reqline",
                defines=["VP_N=%d" % n], unwind=n + 3, instrument=CUT_URI,
                timeout=600, mem_gb=8, native=False,
                desc="request line <= %d symbolic bytes" % n)]
    v = 8 if tier == "quick" else 12
    K = {"CL": 1, "TE": 2, "cl": 3, "te": 4, "CO": 5, "XY": 6}
    shapes = [[], ["CL"], ["TE"], ["CO"], ["CL", "cl"], ["CL", "TE"], ["te", "CL"], ["TE", "TE"], ["CO", "CL"], ["TE", "CO"]]
    if tier != "quick":
        shapes += [["CL", "CL", "CL"], ["TE", "CL", "CL"], ["CL", "TE", "TE"], ["XY", "CL", "TE"], ["TE", "XY", "TE"], ["CL", "XY", "CL"]]
    for sh in shapes:
        ks = [K[x] for x in sh] + [0, 0, 0]
        ncl = sum(1 for x in sh if x in ("CL", "cl"))
        v = (8 if ncl < 2 else 5) if tier == "quick" else (10 if ncl < 2 else 6)
        if ncl >= 2 and any(x in ("TE", "te") for x in sh):
            v = 7  # "chunked" must be expressible
        obs.append(dict(name="framing_" + ("_".join(sh) or "none"), harness="C23_framing.c", entry="harness_framing",
                    defines=["VP_V=%d" % v, "VP_K0=%d" % ks[0], "VP_K1=%d" % ks[1], "VP_K2=%d" % ks[2]] ,
                    unwind=max(v + 3, 20), instrument=CUT_BODY, timeout=600 if tier == "quick" else 2400, mem_gb=6, native=False,
                    desc="framing decision for header fields [%s], values <=%d symbolic bytes, all methods" % (", ".join(sh), v)))
    L, N = (2, 8) if tier == "quick" else (2, 9)
    KF_HDR = ["WS_COLON", "OWS_HTAB", "VALUE_CTL"]
    obs.append(dict(name="headers", harness="C23_headers.c", entry="harness_headers",
                defines=["VP_L=%d" % L, "VP_N=%d" % N],
                unwind=L * (N + 1) + 3, timeout=800 if tier == "quick" else 3000, mem_gb=8,
                desc="header section: <=%d lines of <=%d symbolic bytes vs RFC 9112 5 reference" % (L, N)))
    S = 8 if tier == "quick" else 10
    obs.append(dict(name="chunked", harness="C23_chunked.c", entry="harness_chunked", defines=["VP_S=%d" % S],
                unwind=S + 3, timeout=900 if tier == "quick" else 2400, mem_gb=8,
                desc="chunked body decoder on a symbolic stream of <=%d bytes vs RFC 9112 7.1 reference" % S))
    for mode, ss in (("HEADERS", 6 if tier == "quick" else 8), ("CHUNKED", 7 if tier == "quick" else 9), ("FIRSTLINE", 14 if tier == "quick" else 16)):
        obs.append(dict(name="segment_" + mode.lower(), harness="C23_segment.c", entry="harness_segment",
                    defines=["VP_S=%d" % ss, "VP_SEG_" + mode, "VP_STR_OBJ=%d" % (ss + 2)], unwind=ss + 3, cbmc=["--object-bits", "10"],
                    # a non-final header line needs >= 3 bytes ("a:" LF): the line loop runs at most S/3+2 times (unwinding assertion proves it)
                    unwindset=["evhttp_parse_headers_.0:%d" % (ss // 3 + 3)], timeout=900 if tier == "quick" else 2400, mem_gb=8,
                    desc="segmentation independence of %s: symbolic stream <=%d bytes, symbolic cut point, one read vs two reads" % (mode.lower(), ss)))
    obs.append(dict(name="start_read", harness="C23_startread.c", entry="harness_startread", unwind=8, timeout=300, mem_gb=4,
                desc="evhttp_start_read_: bytes already buffered (any size_t amount) are scheduled for parsing, unit step (pipelining hand-over)"))
    return obs
