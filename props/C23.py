ID = "C23"
LEVEL = "model_checking"
TECHNIQUE = "CBMC bounded symbolic execution of http.c leaf parsers vs RFC 9112 reference recognisers (compositional)"
UNITS = ["http.c", "http-internal.h", "evutil.c"]
FUNCTIONS = ["evhttp_parse_request_line", "evhttp_parse_http_version"]
BOUNDS = "request line <= 20 bytes (thorough 24), all bytes symbolic except NUL"
OUT = "URI syntax of the target (C28 contract stub); embedded NUL bytes in the request line; extension methods shorter than 3 bytes"
TEXT = "work in progress"
NOTE = ""
ASSUMPTIONS = []
DESIGN_REF = "DESIGN.md §5 C23"

CUT_URI = [["--replace-calls", "evhttp_uri_parse_with_flags:vp_cut_uri_parse"],
           ["--replace-calls", "evhttp_uri_parse_authority:vp_cut_uri_parse_authority"]]

CUT_BODY = [["--replace-calls", "evhttp_connection_done:vp_cut_connection_done"],
            ["--replace-calls", "evhttp_connection_fail_:vp_cut_connection_fail"],
            ["--replace-calls", "evhttp_read_body:vp_cut_read_body"],
            ["--replace-calls", "evhttp_send_error:vp_cut_send_error"],
            ["--replace-calls", "evhttp_lingering_fail:vp_cut_lingering_fail"],
            ["--replace-calls", "evhttp_send_continue:vp_cut_send_continue"]]
KF_FRAMING = ["TE_NOT_CHUNKED", "CL_DUP", "CL_SYNTAX", "NOBODY_METHOD"]

def obligations(tier):
    n = 20 if tier == "quick" else 24
    obs = [dict(name="reqline", harness="C23_reqline.c", entry="harness_reqline",
                defines=["VP_N=%d" % n], unwind=n + 3, instrument=CUT_URI,
                timeout=600, mem_gb=8, native=False,
                desc="request line <= %d symbolic bytes" % n)]
    v = 8 if tier == "quick" else 12
    K = {"CL": 1, "TE": 2, "cl": 3, "te": 4, "CO": 5, "XY": 6}
    shapes = [[], ["CL"], ["TE"], ["CO"], ["CL", "cl"], ["CL", "TE"], ["te", "CL"], ["TE", "TE"], ["CO", "CL"], ["TE", "CO"]]
    if tier != "quick":
        shapes += [["CL", "CL", "CL"], ["TE", "CL", "CL"], ["CL", "TE", "TE"], ["XY", "CL", "TE"], ["TE", "XY", "TE"], ["CL", "XY", "CL"]]
    for sh in shapes:
        ks = [K[x] for x in sh] + [0, 0, 0]
        ncl = sum(1 for x in sh if x in ("CL", "cl"))
        v = (8 if ncl < 2 else 5) if tier == "quick" else (10 if ncl < 2 else 6)
        obs.append(dict(name="framing_" + ("_".join(sh) or "none"), harness="C23_framing.c", entry="harness_framing",
                    defines=["VP_V=%d" % v, "VP_K0=%d" % ks[0], "VP_K1=%d" % ks[1], "VP_K2=%d" % ks[2]] ,
                    unwind=max(v + 3, 20), instrument=CUT_BODY, timeout=600 if tier == "quick" else 2400, mem_gb=6, native=False,
                    desc="framing decision for header fields [%s], values <=%d symbolic bytes, all methods" % (", ".join(sh), v)))
    L, N = (2, 8) if tier == "quick" else (2, 10)
    KF_HDR = ["WS_COLON", "OWS_HTAB", "VALUE_CTL"]
    obs.append(dict(name="headers", harness="C23_headers.c", entry="harness_headers",
                defines=["VP_L=%d" % L, "VP_N=%d" % N],
                unwind=L * (N + 1) + 3, timeout=800, mem_gb=8,
                desc="header section: <=%d lines of <=%d symbolic bytes vs RFC 9112 5 reference" % (L, N)))
    S = 8 if tier == "quick" else 10
    obs.append(dict(name="chunked", harness="C23_chunked.c", entry="harness_chunked", defines=["VP_S=%d" % S],
                unwind=S + 3, timeout=900 if tier == "quick" else 2400, mem_gb=8,
                desc="chunked body decoder on a symbolic stream of <=%d bytes vs RFC 9112 7.1 reference" % S))
    for mode, ss in (("HEADERS", 6 if tier == "quick" else 8), ("CHUNKED", 7 if tier == "quick" else 9), ("FIRSTLINE", 14 if tier == "quick" else 16)):
        obs.append(dict(name="segment_" + mode.lower(), harness="C23_segment.c", entry="harness_segment",
                    defines=["VP_S=%d" % ss, "VP_SEG_" + mode, "VP_STR_OBJ=%d" % (ss + 2)], unwind=ss + 3, cbmc=["--object-bits", "10"],
                    # a non-final header line needs >= 3 bytes ("a:" LF): the line loop runs at most S/3+2 times (unwinding assertion proves it)
                    unwindset=["evhttp_parse_headers_.0:%d" % (ss // 3 + 3)], timeout=900 if tier == "quick" else 2400, mem_gb=8,
                    desc="segmentation independence of %s: symbolic stream <=%d bytes, symbolic cut point, one read vs two reads" % (mode.lower(), ss)))
    return obs
