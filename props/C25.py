ID = "C25"
LEVEL = "model_checking"
TECHNIQUE = "CBMC bounded symbolic execution of http.c size accounting (one step per function) with symbolic limits and sizes"
UNITS = ["http.c", "http-internal.h", "evutil.c"]
FUNCTIONS = ["evhttp_parse_firstline_", "evhttp_parse_headers_", "evhttp_read_body", "evhttp_handle_chunked_read", "evhttp_lingering_close", "evhttp_lingering_fail", "evhttp_get_body"]
BOUNDS = 'max_headers_size / max_body_size: any 64-bit value; header lines: <=2 (thorough 3) lines of <=6 symbolic bytes plus up to 2^20 buffered bytes; body quantities (buffered <= 2^48, announced length, accounted bytes): symbolic 64-bit; chunk-size line <=17 hex digits; one step per function'
OUT = "multi-step histories (each step starts from the stated invariant: headers_size <= max_headers_size; Content-Length total compared with the limit at the first step); evhttp_get_body's Expect: 100-continue pre-check; what is answered on the wire (413/400: evhttp_connection_fail_ is a recorder, C27); header size is measured as evhttp measures it (line bytes without CR LF)"
TEXT = 'Arithmetic of the size limits with symbolic 64-bit limits and sizes through the real evhttp_parse_firstline_, evhttp_parse_headers_, evhttp_read_body (Content-Length, close-delimited, with and without chunk callback), evhttp_handle_chunked_read (chunk-size line) and evhttp_lingering_fail/close: a message is only completed with accounted sizes within the limits, DATA_TOO_LONG is never a false alarm, nothing beyond a limit is waited for, accounting does not wrap, lingering close drains exactly the announced bytes.'
NOTE = 'Observation (not a violation of the statement): with a chunk callback evhttp_read_body compares the announced rest with max_body_size after subtracting the bytes that just arrived, so an over-long Content-Length body can be noticed one read later; the bytes handed on stay within the limit and the message is never completed.'
ASSUMPTIONS = ['state invariants listed in the harness comments (headers_size <= max_headers_size <= what was received; body_size + ntoread = Content-Length)', 'buffers carry lengths only (C25_body.c); evbuffer_readln contract model for header lines']
DESIGN_REF = "DESIGN.md §5 C25"

CUT_FIRST = [["--replace-calls", "evhttp_parse_request_line:vp_cut_parse_request_line"],
             ["--replace-calls", "evhttp_parse_response_line:vp_cut_parse_response_line"]]

def _with_token_set(obs):
    for o in obs:
        us = list(o.get("unwindset", []))
        if not any(u.startswith("vp_in_set.0:") for u in us):
            us.append("vp_in_set.0:80")
        o["unwindset"] = us
    CUT_BODY = [["--replace-calls", "evhttp_connection_done:vp_cut_connection_done"], ["--replace-calls", "evhttp_connection_fail_:vp_cut_connection_fail"],
                ["--replace-calls", "evhttp_request_free_auto:vp_cut_request_free_auto"]]
    for mode, d in (("CL", "evhttp_read_body, Content-Length framing"), ("CLOSE", "evhttp_read_body, close-delimited body"),
                    ("CHUNK", "evhttp_handle_chunked_read, one chunk-size line of <=17 hex digits"), ("LINGER", "evhttp_lingering_fail / evhttp_lingering_close")):
        obs.append(dict(name="body_" + mode.lower(), harness="C25_body.c", entry="harness_body", defines=["VP_BODY_" + mode], unwind=20,
                    instrument=CUT_BODY, native=False, timeout=900, mem_gb=6,
                    desc=d + ": symbolic 64-bit max_body_size, buffered bytes, announced length and bytes accounted; one step"))
    obs.append(dict(name="body_cl_cb", harness="C25_body.c", entry="harness_body", defines=["VP_BODY_CL", "VP_WITH_CB"], unwind=20,
                instrument=CUT_BODY, native=False, timeout=900, mem_gb=6,
                desc="evhttp_read_body, Content-Length framing with a chunk callback (partial delivery): symbolic 64-bit quantities; one step"))
    return obs

def obligations(tier):
    return _with_token_set(_obligations(tier))

def _obligations(tier):
    L, N = (2, 6) if tier == "quick" else (3, 6)
    obs = [dict(name="firstline_limit", harness="C25_headers.c", entry="harness_limit", defines=["VP_FIRSTLINE", "VP_L=1", "VP_N=8"], unwind=12,
                instrument=CUT_FIRST, native=False, timeout=600, mem_gb=4,
                desc="evhttp_parse_firstline_: symbolic max_headers_size (any size_t), line <=8 bytes or none, symbolic buffered amount"),
           dict(name="headers_limit", harness="C25_headers.c", entry="harness_limit", defines=["VP_L=%d" % L, "VP_N=%d" % N], unwind=L * (N + 1) + 3,
                unwindset=["evhttp_parse_headers_.0:%d" % (L + 2)], timeout=900, mem_gb=8,
                desc="evhttp_parse_headers_: symbolic max_headers_size and headers_size, <=%d lines of <=%d symbolic bytes, symbolic buffered amount" % (L, N))]
    return obs
