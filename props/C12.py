"""C12: evbuffer == byte-string reference model + chain invariant.
Also the obligation generator shared with C13 (callbacks) and C14 (failing allocator):
  evb_obligation(mode, prefix, final, ...) builds one "concrete prefix + ONE fully
  symbolic final operation" obligation of harness/C12_evbuffer.c (DESIGN 3.4)."""
ID = "C12"
LEVEL = "model_checking"
TECHNIQUE = ("CBMC bounded symbolic execution of buffer.c (real code, MIN_BUFFER_SIZE scaled to 64): concrete operation prefix "
             "(kinds and sizes enumerated, payload bytes symbolic) followed by ONE operation with every argument symbolic; "
             "oracle = byte-string reference model ref/bytes.h + chain representation invariant env/evbuf_inv.h")
UNITS = ["buffer.c", "evbuffer-internal.h", "include/event2/buffer.h"]
FUNCTIONS = ["evbuffer_search", "evbuffer_ptr_memcmp", "evbuffer_strchr", "evbuffer_find_eol_char", "evbuffer_strspn", "evbuffer_ptr_subtract", "evbuffer_add", "evbuffer_prepend", "evbuffer_drain", "evbuffer_remove", "evbuffer_copyout", "evbuffer_copyout_from",
             "evbuffer_pullup", "evbuffer_expand", "evbuffer_reserve_space", "evbuffer_commit_space", "evbuffer_add_reference_with_offset",
             "evbuffer_add_buffer", "evbuffer_prepend_buffer", "evbuffer_remove_buffer", "evbuffer_add_buffer_reference",
             "evbuffer_search_range", "evbuffer_search_eol", "evbuffer_readln", "evbuffer_ptr_set", "evbuffer_peek", "evbuffer_add_iovec",
             "evbuffer_freeze", "evbuffer_unfreeze", "evbuffer_free", "evbuffer_chain_*", "evbuffer_expand_singlechain", "evbuffer_expand_fast_",
             "APPEND_CHAIN", "PREPEND_CHAIN", "APPEND_CHAIN_MULTICAST", "COPY_CHAIN", "advance_last_with_data", "evbuffer_free_trailing_empty_chains"]
BOUNDS = ("2 buffers + 1 multicast source (add_buffer_reference); scaled chains: 16 payload bytes (64-byte chain) and 80 (128-byte chain); "
          "prefix: every listed state of <= 1 operation (quick) / <= 2-3 operations (thorough) with sizes from {0,1,2,3,5,8,15,16,17,20} plus the "
          "shared-source scenario (5 operations); final operation: adders (add/prepend/add_reference/expand/reserve+commit/add_iovec) every size "
          "0..18, takers (drain/remove/copyout(_from)/pullup/remove_buffer/ptr_set/peek) every length or position 0..stored+1 (pullup also -1), "
          "all other arguments (positions, lengths, offsets, commit lengths <= 8, vector counts) and all payload bytes symbolic; the 'sym_' "
          "obligations repeat the core operations with the size itself symbolic (<= 8) and no case split; <= 6 chains, <= 64 stored bytes")
OUT = ("production chain size (MIN_BUFFER_SIZE 1024) and sizes near SIZE_MAX; file segments and sendfile chains (C15); socket I/O (C16); "
       "add_printf/add_vprintf (no vsnprintf model); search/search_range/search_eol only in the reduced form (2-3 chains, 3-4 bytes, needle "
       "length 1..2, positions case-split); evbuffer_readln as a whole (search_eol + remove + drain are each covered, their composition has "
       "three data-dependent sizes in a row and did not finish even on 2 bytes); evbuffer_find; pinned chains (only the IOCP backend "
       "pins); states reachable only by longer histories than listed or by two consecutive symbolic-size operations; overruns inside the "
       "slack of the VP_OBJ-sized heap objects; locking (evbuffers without lock)")
TEXT = ("For every enumerated prefix state and every value of the final operation's arguments: the return value / returned count, pointer or "
        "position and every refusal (frozen end, out-of-range) equal the byte-string model's; afterwards each buffer's length and EVERY stored byte "
        "(read straight from the chains at a solver-chosen index) equal the model; the chain invariant of evbuffer-internal.h holds (first/last/"
        "last_with_datap, total_len == sum off, misalign+off <= buffer_len, empties only trailing); referenced user memory is untouched; live "
        "allocations == objects reachable from the buffers and reference cleanups ran exactly once per released reference; 'free_' obligations: "
        "evbuffer_free of everything balances the allocator; every EVUTIL_ASSERT in the code is an obligation (assert-enabled build) with NDEBUG twins.")
NOTE = ("Trusted: cbmc 6.11 + minisat2/kissat, the allocator/copy models (env/evbuf_alloc.h, env/evbuf_copy.h), ref/bytes.h written from "
        "event2/buffer.h, LP64. The case split over the size argument (harness: VP_SPLIT) is an encoding device: the solver still chooses the "
        "value, each value just gets its own copy of the step so chain offsets stay concrete (71 s -> 14 s per obligation, and sizes up to 18 "
        "instead of 8 become affordable). Findings on the pinned tree (each with /verif/fixes/<name>.diff, reproduced natively): "
        "C12-pullup-immutable-multicast, C12-add-buffer-reference-dangling-first (double free), C12-reserve-space-zero-assert; the obligations "
        "shared_*__bpullup, expand8_b*__addbufref, add16__reserve_commit2, prepend3__reserve_commit2 FAIL on the pre-fix buffer.c (f0edfe3) and "
        "pass on the tree with the fix: commits. Do not add --slice-formula: it drops input assignments from traces and breaks replay.")
ASSUMPTIONS = ["every heap object has the literal size VP_OBJ=160 (requests <= 160 asserted, i.e. chains of 64 and 128 bytes and struct evbuffer)",
               "memcpy/memmove/memchr/memcmp are the byte loops of env/evbuf_copy.h",
               "locking disabled (evbuffer without lock); no parent bufferevent; callbacks none (C13 adds them)",
               "remove/copyout destination <= 64 bytes; expand argument <= 24; reserve/commit: the user commits <= 8 bytes per extent and does not leave the first of two extents empty while filling the second",
               "allocation never fails (C14 lifts this)"]
DESIGN_REF = "DESIGN.md §5 C12, §3.3, §3.4"

VP_OBJ = 160
HARNESS = "C12_evbuffer.c"
A, B = 0, 1

# chain payload capacity is 16 at the scaled constant
SIZES = [0, 1, 3, 15, 16, 17]

def pname(p):
    t, k, n = p
    return "%s%s%s" % ("b" if t == B else "", k.lower(), "" if n is None else str(n))

def evb_obligation(mode, prefix, final, cb=0, final_max=8, extra_defs=(), ndebug=False, timeout=600, mem_gb=5,
                   name_prefix="", wit_failpath=False, expect_fail=None, known_finding=None, desc_extra="", solver=None):
    """prefix: list of (target, KIND, size); final: (target, KIND)"""
    defs = ["LIBEVENT_VERIF_MIN_BUFFER_SIZE=64", "VP_OBJ=%d" % VP_OBJ, "VP_MODE=%d" % mode, "VP_CB=%d" % cb, "VP_FINAL_MAX=%d" % final_max]
    total = 0
    for i, (t, k, n) in enumerate(prefix):
        defs += ["P%dT=%d" % (i, t), "P%dK=K_%s" % (i, k), "P%dN=%d" % (i, n or 0)]
        if k in ("ADD", "PREPEND", "REF", "MCAST", "RESERVE_COMMIT", "ADD_IOVEC"): total += (n or 0)
    ft, fk = final
    defs += ["FT=%d" % ft, "FK=K_%s" % fk]
    if wit_failpath: defs.append("VP_WIT_FAILPATH")
    defs += list(extra_defs)
    # loop bounds: payload copy loops run over at most everything stored (+ the final op), model loops are constant-bound
    copy = max(total + final_max, 24) + 2
    if fk in SEARCHERS: copy = total + 3          # byte scans/compares never look at more than the stored bytes (+ NUL of readln)
    wlen = 2 if fk in ("SEARCH_EOL", "READLN") else 1      # CRLF_STRICT searches for the 2-byte needle "\r\n"
    for d in extra_defs:
        if d.startswith("VP_WLEN="): wlen = int(d.split("=")[1])
    # freeing a multicast chain re-enters evbuffer_chain_free/evbuffer_decref_and_unlock_ once (parent chain, source buffer)
    # library chain walks: at most (chains the prefix can have created) + the final operation's own, + 1 for the exit test
    created = sum({"ADD": 1, "PREPEND": 1, "REF": 1, "EXPAND": 1, "RESERVE_COMMIT": 1, "RESERVE_COMMIT2": 2, "RESERVE_ONLY": 1, "ADD_IOVEC": 2, "MCAST": 2, "ADDBUFREF": 2}.get(k, 0) for _, k, _ in prefix)
    chain_unwind = min(CHAIN_UNWIND, created + 3)
    rec = 2 if (fk in ("ADDBUFREF", "MCAST") or any(k in ("ADDBUFREF", "MCAST") for _, k, _ in prefix)) else 1
    nm = "%s%s__%s%s" % (name_prefix, "_".join(pname(p) for p in prefix) or "empty", "b" if ft == B else "", fk.lower())
    if ndebug: nm += "__ndebug"
    ob = dict(name=nm, harness=HARNESS, entry="harness_evbuffer", defines=defs,
              desc="prefix [%s] then symbolic %s on %s%s%s" % (", ".join(pname(p) for p in prefix), fk, "AB"[ft],
                                                                 {0: "", 1: ", immediate callbacks", 2: ", deferred+NODEFER callbacks", 3: ", disabled + self-removing callbacks"}[cb], desc_extra),
              unwind=chain_unwind,
              unwindset=evb_unwindset(copy, rec, search=(total, wlen) if fk in SEARCHERS else None),
              cbmc=["--max-field-sensitivity-array-size", str(VP_OBJ), "--object-bits", "10"],
              timeout=timeout, mem_gb=mem_gb, ndebug=ndebug)
    if solver is None and (nm in KISSAT_NAMES or any(k == "MCAST" for _, k, _ in prefix) or ((cb or ndebug) and fk in ("PULLUP", "EXPAND"))):
        solver = "kissat"      # minisat2 occasionally needs > 900 s on these small instances (measured), kissat 5-60 s
    if fk == "READLN" and not any(k in ("MCAST", "ADDBUFREF") for _, k, _ in prefix) and not cb:
        ob["instrument"] = [["--replace-calls", "evbuffer_decref_and_unlock_:vp_no_decref"]]
    if solver: ob["solver"] = solver
    if expect_fail: ob["expect_fail"] = expect_fail
    if known_finding: ob["known_finding"] = known_finding
    return ob

KISSAT_NAMES = {"add15__copyout"}
# loops: library chain walks get the global bound CHAIN_UNWIND (<= 6 chains + slack); byte loops of the harness, the
# reference model and the copy models are named explicitly (ids that do not exist in a configuration are ignored by cbmc
# with a warning; unwinding assertions are always on, so a missing or too small bound is reported, never silently cut).
CHAIN_UNWIND = 8
MODEL_LOOPS = (["vpb_init.0", "vpb_copy.0", "vpb_equal.0", "vpb_append.0", "vpb_prepend.0", "vpb_prepend.1", "vpb_drain.0", "vpb_copyout.0",
                "vpb_search.0", "vpb_search.1", "vpb_eol.0", "vpb_eol.1", "vp_compare.0", "vp_compare_all.0", "vp_evb_flatten.0", "vp_evb_flatten.1",
                "vp_bytes.0"] + ["harness_evbuffer.%d" % i for i in range(6)] + ["vp_finish.%d" % i for i in range(5)] +
               ["op_%s.%d" % (f, i) for f in ("remove", "copyout", "pullup", "reserve_commit", "readln", "peek", "search", "search_eol", "add_iovec") for i in range(4)])
SEARCH_LOOPS = ["evbuffer_search_range.%d" % i for i in range(7)] + ["evbuffer_search_eol.%d" % i for i in range(8)] + \
               ["evbuffer_ptr_memcmp.%d" % i for i in range(4)] + ["evbuffer_readln.%d" % i for i in range(5)] + ["evbuffer_ptr_set.%d" % i for i in range(10)] + \
               ["evbuffer_ptr_subtract.%d" % i for i in range(3)]
COPY_LOOPS = ["vp_memcpy.0", "vp_memmove.0", "vp_memmove.1", "vp_memchr.0", "vp_memcmp.0", "find_eol_char.0",
              "evbuffer_strspn.0", "evbuffer_strspn.1", "evbuffer_strspn.2", "evbuffer_strchr.0", "evbuffer_find_eol_char.0"]
HARNESS_CHAIN_LOOPS = ["vp_evb_check.0", "vp_evb_nchains.0", "vp_evb_byte.0", "vp_evb_count_flag.0", "vp_run_deferred.0",
                       "event_deferred_cb_schedule_.0", "event_deferred_cb_cancel_.0"] + \
                      ["evbuffer_run_callbacks.%d" % i for i in range(4)] + ["evbuffer_remove_all_callbacks.%d" % i for i in range(3)]      # own concrete counters (<= 6 chains / 3 slots)
def evb_unwindset(copy, rec=1, search=None):
    """search = (stored bytes, needle length) for the reduced search obligations: tight per-loop bounds (each extra
    unwinding of a byte scan over a symbolic chain offset costs a 160-way mux per byte)"""
    def bound(l):
        if l == "vp_memcpy.0": return max(copy, 26)
        if search:
            L, w = search
            if l == "vp_memcmp.0": return w + 1
            return L + 2
        return copy
    sl = 12
    if search: sl = search[0] + 4
    return (["%s:8" % l for l in HARNESS_CHAIN_LOOPS] +
            ["evbuffer_chain_free:%d" % rec, "evbuffer_decref_and_unlock_:%d" % rec, "evbuffer_file_segment_free:1"] +
            ["%s:%d" % (l, 130) for l in MODEL_LOOPS] + ["%s:%d" % (l, bound(l)) for l in COPY_LOOPS] +
            ["%s:%d" % (l, 5 if l.startswith("evbuffer_ptr_memcmp") else sl) for l in SEARCH_LOOPS])

# ---------------------------------------------------------------------------------------------------------------
# enumeration of prefixes x final operations
ADDERS = ["ADD", "PREPEND", "REF", "EXPAND", "RESERVE_COMMIT", "RESERVE_COMMIT2", "ADD_IOVEC"]      # primary argument: size added
TAKERS = ["DRAIN", "REMOVE", "COPYOUT", "COPYOUT_FROM", "PULLUP", "PTR_SET", "PEEK"]              # primary: length / position
SEARCHERS = ["SEARCH", "SEARCH_RANGE", "SEARCH_EOL", "READLN"]   # reduced form: small multi-chain buffers, needle length 1..2, positions case-split
FINALS_1 = ADDERS + TAKERS
FINALS_2 = ["ADDBUF", "PREPENDBUF", "REMOVEBUF", "ADDBUFREF"]                                     # A <- B
ADD_SPLIT = 18          # adders: every size 0..18 (crosses the 16-byte chain capacity from any fill level)

def stored(prefix, t=None):
    return sum((n or 0) for tt, k, n in prefix if k in ("ADD", "PREPEND", "REF", "MCAST") and (t is None or tt == t))

def split_bound(prefix, final):
    ft, fk = final
    if fk == "ADD_IOVEC": return 4 * 13 - 1                      # len0 0..12 x len1 0..3 (n = 4*len0 + len1)
    if fk in ADDERS or fk == "RESERVE_ONLY": return ADD_SPLIT
    if fk == "REMOVEBUF": return stored(prefix, 1 - ft) + 1      # bytes in the source buffer + 1 ("more than stored")
    L = stored(prefix)
    if fk == "SEARCH": return L + 2
    if fk == "SEARCH_RANGE": return (L + 2) * (L + 2) - 1
    if fk == "SEARCH_EOL": return 5 * (L + 2) + 4
    if fk == "READLN": return 4
    if fk in TAKERS: return stored(prefix) + 1
    return None                                                  # no size argument (add_buffer & co): nothing to split

def evb_split(mode, prefix, final, **kw):
    """case-split encoding of the final step (see harness: VP_SPLIT); identical claim, sizes 0..bound"""
    b = split_bound(prefix, final)
    extra = list(kw.pop("extra_defs", []))
    if final[1] in SEARCHERS: extra.append("VP_G3_LEN=%d" % stored(prefix))
    if b is not None:
        extra.append("VP_SPLIT=%d" % b)
        kw.setdefault("desc_extra", "")
        kw["desc_extra"] += "; size/position argument 0..%d case-split, other arguments and all bytes symbolic" % b
    kw.setdefault("final_max", ADD_SPLIT if (final[1] in ADDERS or final[1] == "RESERVE_ONLY") else 8)
    if effect_reachable(prefix, final): extra.append("VP_WIT_EFFECT")
    return evb_obligation(mode, prefix, final, extra_defs=extra, **kw)

def effect_reachable(prefix, final):
    """can the final step succeed with a visible effect?  (then the harness demands the 'took effect' witness)"""
    ft, fk = final
    fz_s = {A: False, B: False}; fz_e = {A: False, B: False}
    for t, k, n in prefix:
        if k == "FREEZE_S": fz_s[t] = True
        if k == "FREEZE_E": fz_e[t] = True
        if k == "UNFREEZE_S": fz_s[t] = False
        if k == "UNFREEZE_E": fz_e[t] = False
    # bytes still stored (drains/pullups in the prefix make an exact count awkward: be conservative -> no witness demanded)
    drained = any(k in ("DRAIN", "REMOVE", "REMOVEBUF", "ADDBUF", "PREPENDBUF", "READLN") for t, k, n in prefix)
    have = lambda t: stored(prefix, t) > 0 and not (drained and stored(prefix, t) <= sum((n or 0) for tt, k, n in prefix if k in ("DRAIN", "REMOVE")))
    if fk in ("PREPEND",): return not fz_s[ft]
    if fk in ADDERS: return not fz_e[ft]
    if fk in ("PTR_SET", "PEEK"): return True
    if fk in SEARCHERS: return have(ft) and not (fk == "READLN" and fz_s[ft])
    if fk in TAKERS: return have(ft) and not fz_s[ft]
    if fk in ("ADDBUF", "REMOVEBUF"): return have(1 - ft) and not fz_e[ft] and not fz_s[1 - ft]
    if fk == "PREPENDBUF": return have(1 - ft) and not fz_s[ft] and not fz_s[1 - ft]
    if fk == "ADDBUFREF": return have(1 - ft) and not fz_e[ft] and not any(k == "MCAST" and t == 1 - ft for t, k, n in prefix)
    return fk == "NONE"

# states named in DESIGN C12: partially filled / misaligned / full + empty trailing / immutable first, last /
# two and three chains / reserved space / frozen
PREFIX_1 = [[], [(A, "ADD", 3)], [(A, "ADD", 15)], [(A, "ADD", 16)], [(A, "ADD", 17)], [(A, "PREPEND", 3)], [(A, "REF", 3)],
            [(A, "MCAST", 3)], [(A, "EXPAND", 8)]]
PREFIX_2 = [[(A, "ADD", 15), (A, "DRAIN", 4)], [(A, "ADD", 16), (A, "ADD", 3)], [(A, "ADD", 16), (A, "EXPAND", 8)],
            [(A, "ADD", 3), (A, "REF", 2)], [(A, "REF", 2), (A, "ADD", 3)], [(A, "MCAST", 3), (A, "ADD", 5)], [(A, "ADD", 3), (A, "MCAST", 3)],
            [(A, "ADD", 17), (A, "ADD", 17)], [(A, "ADD", 16), (A, "DRAIN", 16)], [(A, "ADD", 16), (A, "DRAIN", 15)],
            [(A, "PREPEND", 3), (A, "ADD", 15)], [(A, "ADD", 1), (A, "PREPEND", 17)], [(A, "REF", 3), (A, "REF", 2)],
            [(A, "REF", 3), (A, "DRAIN", 1)], [(A, "MCAST", 3), (A, "DRAIN", 1)], [(A, "ADD", 3), (A, "RESERVE_ONLY", 20)],
            [(A, "ADD", 17), (A, "PULLUP", 17)], [(A, "ADD", 3), (A, "FREEZE_S", 0)], [(A, "ADD", 3), (A, "FREEZE_E", 0)],
            [(A, "ADD", 15), (A, "PREPEND", 3)], [(A, "EXPAND", 8), (A, "REF", 2)]]
PREFIX_3 = [[(A, "REF", 1), (A, "REF", 2), (A, "ADD", 3)], [(A, "ADD", 16), (A, "ADD", 3), (A, "REF", 2)],
            [(A, "ADD", 16), (A, "ADD", 3), (A, "DRAIN", 17)], [(A, "ADD", 15), (A, "ADD", 3), (A, "DRAIN", 2)]]
# two-buffer finals: state of A x state of B
PA_Q = [[], [(A, "ADD", 3)], [(A, "ADD", 16)], [(A, "EXPAND", 8)]]
PB_Q = [[(B, "ADD", 3)], [(B, "ADD", 17)], [(B, "REF", 2)], [(B, "ADD", 16), (B, "ADD", 3)]]
PA_T = PA_Q + [[(A, "REF", 3)], [(A, "ADD", 15), (A, "DRAIN", 4)], [(A, "MCAST", 3)], [(A, "ADD", 3), (A, "FREEZE_E", 0)]]
PB_T = PB_Q + [[], [(B, "MCAST", 3)], [(B, "ADD", 15), (B, "DRAIN", 4)], [(B, "ADD", 3), (B, "FREEZE_S", 0)]]

# scenario: two destinations share one source chain (DESIGN C12 cand. defect: pullup writes into the IMMUTABLE shared chain)
SHARED = [(A, "MCAST", 3), (B, "MCAST", 0), (A, "ADD", 5), (B, "ADD", 5), (A, "PULLUP", 8)]

def timeouts(fk, tier):
    heavy = fk in ("RESERVE_COMMIT", "RESERVE_COMMIT2", "PULLUP", "ADD_IOVEC", "REMOVE", "PREPEND")
    return dict(timeout=900 if tier == "quick" else 1500, mem_gb=4 if heavy else 3)

QUICK_FINALS_1 = ["ADD", "PREPEND", "DRAIN", "REMOVE", "COPYOUT_FROM", "PULLUP", "EXPAND", "RESERVE_COMMIT", "RESERVE_COMMIT2", "REF"]
QUICK_MULTI = [(A, "ADD", 16), (A, "ADD", 3)]          # the one two-chain state of the quick tier (read-only operations + takers)
QPA = [[], [(A, "ADD", 3)], [(A, "EXPAND", 8)]]
QPB = [[(B, "ADD", 3)], [(B, "ADD", 17)], [(B, "ADD", 16), (B, "ADD", 3)]]

def gen(mode, tier, cb=0, finals1=FINALS_1, finals2=FINALS_2, name_prefix="", **kw):
    """quick: budget <= 5 min wall on 16 idle cores (measured 21-27 s per obligation); thorough: superset"""
    obs = []
    def one(pre, fin):
        obs.append(evb_split(mode, pre, fin, cb=cb, name_prefix=name_prefix, **dict(timeouts(fin[1], tier), **kw)))
    if tier == "quick":
        for pre in PREFIX_1:
            for fk in QUICK_FINALS_1: one(pre, (A, fk))
        for fk in ["DRAIN", "REMOVE", "COPYOUT", "COPYOUT_FROM", "PULLUP", "PTR_SET", "PEEK"]: one(QUICK_MULTI, (A, fk))
        one([], (A, "ADD_IOVEC"))
        for x in QPA:
            for y in QPB:
                for fk in finals2: one(x + y, (A, fk))
        return obs
    for pre in PREFIX_1 + PREFIX_2 + PREFIX_3:
        for fk in finals1:
            if pre not in PREFIX_1 and fk in ("ADD_IOVEC", "PEEK", "PTR_SET", "COPYOUT") and pre != QUICK_MULTI: continue
            if fk == "ADD_IOVEC" and pre not in ([], [(A, "ADD", 15)], [(A, "REF", 3)]): continue
            one(pre, (A, fk))
    for x in PA_T:
        for y in PB_T:
            for fk in finals2: one(x + y, (A, fk))
    return obs

G3_A = [(A, "REF", 2), (A, "ADD", 1)]                 # 2 chains, 3 bytes: 1-byte needles (leaving chain 1 mid-way, match in chain 2)
G3_B = [(A, "REF", 2), (A, "ADD", 2)]                 # 2 chains, 4 bytes: 2-byte needles and EOLs (CRLF_STRICT searches "\r\n")
G3_C = [(A, "REF", 1), (A, "REF", 2), (A, "ADD", 1)]  # 3 chains
def gen_search(mode, tier, **kw):
    """reduced G3 form: small multi-chain buffers (bytes symbolic), needle of concrete length 1..2 (bytes symbolic), start / end
    positions (and the start-pointer-NULL case, and the EOL style) case-split; oracle: first occurrence in ref/bytes.h.
    (seeded change C12_a -- search_range advancing pos by chain->off instead of chain->off - pos_in_chain -- is caught by
    w1_*__search, w1_*__search_range, w2_ref2_add2__search and ref2_add2__search_eol)"""
    obs = []
    def search(pre, fk, w):
        obs.append(evb_split(mode, pre, (A, fk), name_prefix="w%d_" % w, extra_defs=["VP_WLEN=%d" % w], timeout=900, mem_gb=5,
                             desc_extra="; needle length %d" % w, **kw))
    def eol(pre):
        obs.append(evb_split(mode, pre, (A, "SEARCH_EOL"), extra_defs=["VP_EOL_SKIP_ANY"], timeout=900, mem_gb=4,
                             desc_extra="; styles CRLF, CRLF_STRICT, LF, NUL", **kw))
        obs.append(evb_split(mode, pre, (A, "SEARCH_EOL"), name_prefix="any_", extra_defs=["VP_EOL_ONLY_ANY"], timeout=900, mem_gb=4,
                             desc_extra="; style ANY (separate obligation: it goes through find_eol_char, whose pointer arithmetic past the chain object was fixed by fixes/C12-find-eol-char-pointer-arith)", **kw))
    search(G3_A, "SEARCH", 1); search(G3_A, "SEARCH_RANGE", 1); search(G3_B, "SEARCH", 2); eol(G3_B)
    if tier == "thorough":
        search(G3_A, "SEARCH", 2); search(G3_B, "SEARCH", 1); search(G3_B, "SEARCH_RANGE", 1); search(G3_B, "SEARCH_RANGE", 2)
        search(G3_C, "SEARCH", 1); search(G3_C, "SEARCH", 2); search(G3_C, "SEARCH_RANGE", 1); eol(G3_A); eol(G3_C)
    return obs

def obligations(tier):
    obs = gen(12, tier) + gen_search(12, tier)
    # the fully symbolic form of the recipe (size <= 8, no case split) on the core operations
    sym_prefixes = [[(A, "ADD", 16), (A, "ADD", 3)]] + ([[(A, "ADD", 15), (A, "DRAIN", 4)], [(A, "ADD", 3), (A, "REF", 2)]] if tier == "thorough" else [])
    for pre in sym_prefixes:
        for fk in ["ADD", "PREPEND", "DRAIN", "REMOVE", "PULLUP", "COPYOUT_FROM"]:
            obs.append(evb_obligation(12, pre, (A, fk), name_prefix="sym_", timeout=900, mem_gb=6, desc_extra="; fully symbolic step, size <= 8"))
    # shared-source scenario (two add_buffer_reference destinations)
    for fk in ["PULLUP", "ADD", "DRAIN", "PREPEND"]:
        obs.append(evb_split(12, SHARED, (B, fk), name_prefix="shared_", solver="kissat", timeout=900, mem_gb=6))
    # releasing everything after a concrete prefix: allocator balanced, references cleaned once
    for pre in (PREFIX_1[1:] if tier == "quick" else PREFIX_1 + PREFIX_2[:8]) + [SHARED]:
        obs.append(evb_obligation(12, pre, (A, "NONE"), name_prefix="free_", extra_defs=["VP_LEAK=2"], timeout=600, mem_gb=4,
                                  desc_extra="; no final step: evbuffer_free of every buffer, allocator balance"))
    if tier == "thorough":
        for pre in [[(A, "ADD", 15), (A, "DRAIN", 4)], [(A, "ADD", 16), (A, "ADD", 3)], [(A, "ADD", 3), (A, "REF", 2)]]:
            for fk in [f for f in FINALS_1 if f not in ("ADD_IOVEC", "PEEK", "PTR_SET", "COPYOUT")]:
                obs.append(evb_split(12, pre, (A, fk), ndebug=True, **timeouts(fk, tier)))
    return obs
