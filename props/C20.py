ID = "C20"
LEVEL = "model_checking"
TECHNIQUE = ("CBMC bounded symbolic execution of the real bufferevent.c/bufferevent_sock.c/bufferevent_pair.c/bufferevent_filter.c timeout bookkeeping: one operation from a "
             "solver-chosen state built through the API, timeout invariant asserted before and after; evbuffers = contract sink, events = recording stubs")
UNITS = ["bufferevent.c", "bufferevent_sock.c", "bufferevent_pair.c", "bufferevent_filter.c", "bufferevent-internal.h"]
FUNCTIONS = ["bufferevent_set_timeouts", "bufferevent_generic_adj_timeouts_", "bufferevent_generic_adj_existing_timeouts_", "bufferevent_add_event_",
             "bufferevent_enable", "bufferevent_disable", "bufferevent_suspend_read_", "bufferevent_unsuspend_read_", "bufferevent_suspend_write_",
             "bufferevent_unsuspend_write_", "be_socket_enable", "be_socket_disable", "bufferevent_socket_outbuf_cb", "bufferevent_readcb", "bufferevent_writecb",
             "bufferevent_generic_read_timeout_cb", "bufferevent_generic_write_timeout_cb", "be_pair_enable", "be_pair_disable", "be_pair_transfer",
             "be_pair_outbuf_cb", "be_pair_flush", "be_filter_enable", "be_filter_disable", "be_filter_process_input", "be_filter_process_output",
             "bufferevent_filtered_outbuf_cb", "be_filter_readcb", "be_filter_writecb", "be_filter_flush"]
BOUNDS = ("state: read/write timeouts (unset or any tv_sec<=10^6, tv_usec<10^6), enabled bits, bandwidth suspension per direction, output length (any), pairs: both ends, "
          "optionally read high-water marks; filters: over a socket bufferevent, optionally output held back; then ONE operation out of {enable R/W, disable R/W, "
          "set_timeouts, suspend, unsuspend, write, partner write / data arrives / underlying drained, read event, write event, read+timeout event, read timeout, "
          "write timeout, flush} with symbolic arguments")
OUT = ("TLS bufferevents; filters: pass-through harness filter only, <= 2 filter calls per step, lengths <= 0xffff; "
       "the event core itself (C01: a timer fires exactly when its duration elapsed since it was last added; persistent I/O events restart their timeout when they fire) -- "
       "the composition over long histories is by induction over the checked invariant; rate-limit suspension uses the same suspend/unsuspend entry points (C22); "
       "socket bufferevents in the 'connecting' state")
TEXT = ("After every operation: read timer pending <=> reading enabled && not suspended && read timeout set; write timer pending <=> writing enabled && not suspended && "
        "write timeout set && output non-empty; a pending timer carries the configured duration; set_timeouts restarts running intervals; a transfer restarts the "
        "receiver's read interval and the sender's write interval; a timeout event is reported as TIMEOUT|READING (WRITING) exactly once and disables that direction; "
        "a read/write event that coincides with a timeout counts as a transfer.")
NOTE = ("Trusted: cbmc, env/evbuf_sink.h, env/bev_env.h (event_add(tv!=NULL) restarts the timer, event_add(NULL) keeps it, event_del cancels), env/locks.h. "
        "Genuine defect found and fixed: fixes/C20-pair-timeouts.{diff,md}; known findings KF-C20-sock-enable-empty and KF-C20-filter-timeouts (fixes/C20-known-findings.json; "
        "fixes/C20-filter-timeouts.{diff,md} is a patch that makes the strict statement hold for filters but contradicts libevent's own regress expectations, not applied).")
ASSUMPTIONS = ["evbuffers behave as env/evbuf_sink.h (C12-C16)", "the event core behaves as env/bev_env.h documents (C01/C02)",
               "no rate limit configured; bufferevent not connecting",
               "socket obligations: EV_WRITE is not enabled/un-suspended while the output buffer is empty (KF-C20-sock-enable-empty covers that state)",
               "filter obligations: the write clause is only 'never while disabled/suspended/unset', and flushes are applied to enabled, unsuspended directions (KF-C20-filter-timeouts covers the rest)"]
DESIGN_REF = "DESIGN.md §5 C20"

SOCK_OPS = ["enable_r", "enable_w", "disable_r", "disable_w", "set_timeouts", "suspend", "unsuspend", "write", "read_event", "write_event",
            "read_timeout", "write_timeout", "read_event_and_timeout"]
PAIR_OPS = ["enable_r", "enable_w", "disable_r", "disable_w", "set_timeouts", "suspend", "unsuspend", "write", "partner_write", "read_timeout",
            "write_timeout", "flush"]
UW = ["vp_sink_run_callbacks:3"]

def obligations(tier):
    obs = []
    for i, nm in enumerate(SOCK_OPS):
        obs.append(dict(name="sock_" + nm, harness="C20_sock.c", entry="harness_sock_step", defines=["C20_OP=%d" % i], unwind=8, unwindset=UW,
                        timeout=600, mem_gb=4, desc="socket bufferevent, operation %s from an arbitrary API-built state: timeout invariant before/after" % nm))
    for i, nm in ((1, "enable_w"), (6, "unsuspend")):
        obs.append(dict(name="sock_kf_%s_empty" % nm, harness="C20_sock.c", entry="harness_sock_step", defines=["C20_OP=%d" % i, "C20_STATE_W_ENABLED_EMPTY"],
                        unwind=8, unwindset=UW, timeout=600, mem_gb=4, known_finding="KF-C20-sock-enable-empty",
                        expect_fail=["C20: write event pending iff", "C20: write timeout pending iff"],
                        desc="recorded finding: %s of EV_WRITE with an empty output buffer arms the write event/timeout (must still fail)" % nm))
    quick_out = {"enable_r", "enable_w", "unsuspend", "write", "partner_write", "flush", "write_timeout"}
    for i, nm in enumerate(PAIR_OPS):
        if nm != "write_timeout":   # (no output pending -> no write timer to fire: only the pair_out_ variant is non-vacuous)
            obs.append(dict(name="pair_" + nm, harness="C20_pair.c", entry="harness_pair_step", defines=["C20_OP=%d" % i], unwind=8, unwindset=UW,
                            timeout=600, mem_gb=4, desc="pair, operation %s, both ends' invariants, no output pending before" % nm))
        if tier == "thorough" or nm in quick_out:
            obs.append(dict(name="pair_out_" + nm, harness="C20_pair.c", entry="harness_pair_step", defines=["C20_OP=%d" % i, "C20_WITH_OUTPUT"], unwind=8,
                            unwindset=UW, timeout=600, mem_gb=4, desc="pair, operation %s, output pending on the acting end" % nm))
        if tier == "thorough" or nm in ("write", "partner_write"):
            obs.append(dict(name="pair_wm_" + nm, harness="C20_pair.c", entry="harness_pair_step", defines=["C20_OP=%d" % i, "C20_WITH_OUTPUT", "C20_WM"],
                            unwind=8, unwindset=UW, timeout=900, mem_gb=4, desc="pair, operation %s, output pending, symbolic read high-water marks on both ends" % nm))
    FILT_OPS = ["enable_r", "disable_r", "set_timeouts", "suspend_r", "unsuspend_r", "data_arrives", "read_timeout", "enable_w", "write", "flush_r",
                "disable_w", "suspend_w", "unsuspend_w", "write_timeout", "underlying_drained", "flush_w"]
    quick_fout = {"enable_w", "write", "write_timeout", "underlying_drained", "flush_w", "unsuspend_w", "set_timeouts"}
    FDESC = "read timeout invariant exact, write timeout never while disabled/suspended/unset, underlying read suspension mirrors the filter"
    for i, nm in enumerate(FILT_OPS):
        if nm != "underlying_drained":      # (needs output held back: only the filter_out_ variant is non-vacuous)
            obs.append(dict(name="filter_" + nm, harness="C20_filter.c", entry="harness_filter_step", defines=["C20_OP=%d" % i], unwind=8, unwindset=UW,
                            timeout=600, mem_gb=4, desc="filter over a socket bufferevent, operation %s: %s" % (nm, FDESC)))
        if tier == "thorough" or nm in quick_fout:
            obs.append(dict(name="filter_out_" + nm, harness="C20_filter.c", entry="harness_filter_step", defines=["C20_OP=%d" % i, "C20_WITH_OUTPUT"],
                            unwind=8, unwindset=UW, timeout=600, mem_gb=4, desc="filter, operation %s, output held back in the filter (underlying at its high write mark): %s" % (nm, FDESC)))
    KF = "KF-C20-filter-timeouts"
    STRICT = ["C20: filter write timeout pending iff"]
    for nm, defs, exp in (("enable_w_empty", ["C20_OP=7", "C20_CHECK_WRITE"], STRICT),
                          ("write_held_back", ["C20_OP=8", "C20_CHECK_WRITE", "C20_WITH_OUTPUT"], STRICT),
                          ("flush_r_disabled", ["C20_OP=9", "KF_ONLY_filter_flush"], ["C20: filter read timeout pending iff"]),
                          ("flush_w_disabled", ["C20_OP=15", "KF_ONLY_filter_flush"], ["C20: filter write timeout pending although"])):
        obs.append(dict(name="filter_kf_" + nm, harness="C20_filter.c", entry="harness_filter_step", defines=defs, unwind=8, unwindset=UW, timeout=600, mem_gb=4,
                        known_finding=KF, expect_fail=exp, desc="recorded finding %s isolated (%s): must still fail" % (KF, nm)))
    if tier == "thorough":
        for i, nm in ((4, "set_timeouts"), (8, "read_event"), (9, "write_event"), (10, "read_timeout")):
            obs.append(dict(name="sock_%s_ndebug" % nm, harness="C20_sock.c", entry="harness_sock_step", defines=["C20_OP=%d" % i], unwind=8, unwindset=UW,
                            ndebug=True, timeout=600, mem_gb=4, desc="socket, %s, NDEBUG build" % nm))
        for i, nm in ((7, "write"), (8, "partner_write")):
            obs.append(dict(name="pair_wm_%s_ndebug" % nm, harness="C20_pair.c", entry="harness_pair_step", defines=["C20_OP=%d" % i, "C20_WITH_OUTPUT", "C20_WM"],
                            unwind=8, unwindset=UW, ndebug=True, timeout=900, mem_gb=4, desc="pair, %s with marks, NDEBUG build" % nm))
    return obs
