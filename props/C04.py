ID = "C04"
LEVEL = "model_checking"
TECHNIQUE = ("CBMC bounded symbolic execution of one real dispatch step (epoll_dispatch / poll_dispatch / select_dispatch + evmap_io_active_) "
             "after registration through the real evmap_io_add_/del_, against a kernel readiness model; event_active_nolock_ intercepted; "
             "oracle = reference reading of 'condition holds / is reported' (ref/c04_ready.h)")
UNITS = ["epoll.c", "poll.c", "select.c", "evmap.c", "epolltable-internal.h", "changelist-internal.h"]  # select_hifd_*: select.c select_add/select_resize/select_dispatch at fd 63..129
FUNCTIONS = ["epoll_dispatch", "poll_dispatch", "select_dispatch", "evmap_io_active_", "evmap_io_add_", "evmap_io_del_",
             "epoll_apply_changes", "epoll_apply_one_change", "event_changelist_add_", "event_changelist_del_", "poll_add", "poll_del",
             "select_add", "select_del"]
BOUNDS = ("2 fds, 3 events (ev0, ev1 on fd A; ev2 on fd B), each never added / added / added-then-deleted (solver's choice), interest masks symbolic "
          "non-empty subsets of {READ, WRITE, CLOSED} (select: {READ, WRITE}), EV_ET per fd symbolic (epoll), readiness per fd any subset of "
          "{IN, OUT, ERR, HUP, RDHUP}; one wait (thorough: a second wait with unchanged readiness; a quiet wait between adds and dels); "
          "poll/select scan start offset (weak random) symbolic")
OUT = ("real sockets/TCP states and which readiness combinations a real kernel can produce; kernel-side edge-trigger semantics (the model is level "
       "triggered; that EPOLLET is requested exactly when asked is C05); POLLNVAL/EBADF on fds closed while events are added; signalfd delivery (C07); "
       "the callback layer above event_active_nolock_ (C02/C03); >32 ready events per epoll_wait (nevents growth); descriptor numbers beyond the first "
       "fd_mask word are covered for select only up to the select(2) call (select_hifd_*: sets/nfds handed to the kernel), not through the result scan; "
       "poll/epoll with large descriptor numbers (evmap/pollfd table growth)")
TEXT = ("For every back end one dispatch step activates an event only if it is currently added and one of its requested conditions holds on its fd, with result "
        "flags naming only requested conditions that hold (ERR/HUP count as readable and writable), at most once per wait; every added event with a requested "
        "condition the kernel reports ready is activated with that condition in its result; deleted events are never activated; the three back ends yield "
        "the same activation sets for the same readiness when neither EV_CLOSED, EV_ET nor HUP is involved.")
NOTE = ("Trusted: cbmc; env/kernel_io.h readiness contract (reports requested bits plus ERR/HUP; select maps IN|HUP|ERR->readable, OUT|ERR->writable); "
        "ref/c04_ready.h; allocator stand-ins as in C05.")
ASSUMPTIONS = [
    "kernel waits behave per env/kernel_io.h (level-triggered reporting of requested conditions plus ERR/HUP; every readiness subset is considered possible)",
    "fds stay open while events are added on them; all events on an fd agree on EV_ET; EV_CLOSED only on epoll/poll, EV_ET only on epoll",
    "allocation does not fail; tables do not have to grow (asserted)",
]
DESIGN_REF = "DESIGN.md §5 C04"

BACKENDS = [("epoll", 1), ("epollcl", 2), ("poll", 3), ("select", 4)]
USET = ["epoll_apply_changes.0:3", "event_changelist_remove_all_.1:3"]

def step(bn, b, extra=(), tag="", **kw):
    d = dict(name="step_%s%s" % (bn, tag), harness="C04_dispatch.c", entry="harness_step",
             defines=["VP_BACKEND=%d" % b] + list(extra), unwind=5, unwindset=["evmap_io_active_.0:3"] + (USET if b in (1, 2) else []),
             timeout=900, mem_gb=10,
             desc="%s: one dispatch step, 3 events/2 fds, masks+use+readiness symbolic %s" % (bn, " ".join(extra)))
    d.update(kw)
    return d

def obligations(tier):
    obs = []
    for bn, b in BACKENDS:
        kf = []
        obs.append(step(bn, b))
        obs.append(step(bn, b, extra=["VP_AGREE"], tag="_agree"))
        if tier == "thorough":
            obs.append(step(bn, b, extra=kf + ["VP_TWICE"], tag="_twice", timeout=1800))
            obs.append(step(bn, b, extra=kf + ["VP_MIDWAIT"], tag="_midwait", timeout=1800))
            obs.append(step(bn, b, extra=kf, tag="_ndebug", ndebug=True))
    if tier == "thorough":
        obs.append(step("poll", 3, extra=["VP_LOCKS_ON", "VP_WITH_LOCK"], tag="_locked"))
    # select at fd_mask word boundaries: the fd_set sizing arithmetic (the step_* harnesses never leave the first word)
    for fd in ((64, 128) if tier == "quick" else (63, 64, 65, 127, 128, 129)):
        n = fd + 4
        obs.append(dict(name="select_hifd_%d" % fd, harness="C04_select_hifd.c", entry="harness_select_hifd",
                        defines=["VP_FD=%d" % fd, "VP_WITH_LOW"], unwind=4,
                        unwindset=["select.%d:%d" % (i, n) for i in range(4)] + ["evmap_io_active_.0:3", "evmap_make_space.0:8"] + ["select_add.%d:6" % i for i in range(5)],
                        timeout=900, mem_gb=6,
                        desc="select: events on fd %d and fd 3 (masks symbolic), fd_sets grown by select_add/select_resize; at the wait fd %d is in the sets/nfds handed to select() iff requested" % (fd, fd)))
    return obs
