ID = "C06"
LEVEL = "proof"
TECHNIQUE = "CBMC bounded symbolic execution of epoll.c:epoll_apply_one_change over all table rows vs kernel epoll_ctl contract model"
UNITS = ["epoll.c", "epolltable-internal.h", "changelist-internal.h"]
FUNCTIONS = ["epoll_apply_one_change", "EPOLL_OP_TABLE_INDEX", "epoll_op_table[]"]
BOUNDS = "none inside the table: old_events (3 bits) x read/write/close change (2 bits each) x ET, all 512 rows x ET in one query; loop-free"
OUT = "real kernel (epoll_ctl is the contract model env/kernel_epoll.h); dup()-shared epitems"
TEXT = "All rows of the epoll change table are decided in one solver query through the real epoll_apply_one_change: resulting registration == (old+adds)-dels, ET as requested, first op accepted for caller-generatable rows, add+del rows issue no epoll_ctl."
NOTE = "Trusted: cbmc, the 60-line epoll_ctl contract model, LP64. Assert-enabled encoding (no NDEBUG) plus an NDEBUG twin."
ASSUMPTIONS = ["epoll_ctl behaves per env/kernel_epoll.h (EEXIST/ENOENT/EBADF contract)", "kernel registration before the call holds exactly old_events (with or without EPOLLET)"]
DESIGN_REF = "DESIGN.md §5 C06"

def obligations(tier):
    obs = [dict(name="table", harness="C06_epoll_table.c", entry="harness_table", timeout=300,
                desc="all 512 rows x ET, assert-enabled build"),
           dict(name="table_ndebug", harness="C06_epoll_table.c", entry="harness_table", ndebug=True, timeout=300,
                desc="all 512 rows x ET, NDEBUG build (as shipped)")]
    return obs
