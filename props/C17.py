ID = "C17"
LEVEL = "model_checking"
TECHNIQUE = ("CBMC bounded symbolic execution of the real bufferevent.c/bufferevent_sock.c/bufferevent_pair.c/bufferevent_filter.c data paths over a contract sink "
             "evbuffer in byte mode (<= 8 symbolic bytes per buffer) with a kernel read/write contract; unit steps and short histories")
UNITS = ["bufferevent.c", "bufferevent_sock.c", "bufferevent_pair.c", "bufferevent_filter.c"]
FUNCTIONS = ["bufferevent_readcb", "bufferevent_writecb", "bufferevent_write", "bufferevent_read", "bufferevent_socket_outbuf_cb", "be_pair_transfer", "be_pair_outbuf_cb",
             "be_pair_enable", "be_pair_flush", "be_filter_process_input", "be_filter_process_output", "bufferevent_filtered_outbuf_cb", "be_filter_read_nolock_",
             "be_filter_eventcb", "bufferevent_run_deferred_callbacks_locked"]
BOUNDS = ("<= 8 bytes per buffer, all byte values symbolic; socket: one read event after <= 4 buffered bytes, two writes + two write events; pair: two writes of 1..4 bytes, "
          "partner enabled before/between/after, symbolic high-water mark 0..9, application drains 0..8 bytes, BEV_FINISHED flush; filter: <= 3 filter invocations per step; "
          "stateful filter: 3 + 2 (thorough also 4 + 0) symbolic bytes written, symbolic tail of <= 2 bytes held back, then flush")
OUT = ("TLS (OpenSSL / mbedTLS) bufferevents: the external libraries cannot be encoded -- not claimed; the evbuffer implementation itself (C12-C16, replaced by the contract "
       "sink); megabyte sizes, multi-iteration scheduling, rate limits (C22), stacked filters beyond one level, real sockets")
TEXT = ("Socket: the read event appends exactly the delivered bytes after the buffered ones and bufferevent_read returns them in order; write() is offered the queued bytes in "
        "order, exactly the accepted prefix leaves, the next write continues there. Pair: consumed ++ partner.input ++ own.output always equals the concatenation of what "
        "was written; nothing deliverable is held back; BEV_FINISHED delivers all data and then EOF once. EOF after data in deferred mode.")
NOTE = "Trusted: cbmc, env/evbuf_sink.h (byte mode), env/bev_env.h.  Known finding KF-C17-filter-eof-overtakes-data (fixes/C17-known-findings.json)."
ASSUMPTIONS = ["a filter callback moves a prefix (<= its limit) and returns BEV_OK iff it produced output", "evbuffers behave as env/evbuf_sink.h (C12-C16)", "read()/write() behave as the kernel contract in env/evbuf_sink.h (-1+errno | 0 | 1..offered)",
               "event core behaves as env/bev_env.h documents", "no rate limit configured"]
DESIGN_REF = "DESIGN.md §5 C17"

UW = ["vp_sink_run_callbacks:3"]
def obligations(tier):
    obs = [dict(name="sock_read_bytes", harness="C17_sock.c", entry="harness_read_bytes", unwind=10, unwindset=UW, timeout=600, mem_gb=4,
                desc="socket read event: input == buffered ++ delivered; bufferevent_read hands them over in order"),
           dict(name="sock_write_bytes", harness="C17_sock.c", entry="harness_write_bytes", unwind=10, unwindset=UW, timeout=600, mem_gb=4,
                desc="two bufferevent_write + two write events: offered bytes == queue, accepted prefix leaves, continuation without loss/duplication"),
           dict(name="sock_eof_after_data", harness="C17_sock.c", entry="harness_eof_after_data", unwind=10, unwindset=UW, timeout=600, mem_gb=4,
                desc="deferred callbacks: 3 bytes then EOF arrive before the callbacks run: data callback with the bytes, then EOF once"),
           dict(name="pair_finish", harness="C17_pair.c", entry="harness_pair_finish", unwind=10, unwindset=UW, timeout=600, mem_gb=4,
                desc="pair: write + flush(BEV_FINISHED): partner gets all bytes, then EOF|READING once")]
    for w, nm in enumerate(["before", "between", "after"]):
        obs.append(dict(name="pair_stream_" + nm, harness="C17_pair.c", entry="harness_pair_stream", defines=["C17_WHEN=%d" % w], unwind=10, unwindset=UW,
                        timeout=900, mem_gb=4, desc="pair: two writes, partner starts reading %s the writes, symbolic high mark, application drains: stream equality at every point" % nm))
    FH, FD = "C18_filter.c", ["VP_SINK_BYTES=8"]
    OB = ["--object-bits", "10"]
    obs += [dict(name="filter_out_bytes", harness=FH, entry="harness_filter_out", defines=FD + (["C18_MAXCALLS=2"] if tier != "thorough" else []), unwind=10, unwindset=UW, cbmc=OB,
                 timeout=1800, mem_gb=6,
                 desc="filter (XOR 0x5a) over a socket bufferevent: underlying.output == old ++ transformed prefix of the filter's output, suffix left, <=2 (quick) / <=3 (thorough) filter calls"),
            dict(name="filter_in_bytes", harness=FH, entry="harness_filter_in", defines=FD, unwind=10, unwindset=UW, cbmc=OB, timeout=900, mem_gb=6,
                 desc="input filtering: filter.input == old ++ transformed prefix of underlying.input, suffix left, high read mark respected"),
            dict(name="filter_eof", harness=FH, entry="harness_filter_eof", defines=FD + ["KF_EXCLUDE_filter_eof"], unwind=10, unwindset=UW, cbmc=OB, timeout=900, mem_gb=6,
                 desc="underlying delivers data then EOF, nothing held back by the filter's high read mark: EOF passed on once, after the data callback"),
            dict(name="filter_eof_kf", harness=FH, entry="harness_filter_eof", defines=FD + ["KF_ONLY_filter_eof"], unwind=10, unwindset=UW, cbmc=OB, timeout=900, mem_gb=6,
                 known_finding="KF-C17-filter-eof-overtakes-data", expect_fail=["C17: EOF reported while bytes received before it are still waiting"],
                 desc="recorded finding: bytes held back in the underlying input by the filter's read high-water mark when the EOF arrives (must still fail)")]
    for md in (["BEV_FLUSH", "BEV_FINISHED"] if tier == "thorough" else ["BEV_FLUSH"]):
        obs.append(dict(name="filter_flush_stateful_" + md[4:].lower(), harness=FH, entry="harness_filter_flush_stateful", defines=FD + ["C17_FLUSH_MODE=" + md], unwind=10,
                        unwindset=UW, cbmc=OB, timeout=900, mem_gb=6,
                        desc="stateful output filter that holds back a tail of <=2 bytes: two writes then bufferevent_flush(EV_WRITE, %s): the filter is called although the output buffer is empty and the underlying output equals what was written" % md))
    if tier == "thorough":
        obs.append(dict(name="filter_flush_stateful_one_write", harness=FH, entry="harness_filter_flush_stateful", defines=FD + ["C17_N1=4", "C17_N2=0"], unwind=10,
                        unwindset=UW, cbmc=OB, timeout=900, mem_gb=6, desc="stateful output filter, one write of 4 bytes, then BEV_FLUSH"))
        for o in list(obs):
            if o["name"] in ("sock_read_bytes", "sock_write_bytes", "pair_stream_between", "pair_finish", "filter_in_bytes"):
                n = dict(o); n["name"] += "_ndebug"; n["ndebug"] = True; n["desc"] += " (NDEBUG build)"; obs.append(n)
    return obs
