ID = "C40"
LEVEL = "model_checking"
TECHNIQUE = "CBMC bounded symbolic execution of evutil_inet_ntop/evutil_inet_pton/evutil_parse_sockaddr_port/evutil_format_sockaddr_port_ vs a strict reference parser (glibc algorithm transcribed), libc scanf/printf/strtol modelled"
UNITS = ["evutil.c", "strlcpy.c"]
FUNCTIONS = ["evutil_inet_ntop", "evutil_inet_pton", "evutil_inet_pton_scope", "evutil_parse_sockaddr_port", "evutil_format_sockaddr_port_", "event_strlcpy_"]
BOUNDS = "ntop: every IPv4 address x len 0..18, IPv6: every IPv4-compatible/-mapped address x len 0..24; hex form: quick = addresses with five consecutive zero words (3 placements) x len 0..41, thorough = one more placement (the full 2^128 hex-form domain did not finish in 1 h and is not claimed; the parse-back oracle is only decided for the IPv4-compatible/-mapped form); pton: every byte string of length <= L (v4 L=9, v6 L=7 quick / 10 and 9 thorough); sockaddr text: port half only -- literal address 1.2.3.4 / [::1], port text = every byte string <= 6 (thorough 7) bytes, and format->parse with every port 1..65535"
OUT = "evutil_parse_sockaddr_port / evutil_format_sockaddr_port_ round trip over symbolic ADDRESSES: not decided; only the port half is (port_parse_*/port_rt_*: fixed address literal, the two address parsers cut at their call sites by recorders that assert family and text, their syntax being the pton4/pton6 obligations) (every whole-round-trip encoding tried -- whole round trip, fixed address with symbolic port digits, path-wise symex -- ran out of 5-8 GB or time: the parser re-scans the text with strchr/memcpy/atoi/inet_pton_scope and cbmc walks the IPv6 and IPv4 interpretations of every symbolic digit); strings longer than L (e.g. v4 components that overflow 2^32 need >= 10 digits); zone ids with real interface names (if_nametoindex stub returns 0); the platform's own inet_pton/inet_ntop are not encoded: the reference is a transcription of glibc's algorithm, cross-checked natively on 50M strings during development"
TEXT = "Solver decides over all addresses and buffer lengths that a successful ntop is complete, terminated, inside the buffer and maps back to the same address under a strict parser, and over all short strings that pton accepts exactly the strict grammar with the same address."
NOTE = "Trusted: cbmc; env/inet_fmt.h models of vsnprintf/sscanf/strtol (native replay links glibc instead, so model errors do not reproduce); ref/inet_ref.h."
ASSUMPTIONS = ["vsnprintf/sscanf/strtol behave as env/inet_fmt.h (C99/glibc semantics for %d %u %x %s %c)", "if_nametoindex returns 0 (no such interface)"]
DESIGN_REF = "DESIGN.md §5 C40"

def US(n):
    big = ["harness_ntop6_full.0", "harness_ntop6_len.0", "harness_ntop6_len.1", "event_strlcpy_.0", "event_strlcpy_.1", "ref_pton6.1", "ref_strlen.0", "strlen.0", "vsnprintf.0", "vsnprintf.1"]
    return ["%s:%d" % (l, n) for l in big] + ["vp_bytes.0:17", "ref_pton6.0:17", "ref_pton6.2:17", "ref_pton6.3:17", "memcmp.0:17", "vp_memcmp.0:17", "vp_memcpy.0:17", "vp_memset_b.0:70", "is_v4_form.0:11"]

HEXLEN = dict(name="ntop6_hex_len", harness="C40_inet.c", entry="harness_ntop6_len", defines=["VP_DST=41", "VP_REF_NO_DOT"], unwind=11, timeout=3600, mem_gb=10,
             unwindset=US(45), desc="same addresses, every len 0..41: success iff complete text + NUL fit, bytes equal the complete text, nothing written past len")
HEXFULL = dict(name="ntop6_hex_full", harness="C40_inet.c", entry="harness_ntop6_full", defines=["VP_DST=41", "VP_REF_NO_DOT"], unwind=11, timeout=3000, mem_gb=10,
             unwindset=US(45), desc="all IPv6 addresses not of the IPv4-compatible/-mapped form, 41-byte buffer: succeeds, terminated, strict parser maps the text back")

def obligations(tier):
    q = tier == "quick"
    L4 = 9 if q else 10
    L6 = 7 if q else 9
    obs = [
        dict(name="ntop4", harness="C40_inet.c", entry="harness_ntop4", unwind=21, timeout=600, mem_gb=6, desc="all IPv4 addresses, len 0..18"),
        dict(name="ntop6_v4form_full", harness="C40_inet.c", entry="harness_ntop6_full", defines=["VP_DST=24", "VP_V4FORM"], unwind=11, timeout=900, mem_gb=10,
             unwindset=US(28), desc="all ::a.b.c.d / ::ffff:a.b.c.d addresses, 24-byte buffer: succeeds, terminated, maps back"),
        dict(name="ntop6_v4form_len", harness="C40_inet.c", entry="harness_ntop6_len", defines=["VP_DST=24", "VP_V4FORM"], unwind=11, timeout=900, mem_gb=10,
             unwindset=US(28), desc="same addresses, every len 0..24: success iff complete text + NUL fit"),
        dict(name="pton4", harness="C40_inet.c", entry="harness_pton4", defines=["VP_L=%d" % L4], unwind=L4 + 3, timeout=900, mem_gb=8, unwindset=["vp_memcmp.0:17"], desc="all strings of length <= %d vs strict dotted quad" % L4),
        dict(name="pton6", harness="C40_inet.c", entry="harness_pton6", defines=["VP_L=%d" % L6], unwind=L6 + 2, timeout=900, mem_gb=10,
             unwindset=["vp_memmove.0:17", "vp_memmove.1:17", "vp_memset_b.0:17", "vp_memcmp.0:17", "vp_memcpy.0:17", "ref_pton6.0:17", "ref_pton6.2:17", "ref_pton6.3:17", "evutil_inet_pton.2:9"],
             desc="all strings of length <= %d vs strict IPv6 text grammar" % L6),
    ]
    # full 2^128 domain of the hex form needs > 900 s (UNSAT proof): thorough only; the quick tier decides the same
    # obligation on three sub-domains with five zero words (gap in the middle / at the end / at the start)
    for f, t in (((2, 6), (3, 7), (0, 4)) if q else ((2, 6), (3, 7), (0, 4), (1, 5))):
        o = dict(HEXLEN); o["name"] = "ntop6_hex_len_zero%d_%d" % (f, t); o["defines"] = HEXLEN["defines"] + ["VP_ZERO_FROM=%d" % f, "VP_ZERO_TO=%d" % t]
        o["timeout"] = 900; o["desc"] = "words %d..%d zero, the other three words symbolic, every len 0..41: success iff complete text + NUL fit" % (f, t)
        obs.append(o)
    # port half of the sockaddr text round trip: fixed address literal, address parsers cut by asserting recorders
    CUT = [["--replace-calls", "evutil_inet_pton:vp_cut_pton"], ["--replace-calls", "evutil_inet_pton_scope:vp_cut_pton_scope"]]
    PD = 6 if q else 7
    for fam, dv in (("v4", []), ("v6", ["VP_V6"])):
        obs.append(dict(name="port_parse_" + fam, harness="C40_port.c", entry="harness_port_parse", defines=dv + ["VP_PD=%d" % PD], instrument=CUT, unwind=PD + 12, unwindset=["vp_evutil_memset.0:30"], timeout=600, mem_gb=6,
                        desc="text '%s' + every byte string of <= %d bytes without ':' / ']': all-digit values 1..65535 are accepted with exactly that port, family, length and address; 0 and > 65535 rejected; "
                             "any other accepted text yields a port in 1..65535; failure leaves *outlen alone" % ("1.2.3.4:" if fam == "v4" else "[::1]:", PD)))
        obs.append(dict(name="port_rt_" + fam, harness="C40_port.c", entry="harness_port_rt", defines=dv, instrument=CUT, unwind=PD + 12, unwindset=["vp_evutil_memset.0:30"], timeout=600, mem_gb=6,
                        desc="real evutil_format_sockaddr_port_ of %s with ANY port 1..65535, then real evutil_parse_sockaddr_port of that text: accepted, same family/length/address/port" % ("1.2.3.4" if fam == "v4" else "::1")))
    # the same obligation over the full 2^128 hex-form domain (and the parse-back of the full text) did not finish
    # in 3600 s / 3000 s (measured, thorough run): not claimed; HEXLEN/HEXFULL are kept above as the templates only
    return obs
