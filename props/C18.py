ID = "C18"
LEVEL = "model_checking"
TECHNIQUE = ("CBMC bounded symbolic execution of the real bufferevent.c/bufferevent_sock.c/bufferevent_pair.c/bufferevent_filter.c watermark logic over a "
             "contract sink evbuffer (lengths are unconstrained 64-bit symbols) and recording event stubs")
UNITS = ["bufferevent.c", "bufferevent_sock.c", "bufferevent_pair.c", "bufferevent_filter.c", "bufferevent-internal.h"]
FUNCTIONS = ["bufferevent_readcb", "bufferevent_writecb", "bufferevent_setwatermark", "bufferevent_inbuf_wm_cb", "bufferevent_inbuf_wm_check",
             "bufferevent_suspend_read_", "bufferevent_unsuspend_read_", "bufferevent_trigger_nolock_", "bufferevent_run_readcb_", "bufferevent_run_writecb_",
             "bufferevent_enable", "bufferevent_disable", "be_socket_enable", "be_socket_disable", "be_pair_transfer", "be_filter_process_output",
             "be_filter_process_input", "be_underlying_writebuf_full", "be_readbuf_full"]
BOUNDS = ("one step from an arbitrary state: input/output lengths, low/high marks, kernel read/write result, amount drained by the application are "
          "unconstrained 64-bit values (lengths <= SSIZE_MAX, read high mark < 2^63 in the main obligations; the >= 2^63 case is obligation *_hugewm); "
          "watermark changed twice; filter: <= 3 filter invocations per step, lengths and marks <= 0xffff (three chained 64-bit symbolic transfers are beyond the SAT back end)")
OUT = ("TLS bufferevents and their documented record overrun (external libraries cannot be encoded); the evbuffer itself (C12-C16: replaced by the "
       "contract sink env/evbuf_sink.h); rate limits (C22: none configured); the first installation of the watermark evbuffer callback happens with "
       "concrete marks (pointer-shaped state must be concrete for cbmc), every later change is symbolic; multi-step histories are by induction over "
       "the checked state invariant (suspended-by-watermark <=> high!=0 && len>=high; read event pending <=> enabled && !suspended)")
TEXT = ("Socket bufferevents: the read size never lets the input exceed a non-zero high mark; the read callback runs iff >= low bytes are buffered; after "
        "setwatermark (also while suspended), after a read and after any drain the bufferevent is watermark-suspended iff high!=0 && len>=high and its read "
        "event is pending iff enabled and not suspended; the write callback runs iff the output is <= the low write mark after a successful write. "
        "Pairs: be_pair_transfer moves exactly min(len, room below the partner's high mark). Filters: the output filter is offered exactly the room below "
        "the underlying high write mark and is not called when there is none.")
NOTE = "Trusted: cbmc, env/evbuf_sink.h (evbuffer contract incl. callback order), env/bev_env.h (event contract), env/locks.h."
ASSUMPTIONS = ["evbuffers behave as the byte-string/callback contract of env/evbuf_sink.h (established for buffer.c by C12-C16)",
               "event_add/event_del/event_pending behave as documented (env/bev_env.h; event.c itself is C01/C02)",
               "no rate limit is configured (max_single_read/write = 16384)",
               "buffer lengths <= SSIZE_MAX; read high watermark <= SSIZE_MAX except in the *_hugewm obligations",
               "a filter callback honours its `limit` argument (harness filter moves a solver-chosen prefix <= limit)"]
DESIGN_REF = "DESIGN.md §5 C18"

def obligations(tier):
    W = "C18_watermarks.c"
    obs = [dict(name="sock_read", harness=W, entry="harness_read_wm", unwind=10, timeout=300, mem_gb=4,
                desc="socket read event: howmuch <= room below high mark, read callback iff len >= low, suspend/resume state after read and after application drains (in and after the callback); all lengths/marks symbolic"),
           dict(name="sock_read_ndebug", harness=W, entry="harness_read_wm", unwind=10, ndebug=True, timeout=300, mem_gb=4, desc="same, NDEBUG build"),
           dict(name="sock_setwm", harness=W, entry="harness_setwm", unwind=10, timeout=300, mem_gb=4,
                desc="setwatermark twice (changed while suspended), bandwidth suspension present/absent, enabled or not, disable/enable, drain: suspension and read event state"),
           dict(name="sock_write", harness=W, entry="harness_write_wm", unwind=10, timeout=300, mem_gb=4,
                desc="socket write event: write callback iff output <= low write mark; error/EOF/retriable outcomes"),
           dict(name="sock_write_ndebug", harness=W, entry="harness_write_wm", unwind=10, ndebug=True, timeout=300, mem_gb=4, desc="same, NDEBUG build"),
           dict(name="sock_read_hugewm", harness=W, entry="harness_read_wm", unwind=10, defines=["C18_HUGE_WM"], timeout=300, mem_gb=4,
                desc="as sock_read with the high read mark unconstrained (>= 2^63 allowed): fails without fixes/C18-readcb-high-wm-overflow.diff")]
    P = "C18_pair.c"
    PU = ["vp_sink_run_callbacks:3"]   # evbuffer callback -> unsuspend -> be_pair_enable -> transfer -> evbuffer callback ...: depth 2 is the real maximum (asserted)
    obs += [dict(name="pair_transfer", harness=P, entry="harness_pair_transfer", unwind=10, unwindset=PU, timeout=600, mem_gb=4,
                 desc="be_pair_transfer(src,dst,ignore_wm) from arbitrary lengths/marks: moves exactly min(pending, room below the partner's high read mark); deferred read/write callbacks scheduled iff the low marks say so")]
    ops = ["write", "enable_read", "drain", "unsuspend_enable_write", "setwatermark"]
    for i, nm in enumerate(ops):
        obs.append(dict(name="pair_api_" + nm, harness=P, entry="harness_pair_api", defines=["C18_OP=%d" % i], unwind=10, unwindset=PU, timeout=600, mem_gb=4,
                        desc="pair, one API operation (%s) from an arbitrary consistent state: partner input never passes its high mark, nothing deliverable left behind, byte count conserved" % nm))
    FH = "C18_filter.c"
    obs += [dict(name="filter_out", harness=FH, entry="harness_filter_out", unwind=8, unwindset=PU, timeout=900, mem_gb=6,
                 desc="be_filter_process_output (normal mode): harness filter moving a solver-chosen prefix, <=3 invocations; offered limit == room below the underlying high write mark, never past it, not urged when full/disabled/empty, write callback only <= low mark; lengths/marks <= 0xffff"),
            dict(name="filter_in", harness=FH, entry="harness_filter_in", unwind=8, unwindset=PU, timeout=900, mem_gb=6,
                 desc="be_filter_process_input (normal mode): limit == room below the filter's high read mark, input never past it, suspension state; lengths/marks <= 0xffff")]
    if tier == "thorough":
        obs += [dict(name="filter_out_flush", harness=FH, entry="harness_filter_out", defines=["C18_MODE=BEV_FLUSH", "C18_NOT_NORMAL"], unwind=8, unwindset=PU, timeout=1800, mem_gb=6,
                     desc="be_filter_process_output in BEV_FLUSH mode: limit -1 (marks ignored by contract), byte conservation"),
                dict(name="filter_in_finished", harness=FH, entry="harness_filter_in", defines=["C18_MODE=BEV_FINISHED", "C18_NOT_NORMAL"], unwind=8, unwindset=PU, timeout=1800, mem_gb=6,
                     desc="be_filter_process_input in BEV_FINISHED mode"),
                dict(name="filter_out_ndebug", harness=FH, entry="harness_filter_out", ndebug=True, unwind=8, unwindset=PU, timeout=1800, mem_gb=6, desc="filter_out, NDEBUG build"),
                dict(name="pair_transfer_ndebug", harness=P, entry="harness_pair_transfer", ndebug=True, unwind=10, unwindset=PU, timeout=900, mem_gb=4, desc="pair_transfer, NDEBUG build"),
                dict(name="sock_setwm_ndebug", harness=W, entry="harness_setwm", unwind=10, ndebug=True, timeout=600, mem_gb=4, desc="sock_setwm, NDEBUG build")]
    return obs
