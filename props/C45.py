ID = "C45"
LEVEL = "model_checking"
TECHNIQUE = "CBMC bounded symbolic execution of the real event_base_loop + watch.c on a constructed base; solver-chosen free/add actions inside watcher and event callbacks; monitor automaton for phase/once/skip; cbmc pointer checks + ASan replay for use-after-free"
UNITS = ["event.c", "watch.c", "evmap.c"]
FUNCTIONS = ["event_base_loop", "evwatch_prepare_new", "evwatch_check_new", "evwatch_free", "evwatch_base", "evwatch_prepare_get_timeout", "event_base_free_"]
BOUNDS = ""
OUT = ""
TEXT = ""
NOTE = ""
ASSUMPTIONS = []
DESIGN_REF = "DESIGN.md §5 C45"

import os
_T = int(os.environ.get("VP_PROBE_T", "0"))
# Indirect calls are pinned to the harness callbacks: cbmc matches candidates by (loose) signature, and
# as soon as a watcher/event pointer is an ite() after a state merge every 3-argument function
# in the binary becomes a candidate (measured: no result).  goto-instrument asserts the pin.
_PIN = [["--restrict-function-pointer", "event_base_loop.function_pointer_call.5/prepare_cb",
         "--restrict-function-pointer", "event_base_loop.function_pointer_call.9/check_cb",
         "--restrict-function-pointer", "event_base_loop.function_pointer_call.7/vp_be_dispatch",
         "--restrict-function-pointer", "event_persist_closure.function_pointer_call.2/timer_cb",
         "--restrict-function-pointer", "event_process_active_single_queue.function_pointer_call.2/timer_cb"]]
ONCE, NONBLOCK = "EVLOOP_ONCE", "EVLOOP_NONBLOCK"

def _ob(name, defs, desc, flags=(ONCE, ONCE), **kw):
    d = dict(name=name, harness="C45_watchers.c", entry="harness_watchers", sources=["evmap.c"],
             defines=list(defs) + ["C45_FLAGS=%s" % ",".join(flags)],
             unwind=8, timeout=600, mem_gb=3, desc=desc, instrument=_PIN)
    d.update(kw)
    if _T: d["timeout"] = _T
    return d

def obligations(tier):
    obs = [
        _ob("timer", ["C45_TIMER"], "timer"),
        _ob("noact_nb", ["C45_POLL_READY=1"], "no actions", flags=(NONBLOCK, ONCE)),
        _ob("add", ["C45_ACT_ADD"], "callbacks may register a watcher"),
        _ob("evcb", ["C45_EVCB_ACTS"], "event callback frees/adds watchers"),
        _ob("free_self", ["C45_ACT_SELF"], "watcher callbacks may free themselves"),
        _ob("free_other", ["C45_ACT_OTHER"], "watcher callbacks may free another watcher"),
    ]
    return obs
