ID = "C45"
LEVEL = "model_checking"
TECHNIQUE = "CBMC bounded symbolic execution of the real event_base_loop + watch.c on a constructed base; solver-chosen free/add actions inside watcher and event callbacks; monitor automaton for phase/once/skip; cbmc pointer checks + ASan replay for use-after-free"
UNITS = ["event.c", "watch.c", "evmap.c"]
FUNCTIONS = ["event_base_loop", "evwatch_prepare_new", "evwatch_check_new", "evwatch_free", "evwatch_base", "evwatch_prepare_get_timeout", "event_base_free_"]
BOUNDS = ""
OUT = ""
TEXT = ""
NOTE = ""
ASSUMPTIONS = []
DESIGN_REF = "DESIGN.md §5 C45"

import os
_T = int(os.environ.get("VP_PROBE_T", "0"))
_CUT = sum([["--remove-function-body", f] for f in ("common_timeout_callback", "event_once_cb", "event_loopexit_cb",
        "evthread_notify_drain_default", "evthread_notify_drain_eventfd")], [])
def _ob(name, defs, desc, **kw):
    d = dict(name=name, harness="C45_watchers.c", entry="harness_watchers", sources=["evmap.c"], defines=defs,
             unwind=8, timeout=600, mem_gb=3, desc=desc,
             cbmc=["--paths", "lifo"], instrument=[_CUT])
    d.update(kw)
    if _T: d["timeout"] = _T
    return d

def obligations(tier):
    obs = [
        _ob("timer", ["C45_TIMER"], "timer"),
        _ob("noact", ["C45_FLAGS_SYM"], "2 prepare + 2 check watchers, no actions, 2 loop calls, flags symbolic"),
        _ob("add", ["C45_ACT_ADD", "C45_FLAGS_SYM"], "callbacks may register a watcher"),
        _ob("evcb", ["C45_EVCB_ACTS"], "event callback frees/adds watchers"),
        _ob("free_self", ["C45_ACT_SELF"], "watcher callbacks may free themselves"),
        _ob("free_other", ["C45_ACT_OTHER"], "watcher callbacks may free another watcher"),
    ]
    return obs
