ID = "C45"
LEVEL = "model_checking"
TECHNIQUE = "CBMC bounded symbolic execution of the real event_base_loop + watch.c on a constructed base; solver-chosen free/add actions inside watcher and event callbacks; monitor automaton for phase/once/skip; cbmc pointer checks + ASan replay for use-after-free"
UNITS = ["event.c", "watch.c", "evmap.c"]
FUNCTIONS = ['event_base_loop', 'evwatch_prepare_new', 'evwatch_check_new', 'evwatch_free', 'evwatch_base', 'evwatch_prepare_get_timeout', 'event_base_free_']
BOUNDS = '2 prepare + 2 check watchers (thorough 3+2) + 1 spare slot per type for watchers registered from callbacks; 2 event_base_loop calls (thorough 3), loop flags and fd readiness fixed per obligation; at most 2 (thorough 3) callbacks of a run take an action, which ones / which action / which target chosen by the solver; one persistent read event (I/O mode) or one 1.25 s timer (timer mode)'
OUT = 'more watchers/iterations/actions than the bounds; freeing and registering from watcher callbacks combined in one run (each is covered alone; combined only from the event callback); evwatch_free from another thread while the callback runs; watcher order among each other (unspecified); real back ends'
TEXT = "Real event_base_loop + watch.c on a constructed base: a monitor checks that every registered live watcher runs exactly once per iteration in its phase (prepare before the wait, check between the wait and the first event callback), that prepare watchers are told exactly the timeout dispatch receives (and the time to the next timer), that no watcher callback runs after evwatch_free, none is skipped, and cbmc's pointer checks/ASan replay decide that the loop never reads a freed watcher, for solver-chosen free-self / free-other / register actions inside watcher and event callbacks."
NOTE = 'FINDING (obligation free_self fails on the unchanged tree, replayed natively with ASan: heap-use-after-free): a watcher that calls evwatch_free() on itself in its callback is read after free by TAILQ_FOREACH in event_base_loop (event.c:2064/2085). Fix: fixes/C45-watcher-free-in-callback.diff. Indirect calls are pinned with goto-instrument --restrict-function-pointer (asserted). Unused handle slots hold a dummy watcher (never registered/freed) so that merged pointers stay valid.'
ASSUMPTIONS = ['constructed event_base (env/evbase.h) == event_base_new_with_config minus back-end selection/notify pipe', 'recording no-op back end; in I/O mode the fd is reported readable when the wait is unbounded (and once per non-blocking loop call)', 'allocation does not fail', 'single thread']
DESIGN_REF = "DESIGN.md §5 C45"

import os
_T = int(os.environ.get("VP_PROBE_T", "0"))
# Indirect calls are pinned to the harness callbacks: cbmc matches candidates by (loose) signature, and
# as soon as a watcher/event pointer is an ite() after a state merge every 3-argument function
# in the binary becomes a candidate (measured: no result).  goto-instrument asserts the pin.
_PIN = [["--restrict-function-pointer", "event_base_loop.function_pointer_call.5/prepare_cb",
         "--restrict-function-pointer", "event_base_loop.function_pointer_call.9/check_cb",
         "--restrict-function-pointer", "event_base_loop.function_pointer_call.7/vp_be_dispatch",
         "--restrict-function-pointer", "event_persist_closure.function_pointer_call.2/timer_cb",
         "--restrict-function-pointer", "event_process_active_single_queue.function_pointer_call.2/timer_cb"]]
ONCE, NONBLOCK = "EVLOOP_ONCE", "EVLOOP_NONBLOCK"

def _ob(name, defs, desc, flags=(ONCE, ONCE), **kw):
    d = dict(name=name, harness="C45_watchers.c", entry="harness_watchers", sources=["evmap.c"],
             defines=list(defs) + ["C45_FLAGS=%s" % ",".join(flags)],
             unwind=8, timeout=600, mem_gb=3, desc=desc, instrument=_PIN)
    d.update(kw)
    if _T: d["timeout"] = _T
    return d

def obligations(tier):
    obs = [
        _ob("timer", ["C45_TIMER"], "2 prepare + 2 check watchers, a 1.25 s timer, 2 blocking iterations: once per iteration, phase order, reported timeout == time to the next timer == what dispatch gets"),
        _ob("noact_nb", ["C45_POLL_READY=1"], "non-blocking then blocking iteration, fd readable: iterations with and without callbacks", flags=(NONBLOCK, ONCE)),
        _ob("add", ["C45_ACT_ADD"], "watcher callbacks may register a prepare/check watcher (<=2 actions, solver-chosen where)"),
        _ob("evcb", ["C45_EVCB_ACTS"], "the event callback frees any watcher / registers one"),
        _ob("free_other", ["C45_ACT_OTHER"], "watcher callbacks may free any OTHER watcher (incl. the one due next)"),
        _ob("free_self", ["C45_ACT_SELF"], "watcher callbacks may free THEMSELVES (fails without fixes/C45-watcher-free-in-callback.diff: use after free in event_base_loop)"),
        _ob("self_other", ["C45_ACT_SELF", "C45_ACT_OTHER"], "watcher callbacks free themselves or others, <=2 per run"),
        _ob("free_base", ["C45_ACT_OTHER", "C45_FREE_BASE"], "event_base_free releases the remaining watchers", unwind=10, unwindset=["evmap_io_foreach_fd.0:34", "evmap_signal_foreach_signal.0:66", "evmap_io_clear_.0:34", "evmap_signal_clear_.0:66"]),
    ]
    if tier != "quick":
        big = ["C45_NP0=3", "C45_NC0=2", "C45_NLOOPS=3", "C45_MAXACT=3"]
        obs += [
            _ob("self_other_big", ["C45_ACT_SELF", "C45_ACT_OTHER"] + big, "3 prepare + 2 check watchers, 3 loop calls, <=3 frees (self or other)", flags=(ONCE, ONCE, ONCE), unwind=10, timeout=2400, mem_gb=8),
            _ob("evcb_big", ["C45_EVCB_ACTS"] + big, "3+2 watchers, 3 loop calls, event callback frees/registers", flags=(ONCE, ONCE, ONCE), unwind=10, timeout=2400, mem_gb=8),
            _ob("free_self_big", ["C45_ACT_SELF"] + big, "self-free, 3+2 watchers, 3 loop calls", flags=(ONCE, ONCE, ONCE), unwind=10, timeout=2400, mem_gb=8),
            _ob("self_other_ndebug", ["C45_ACT_SELF", "C45_ACT_OTHER"], "as self_other, NDEBUG build (as shipped)", ndebug=True),
        ]
    return obs
