import os
ID = "C01"
LEVEL = "model_checking"
TECHNIQUE = "CBMC bounded symbolic execution of the real timer code: inductive step obligations from symbolic pre-states under a representation invariant (min-heap, expiry, persist re-arm, deadline computation, common-timeout queue) plus concrete-shape runs through event_base_loop on a constructed base with a virtual clock"
UNITS = ["event.c", "minheap-internal.h", "evmap.c"]
FUNCTIONS = []
BOUNDS = ""
OUT = ""
TEXT = ""
NOTE = ""
ASSUMPTIONS = []
DESIGN_REF = "DESIGN.md §5 C01"
_T = int(os.environ.get("VP_PROBE_T", "0"))

def _fin(d):
    if _T: d["timeout"] = _T
    return d

def _heap(n, N, ops=None):
    lg = 2
    while (1 << (lg - 1)) <= N: lg += 1      # levels + 1
    defs = ["C01_N=%d" % N, "C01_NFIX=%d" % n]
    name = "heap_step_n%d_of%d" % (n, N)
    if ops is not None:
        defs.append("C01_OPFIX=%d" % ops); name += "_op%d" % ops
    return _fin(dict(name=name, harness="C01_minheap.c", entry="harness_minheap_step", defines=defs,
                unwind=N + 3, unwindset=["min_heap_shift_down_.0:%d" % lg, "min_heap_shift_up_.0:%d" % lg, "min_heap_shift_up_unconditional_.0:%d" % lg],
                timeout=900, mem_gb=4,
                desc="(a) min-heap inductive step: ANY valid heap of %d elements (capacity %d), fully symbolic deadlines; push/pop/erase(any victim)/adjust(any victim, any new deadline): invariant, membership, top=min" % (n, N)))

# Timers of these obligations are never common-timeout timers (usec < 10^6 has no magic bits), but symex
# cannot fold `(tv_usec & 0xf0000000) == 0x50000000` on a symbolic tv_usec and would walk the common-timeout
# branches with a NULL queue table.  The cut turns the first call on that branch into assert(false);assume(false):
# "never reached" is proved by the solver, and the infeasible path is pruned.
_NO_COMMON = [["--remove-function-body", "get_common_timeout_list"],
              ["--generate-function-body", "get_common_timeout_list", "--generate-function-body-options", "assert-false-assume-false"]]
_HEAPLOOPS = lambda k: ["min_heap_shift_down_.0:%d" % k, "min_heap_shift_up_.0:%d" % k, "min_heap_shift_up_unconditional_.0:%d" % k]

def _tm(name, entry, desc, defines=(), unwind=6, heap=3, **kw):
    d = dict(name=name, harness="C01_timers.c", entry=entry, sources=["evmap.c"], defines=list(defines), unwind=unwind,
             unwindset=_HEAPLOOPS(heap), instrument=_NO_COMMON, timeout=900, mem_gb=3, desc=desc)
    d.update(kw)
    return _fin(d)

def obligations(tier):
    N = 6 if tier == "quick" else 7
    obs = [_heap(n, N) for n in range(0, N + 1)]
    obs.append(_tm("deadline", "harness_deadline", "(b) event_add relative/absolute, persistent or not, now/timeout any sec<2^31, usec<10^6: deadline == now+tv normalised, pending in heap, event_pending reports it on the wall clock, wait == max(0,deadline-now)"))
    for n in range(0, 4 if tier == "quick" else 5):
        obs.append(_tm("expiry_n%d" % n, "harness_expiry", "(c) timeout_next+timeout_process from ANY valid heap of %d timers, any now: activated == {deadline<=now}, each once, order non-decreasing, rest pending, heap valid, wait exact" % n,
                       defines=["C01_NH=%d" % n], unwind=n + 3, mem_gb=4 if n >= 3 else 2))
    for bt in (1, 0):
        obs.append(_tm("persist_%s" % ("timeout" if bt else "other"), "harness_persist", "(d) event_persist_closure re-arm: prev deadline, interval, now symbolic; activation by %s" % ("EV_TIMEOUT" if bt else "another result while the timer is pending"),
                       defines=["C01_BY_TIMEOUT=%d" % bt]))
    return obs
