import os
ID = "C01"
LEVEL = "model_checking"
TECHNIQUE = "CBMC bounded symbolic execution of the real timer code: inductive step obligations from symbolic pre-states under a representation invariant (min-heap, expiry, persist re-arm, deadline computation, common-timeout queue) plus concrete-shape runs through event_base_loop on a constructed base with a virtual clock"
UNITS = ["event.c", "minheap-internal.h", "evmap.c"]
FUNCTIONS = []
BOUNDS = ""
OUT = ""
TEXT = ""
NOTE = ""
ASSUMPTIONS = []
DESIGN_REF = "DESIGN.md §5 C01"
_T = int(os.environ.get("VP_PROBE_T", "0"))

def _fin(d):
    if _T: d["timeout"] = _T
    return d

def _heap(n, N, ops=None):
    lg = 2
    while (1 << (lg - 1)) <= N: lg += 1      # levels + 1
    defs = ["C01_N=%d" % N, "C01_NFIX=%d" % n]
    name = "heap_step_n%d_of%d" % (n, N)
    if ops is not None:
        defs.append("C01_OPFIX=%d" % ops); name += "_op%d" % ops
    return _fin(dict(name=name, harness="C01_minheap.c", entry="harness_minheap_step", defines=defs,
                unwind=N + 3, unwindset=["min_heap_shift_down_.0:%d" % lg, "min_heap_shift_up_.0:%d" % lg, "min_heap_shift_up_unconditional_.0:%d" % lg],
                timeout=900, mem_gb=4,
                desc="(a) min-heap inductive step: ANY valid heap of %d elements (capacity %d), fully symbolic deadlines; push/pop/erase(any victim)/adjust(any victim, any new deadline): invariant, membership, top=min" % (n, N)))

def obligations(tier):
    N = 5 if tier == "quick" else 7
    obs = [_heap(n, N) for n in range(0, N + 1)]
    return obs
