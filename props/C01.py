import os
ID = "C01"
LEVEL = "model_checking"
TECHNIQUE = "CBMC bounded symbolic execution of the real timer code: inductive step obligations from symbolic pre-states under a representation invariant (min-heap, expiry, persist re-arm, deadline computation, common-timeout queue) plus concrete-shape runs through event_base_loop on a constructed base with a virtual clock"
UNITS = ["event.c", "minheap-internal.h", "evmap.c"]
FUNCTIONS = ['min_heap_push_', 'min_heap_pop_', 'min_heap_erase_', 'min_heap_adjust_', 'min_heap_shift_up_', 'min_heap_shift_up_unconditional_', 'min_heap_shift_down_', 'min_heap_top_', 'min_heap_elt_is_top_', 'event_add', 'event_add_nolock_', 'event_pending', 'timeout_next', 'timeout_process', 'event_del_nolock_', 'event_active_nolock_', 'event_queue_insert_timeout', 'event_queue_remove_timeout', 'event_persist_closure', 'gettime']
BOUNDS = '(a) ANY valid min-heap of n<=6 (thorough 7) elements, n enumerated, deadlines: tv_sec any 64-bit value, tv_usec<10^6; one operation with solver-chosen victim/new deadline.  (b)(d) one event; now, timeout, previous deadline, interval: tv_sec<2^31, tv_usec<10^6, all solver-chosen.  (c) ANY valid heap of n<=3 (thorough 4) pending one-shot timers of one priority, solver-chosen deadlines and now.'
OUT = 'common-timeout queues (e) and multi-operation histories through event_base_loop (f) are not encoded yet; heaps > 7; timers that are also I/O events in the expiry step; several priorities in the expiry step; evutil_time.c (the clock is the virtual clock vp_now); tv_usec >= 10^6 inputs; heap growth (realloc) - capacity is pre-reserved'
TEXT = "Inductive step obligations on the real code: (a) every min-heap operation preserves heap order, index consistency and membership and keeps the minimum on top, from ANY valid heap; (b) event_add computes deadline == now+timeout (normalised) / the absolute time, the timer is pending, event_pending reports it, the loop's wait is max(0,deadline-now); (c) from ANY valid heap and any clock value timeout_process activates exactly the timers with deadline<=now (never early, never late), each once, in non-decreasing deadline order, leaves the rest pending in a valid heap, and timeout_next returns exactly max(0, earliest-now); (d) event_persist_closure re-arms at previous deadline+interval, or now+interval when that is past or the activation was not a timeout, exactly once.  Induction over loop iterations gives the unbounded claim for heap timers within the value bounds."
NOTE = "Typed distinct event objects (not arrays, not realloc'ed memory) keep heap-slot pointers a small case split. The common-timeout branches are cut with assert(false);assume(false) in get_common_timeout_list: the solver proves they are never entered by non-common timers. Reference arithmetic on timevals uses carry arithmetic (no 64-bit multiplications)."
ASSUMPTIONS = ['heap representation invariant: p[i]->min_heap_idx==i and !(parent>child) (the one event_base_assert_ok_nolock_ checks)', 'expiry pre-state: timers are EVLIST_INIT|EVLIST_TIMEOUT one-shot non-I/O events of priority 0, event_count==n', 'monotonic clock = vp_now (evutil_gettime_monotonic_ stub), gettimeofday = constant', 'constructed event_base (env/evbase.h)', 'allocation does not fail']
DESIGN_REF = "DESIGN.md §5 C01"
_T = int(os.environ.get("VP_PROBE_T", "0"))

def _fin(d):
    if _T: d["timeout"] = _T
    return d

def _heap(n, N, ops=None):
    lg = 2
    while (1 << (lg - 1)) <= N: lg += 1      # levels + 1
    defs = ["C01_N=%d" % N, "C01_NFIX=%d" % n]
    name = "heap_step_n%d_of%d" % (n, N)
    if ops is not None:
        defs.append("C01_OPFIX=%d" % ops); name += "_op%d" % ops
    return _fin(dict(name=name, harness="C01_minheap.c", entry="harness_minheap_step", defines=defs,
                unwind=N + 3, unwindset=["min_heap_shift_down_.0:%d" % lg, "min_heap_shift_up_.0:%d" % lg, "min_heap_shift_up_unconditional_.0:%d" % lg],
                timeout=900, mem_gb=4,
                desc="(a) min-heap inductive step: ANY valid heap of %d elements (capacity %d), fully symbolic deadlines; push/pop/erase(any victim)/adjust(any victim, any new deadline): invariant, membership, top=min" % (n, N)))

# Timers of these obligations are never common-timeout timers (usec < 10^6 has no magic bits), but symex
# cannot fold `(tv_usec & 0xf0000000) == 0x50000000` on a symbolic tv_usec and would walk the common-timeout
# branches with a NULL queue table.  The cut turns the first call on that branch into assert(false);assume(false):
# "never reached" is proved by the solver, and the infeasible path is pruned.
_NO_COMMON = [["--remove-function-body", "get_common_timeout_list"],
              ["--generate-function-body", "get_common_timeout_list", "--generate-function-body-options", "assert-false-assume-false"]]
_HEAPLOOPS = lambda k: ["min_heap_shift_down_.0:%d" % k, "min_heap_shift_up_.0:%d" % k, "min_heap_shift_up_unconditional_.0:%d" % k]

def _tm(name, entry, desc, defines=(), unwind=6, heap=3, **kw):
    d = dict(name=name, harness="C01_timers.c", entry=entry, sources=["evmap.c"], defines=list(defines), unwind=unwind,
             unwindset=_HEAPLOOPS(heap), instrument=_NO_COMMON, timeout=900, mem_gb=3, desc=desc)
    d.update(kw)
    return _fin(d)

def obligations(tier):
    N = 6 if tier == "quick" else 7
    obs = [_heap(n, N) for n in range(0, N + 1)]
    obs.append(_tm("deadline", "harness_deadline", "(b) event_add relative/absolute, persistent or not, now/timeout any sec<2^31, usec<10^6: deadline == now+tv normalised, pending in heap, event_pending reports it on the wall clock, wait == max(0,deadline-now)"))
    for n in range(0, 4 if tier == "quick" else 5):
        obs.append(_tm("expiry_n%d" % n, "harness_expiry", "(c) timeout_next+timeout_process from ANY valid heap of %d timers, any now: activated == {deadline<=now}, each once, order non-decreasing, rest pending, heap valid, wait exact" % n,
                       defines=["C01_NH=%d" % n], unwind=n + 3, mem_gb=4 if n >= 3 else 2))
    for bt in (1, 0):
        obs.append(_tm("persist_%s" % ("timeout" if bt else "other"), "harness_persist", "(d) event_persist_closure re-arm: prev deadline, interval, now symbolic; activation by %s" % ("EV_TIMEOUT" if bt else "another result while the timer is pending"),
                       defines=["C01_BY_TIMEOUT=%d" % bt]))
    return obs
