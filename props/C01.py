import os
ID = "C01"
LEVEL = "model_checking"
TECHNIQUE = "CBMC bounded symbolic execution of the real timer code: inductive step obligations from symbolic pre-states under a representation invariant (min-heap, expiry, persist re-arm, deadline computation, common-timeout queue) plus concrete-shape runs through event_base_loop on a constructed base with a virtual clock"
UNITS = ["event.c", "minheap-internal.h", "evmap.c"]
FUNCTIONS = ['min_heap_push_', 'min_heap_pop_', 'min_heap_erase_', 'min_heap_adjust_', 'min_heap_shift_up_', 'min_heap_shift_up_unconditional_', 'min_heap_shift_down_', 'min_heap_top_', 'min_heap_elt_is_top_', 'event_add', 'event_add_nolock_', 'event_pending', 'timeout_next', 'timeout_process', 'event_del_nolock_', 'event_active_nolock_', 'event_queue_insert_timeout', 'event_queue_remove_timeout', 'event_persist_closure', 'gettime']
BOUNDS = '(a) ANY valid min-heap of n<=6 (thorough 7) elements, n enumerated, deadlines: tv_sec any 64-bit value, tv_usec<10^6; one operation with solver-chosen victim/new deadline.  (b)(d) one event; now, timeout, previous deadline, interval: tv_sec<2^31, tv_usec<10^6, all solver-chosen.  (c) ANY valid heap of n<=3 (thorough 4) pending one-shot timers of one priority, solver-chosen deadlines and now.  (g) re-add of a timer that is already active by timeout: step with symbolic first deadline/now/new timeout, and through the real loop (the callback of timer A re-adds timer B; 20/21 ms, +5 s).  (e) two common-timeout timers (1 s / 2 s queues): 2 (thorough 13) call prefixes then ANY of 26 calls.  (f) a one-shot and a persistent timer through the real event_base_loop: 4 (thorough 13) fixed call prefixes of length 2-3 from {add 0/1/2 s, del, remove_timer, loop with clock +0/+2 s} followed by ANY one of 26 calls, durations from {0,1 s,2 s}.'
OUT = 'common-timeout queues only through histories of <=4 calls over 2 events with 1 s/2 s queues (no symbolic-duration step obligation for common_timeout_callback / insert_common_timeout_inorder); histories longer than 4 calls and symbolic durations through the loop (covered only by the inductive steps); heaps > 7; timers that are also I/O events in the expiry step; several priorities in the expiry step; evutil_time.c (the clock is the virtual clock vp_now); tv_usec >= 10^6 inputs; heap growth (realloc) - capacity is pre-reserved'
TEXT = "Inductive step obligations on the real code: (a) every min-heap operation preserves heap order, index consistency and membership and keeps the minimum on top, from ANY valid heap; (b) event_add computes deadline == now+timeout (normalised) / the absolute time, the timer is pending, event_pending reports it, the loop's wait is max(0,deadline-now); (c) from ANY valid heap and any clock value timeout_process activates exactly the timers with deadline<=now (never early, never late), each once, in non-decreasing deadline order, leaves the rest pending in a valid heap, and timeout_next returns exactly max(0, earliest-now); (d) event_persist_closure re-arms at previous deadline+interval, or now+interval when that is past or the activation was not a timeout, exactly once.  Induction over loop iterations gives the unbounded claim for heap timers within the value bounds."
NOTE = "Typed distinct event objects (not arrays, not realloc'ed memory) keep heap-slot pointers a small case split. The common-timeout branches are cut with assert(false);assume(false) in get_common_timeout_list: the solver proves they are never entered by non-common timers. Reference arithmetic on timevals uses carry arithmetic (no 64-bit multiplications)."
ASSUMPTIONS = ['heap representation invariant: p[i]->min_heap_idx==i and !(parent>child) (the one event_base_assert_ok_nolock_ checks)', 'expiry pre-state: timers are EVLIST_INIT|EVLIST_TIMEOUT one-shot non-I/O events of priority 0, event_count==n', 'monotonic clock = vp_now (evutil_gettime_monotonic_ stub), gettimeofday = constant', 'constructed event_base (env/evbase.h)', 'allocation does not fail']
DESIGN_REF = "DESIGN.md §5 C01"
_T = int(os.environ.get("VP_PROBE_T", "0"))

def _fin(d):
    if _T: d["timeout"] = _T
    return d

def _heap(n, N, ops=None):
    lg = 2
    while (1 << (lg - 1)) <= N: lg += 1      # levels + 1
    defs = ["C01_N=%d" % N, "C01_NFIX=%d" % n]
    name = "heap_step_n%d_of%d" % (n, N)
    if ops is not None:
        defs.append("C01_OPFIX=%d" % ops); name += "_op%d" % ops
    return _fin(dict(name=name, harness="C01_minheap.c", entry="harness_minheap_step", defines=defs,
                unwind=N + 3, unwindset=["min_heap_shift_down_.0:%d" % lg, "min_heap_shift_up_.0:%d" % lg, "min_heap_shift_up_unconditional_.0:%d" % lg],
                timeout=900 if N <= 6 else 2400, mem_gb=4 if N <= 6 else 8,
                desc="(a) min-heap inductive step: ANY valid heap of %d elements (capacity %d), fully symbolic deadlines; push/pop/erase(any victim)/adjust(any victim, any new deadline): invariant, membership, top=min" % (n, N)))

# Timers of these obligations are never common-timeout timers (usec < 10^6 has no magic bits), but symex
# cannot fold `(tv_usec & 0xf0000000) == 0x50000000` on a symbolic tv_usec and would walk the common-timeout
# branches with a NULL queue table.  The cut turns the first call on that branch into assert(false);assume(false):
# "never reached" is proved by the solver, and the infeasible path is pruned.
_NO_COMMON = [["--remove-function-body", "get_common_timeout_list"],
              ["--generate-function-body", "get_common_timeout_list", "--generate-function-body-options", "assert-false-assume-false"]]
_HEAPLOOPS = lambda k: ["min_heap_shift_down_.0:%d" % k, "min_heap_shift_up_.0:%d" % k, "min_heap_shift_up_unconditional_.0:%d" % k]

def _tm(name, entry, desc, defines=(), unwind=6, heap=3, **kw):
    d = dict(name=name, harness="C01_timers.c", entry=entry, sources=["evmap.c"], defines=list(defines), unwind=unwind,
             unwindset=_HEAPLOOPS(heap), instrument=_NO_COMMON, timeout=900, mem_gb=3, desc=desc)
    d.update(kw)
    return _fin(d)

# (e) common-timeout queues: the C02 history harness with both events using event_base_init_common_timeout
# durations (1 s and 2 s queues); the reference model treats them as ordinary timers plus FIFO order inside one queue.
_PIN_HIST = [sum([["--restrict-function-pointer", x] for x in (
    "event_base_loop.function_pointer_call.7/vp_be_dispatch",
    "event_persist_closure.function_pointer_call.2/cb",
    "event_process_active_single_queue.function_pointer_call.2/cb,common_timeout_callback",
    "event_signal_closure.function_pointer_call.2/cb")], []) + ["--remove-function-body", "evmap_check_integrity_"],
    ["--generate-function-body", "evmap_check_integrity_", "--generate-function-body-options", "nondet-return"]]

def _common(prefix, kinds=("K_CTIMER", "K_CTIMER"), tag="common", expect_cb=True):
    L = len(prefix) + 1
    return _fin(dict(name="%s_%s_pre%s" % (tag, "_".join(k[2:].lower() for k in kinds), "_".join(str(x) for x in prefix)),
                harness="C02_statemachine.c", entry="harness_history",
                defines=["C02_KIND0=" + kinds[0], "C02_KIND1=" + kinds[1], "C02_LEN=%d" % L, "C02_PREFIX=" + ",".join(str(x) for x in prefix), "C02_NOUNION"] + (["C02_EXPECT_CB"] if expect_cb else []),
                unwind=10, unwindset=["run:%d" % (L + 2)], instrument=_PIN_HIST, timeout=900, mem_gb=2, cbmc=["--object-bits", "12", "--no-standard-checks"],
                desc="(e) common-timeout timers (%s): history %s (1/2 = add 1 s/2 s on event 0, 13/14 on event 1, 3/15 del, 24/25 loop +0/+2 s) then ANY call, vs the reference model: fires once at the deadline, FIFO within a queue, cancel/replace, internal timer re-armed (event_base_assert_ok_nolock_ live)" % ("+".join(kinds), list(prefix))))

def obligations(tier):
    N = 6 if tier == "quick" else 7
    obs = [_heap(n, N) for n in range(0, N + 1)]
    obs.append(_tm("deadline", "harness_deadline", "(b) event_add relative/absolute, persistent or not, now/timeout any sec<2^31, usec<10^6: deadline == now+tv normalised, pending in heap, event_pending reports it on the wall clock, wait == max(0,deadline-now)"))
    for n in range(0, 4 if tier == "quick" else 5):
        obs.append(_tm("expiry_n%d" % n, "harness_expiry", "(c) timeout_next+timeout_process from ANY valid heap of %d timers, any now: activated == {deadline<=now}, each once, order non-decreasing, rest pending, heap valid, wait exact" % n,
                       defines=["C01_NH=%d" % n], unwind=n + 3, mem_gb=(8 if n >= 4 else 4) if n >= 3 else 2, timeout=2400 if n >= 4 else 900))
    for bt in (1, 0):
        obs.append(_tm("persist_%s" % ("timeout" if bt else "other"), "harness_persist", "(d) event_persist_closure re-arm: prev deadline, interval, now symbolic; activation by %s" % ("EV_TIMEOUT" if bt else "another result while the timer is pending"),
                       defines=["C01_BY_TIMEOUT=%d" % bt]))
    # re-add replaces the firing: (1) step with symbolic deadlines, (2) through the real loop (A's callback re-adds B)
    _pin_readd = [sum([["--restrict-function-pointer", x] for x in ("event_base_loop.function_pointer_call.7/vp_be_dispatch",
                   "event_process_active_single_queue.function_pointer_call.2/ra_cb,rb_cb", "event_persist_closure.function_pointer_call.2/rb_cb")], [])]
    for pz in (0, 1):
        obs.append(_tm("readd_step_%s" % ("persist" if pz else "oneshot"), "harness_readd_step", "re-add of a timer that is already active by timeout (callback not yet run): stale firing dropped, pending once at now+tv; first deadline, now, tv solver-chosen",
                       defines=["C01_READD_PERSIST=%d" % pz]))
        obs.append(_tm("readd_loop_%s" % ("persist" if pz else "oneshot"), "harness_readd_loop", "timers A,B expire in one iteration, A's callback re-adds B (5 s): B does not fire at the old deadline, fires exactly once at the new one (real event_base_loop)",
                       defines=["C01_READD_PERSIST=%d" % pz], instrument=_NO_COMMON + _pin_readd))
    # (f) histories through the real event_base_loop: a one-shot timer (event 0: 1 = add 0 s, 2 = add 1 s, 3 del, 9 remove_timer) and a
    # persistent timer (event 1: 13 = add 1 s, 14 = add 2 s, 15 del, 21 remove_timer), 24/25 = loop iteration with the clock +0/+2 s;
    # the listed calls, then ANY call (26 alternatives, solver-chosen), compared with the reference model after every call:
    # a callback runs exactly once iff its deadline <= clock at an iteration and it was not cancelled/replaced; persist re-arms.
    shapes = [((2, 14), True), ((2, 25), False), ((14, 25), True), ((2, 2), True)] if tier == "quick" else \
             [((2, 14), True), ((2, 25), False), ((14, 25), True), ((2, 2), True), ((2, 3), False), ((2, 9), False), ((14, 21), False),
              ((14, 14), True), ((1, 24), False), ((2, 14, 25), True), ((14, 25, 25), True), ((2, 14, 15), True), ((13, 25, 14), True)]
    for (pre, ecb) in shapes:
        o = _common(pre, kinds=("K_TIMER", "K_TIMER_P"), tag="shape", expect_cb=ecb)
        o["desc"] = "(f) real event_base_loop histories over a one-shot and a persistent timer: calls %s then ANY call vs the reference model (fires exactly once iff due and not cancelled/replaced; persist re-arm; counters; assert_ok live)" % (list(pre),)
        obs.append(o)
    # (e) common-timeout queues (1 s and 2 s queues) through the real API and loop, union-free layout of struct event
    # (env/event_struct_nounion.h: cbmc cannot fold reads of ev_timeout_pos once both union members were written)
    pres = [(1, 13), (2, 13)] if tier == "quick" else [(1, 13), (13, 1), (2, 13), (1, 14), (14, 2), (1, 13, 3), (1, 13, 24), (2, 13, 25), (1, 1), (1, 25), (1, 13, 1)]
    for pre in pres:
        obs.append(_common(pre))
    if tier != "quick":
        obs.append(_common((1, 13), kinds=("K_CTIMER", "K_TIMER")))
        obs.append(_common((13, 1), kinds=("K_CTIMER", "K_TIMER_P")))
    return obs
