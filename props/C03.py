import os
ID = "C03"
LEVEL = "model_checking"
TECHNIQUE = "CBMC bounded symbolic execution of the real event_base_loop/event_process_active on a constructed base against a scheduler model; solver-chosen priorities and activation orders explored as an unmerged tree"
UNITS = ["event.c", "evmap.c"]
FUNCTIONS = []
BOUNDS = ""
OUT = ""
TEXT = ""
NOTE = ""
ASSUMPTIONS = []
DESIGN_REF = "DESIGN.md §5 C03"
_T = int(os.environ.get("VP_PROBE_T", "0"))
_PIN = [sum([["--restrict-function-pointer", x] for x in (
    "event_base_loop.function_pointer_call.7/vp_be_dispatch",
    "event_process_active_single_queue.function_pointer_call.2/u_cb,event_once_cb",
    "event_process_active_single_queue.function_pointer_call.4/xd_cb",
    "event_once_cb.function_pointer_call.1/event_loopexit_cb")], [])]
ACTIONS = ["A_NONE", "A_BREAK", "A_CONTINUE", "A_EXIT", "A_ACTIVE_X", "A_LATER_X", "A_DEFER_X"]

def _ob(action, p0, xp, flags="EVLOOP_NONBLOCK", extra=(), tag="", **kw):
    d = dict(name="sched_%s_p%d_x%d%s" % (action[2:].lower(), p0, xp, tag), harness="C03_priority.c", entry="harness_sched",
             defines=["C03_ACTION=" + action, "C03_P0=%d" % p0, "C03_XP=%d" % xp, "C03_FLAGS=" + flags] + list(extra),
             unwind=14, instrument=_PIN, timeout=900, mem_gb=3, cbmc=["--object-bits", "12", "--no-standard-checks"],
             desc="U0 (priority %d) does %s, X has priority %d; priorities of U1,U2 and the activation order solver-chosen (54 leaves); flags %s %s" % (p0, action, xp, flags, " ".join(extra)))
    d.update(kw)
    if _T: d["timeout"] = _T
    return d

def obligations(tier):
    obs = [_ob(a, 1, 0) for a in ACTIONS]
    return obs
