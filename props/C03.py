import os
ID = "C03"
LEVEL = "model_checking"
TECHNIQUE = "CBMC bounded symbolic execution of the real event_base_loop/event_process_active on a constructed base against a scheduler model; solver-chosen priorities and activation orders explored as an unmerged tree"
UNITS = ["event.c", "evmap.c"]
FUNCTIONS = ['event_base_loop', 'event_process_active', 'event_process_active_single_queue', 'event_active', 'event_active_nolock_', 'event_active_later_', 'event_callback_activate_nolock_', 'event_callback_activate_later_nolock_', 'event_deferred_cb_schedule_', 'event_queue_make_later_events_active', 'event_base_loopbreak', 'event_base_loopcontinue', 'event_base_loopexit', 'event_base_once', 'event_once_cb', 'event_base_got_break', 'event_base_got_exit', 'event_priority_set']
BOUNDS = "3 priorities; 3 user events activated in a solver-chosen order with solver-chosen priorities (54 combinations per obligation, U0's priority and X's enumerated: quick 1 setting + 3 extras, thorough all 9) + 1 extra event / deferred callback X; U0's callback performs one fixed action per obligation (none, loopbreak, loopcontinue, loopexit(NULL), event_active(X), event_active_later_(X), schedule deferred X); loop flags NONBLOCK / ONCE / 0 / NO_EXIT_ON_EMPTY; max_dispatch_callbacks 1 (thorough also 2) with limit_callbacks_after_prio; 2 event_base_loop calls"
OUT = 'more than 4 callbacks; actions from more than one callback of a run; max_dispatch_time (time limit); the deferred-callback quota MAX_DEFERREDS_QUEUED (needs >32 callbacks); loopexit with a non-zero timeout (C01); internal events; threads'
TEXT = "The recorded trace (which callback ran, after which poll) of the real loop equals a scheduler model written from the documented rules for every priority assignment and activation order: ascending priority, FIFO within a priority, one priority level per poll, break stops after the running callback and leaves the rest queued, continue / activation of a more urgent callback re-polls and restarts at the top, exit finishes the running pass and stops before the next poll, 'later' callbacks run after the next poll, max_dispatch_callbacks bounds callbacks per poll from limit_callbacks_after_prio on; return values, got_break/got_exit, and a second loop call that must deliver every callback still queued (nothing lost, each exactly once)."
NOTE = "FINDING (obligation sched_defer_x_p1_x0 fails on the unchanged tree, replayed natively): a deferred callback of a more urgent priority scheduled from a running callback does not preempt the remaining callbacks of the running priority level (event_active() does).  Fix: fixes/C03-deferred-cb-priority-preemption.diff.  loopexit's 'after the current iteration' is modelled as implemented (one priority level per iteration)."
ASSUMPTIONS = ['constructed event_base (env/evbase.h) with 3 priorities, no I/O reported by the back end', 'max_dispatch_callbacks/limit_callbacks_after_prio written into the base as event_base_new_with_config stores them', 'allocation does not fail', 'single thread']
DESIGN_REF = "DESIGN.md §5 C03"
_T = int(os.environ.get("VP_PROBE_T", "0"))
_PIN = [sum([["--restrict-function-pointer", x] for x in (
    "event_base_loop.function_pointer_call.7/vp_be_dispatch",
    "event_process_active_single_queue.function_pointer_call.2/u_cb,event_once_cb",
    "event_process_active_single_queue.function_pointer_call.4/xd_cb",
    "event_once_cb.function_pointer_call.1/event_loopexit_cb")], [])]
ACTIONS = ["A_NONE", "A_BREAK", "A_CONTINUE", "A_EXIT", "A_ACTIVE_X", "A_LATER_X", "A_DEFER_X"]

def _ob(action, p0, xp, flags="EVLOOP_NONBLOCK", extra=(), tag="", **kw):
    d = dict(name="sched_%s_p%d_x%d%s" % (action[2:].lower(), p0, xp, tag), harness="C03_priority.c", entry="harness_sched",
             defines=["C03_ACTION=" + action, "C03_P0=%d" % p0, "C03_XP=%d" % xp, "C03_FLAGS=" + flags] + list(extra),
             unwind=14, instrument=_PIN, timeout=900, mem_gb=3, cbmc=["--object-bits", "12", "--no-standard-checks"],
             desc="U0 (priority %d) does %s, X has priority %d; priorities of U1,U2 and the activation order solver-chosen (54 leaves); flags %s %s" % (p0, action, xp, flags, " ".join(extra)))
    d.update(kw)
    if _T: d["timeout"] = _T
    return d

def obligations(tier):
    obs = []
    if tier == "quick":
        combos = [(1, 0)]
        extra_x = [("A_ACTIVE_X", 1, 2), ("A_DEFER_X", 1, 1), ("A_LATER_X", 2, 0)]
    else:
        combos = [(p0, xp) for p0 in (0, 1, 2) for xp in (0, 1, 2)]
        extra_x = []
    for (p0, xp) in combos:
        for a in ACTIONS:
            if a in ("A_NONE", "A_BREAK", "A_CONTINUE", "A_EXIT") and xp != 0: continue   # X unused
            obs.append(_ob(a, p0, xp))
    for (a, p0, xp) in extra_x:
        obs.append(_ob(a, p0, xp))
    # loop flags and return values
    obs.append(_ob("A_NONE", 1, 0, flags="EVLOOP_ONCE", tag="_once"))
    obs.append(_ob("A_NONE", 1, 0, flags="0", tag="_block"))
    obs.append(_ob("A_EXIT", 1, 0, flags="EVLOOP_NO_EXIT_ON_EMPTY", tag="_noexit"))
    obs.append(_ob("A_BREAK", 2, 0, flags="EVLOOP_NO_EXIT_ON_EMPTY", tag="_noexit"))
    # max_dispatch_interval: callback budget per poll for priorities >= limit_callbacks_after_prio
    obs.append(_ob("A_NONE", 1, 0, extra=["C03_MAXCB=1", "C03_LIMPRI=1"], tag="_maxcb1"))
    if tier != "quick":
        obs.append(_ob("A_ACTIVE_X", 2, 0, extra=["C03_MAXCB=2", "C03_LIMPRI=0"], tag="_maxcb2"))
        obs.append(_ob("A_CONTINUE", 1, 0, flags="EVLOOP_ONCE", tag="_once"))
    return obs
