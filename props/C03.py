import os
ID = "C03"
LEVEL = "model_checking"
TECHNIQUE = "CBMC bounded symbolic execution of the real event_base_loop/event_process_active on a constructed base against a scheduler model; solver-chosen priorities and activation orders explored as an unmerged tree"
UNITS = ["event.c", "evmap.c"]
FUNCTIONS = []
BOUNDS = ""
OUT = ""
TEXT = ""
NOTE = ""
ASSUMPTIONS = []
DESIGN_REF = "DESIGN.md §5 C03"
_T = int(os.environ.get("VP_PROBE_T", "0"))
_PIN = [sum([["--restrict-function-pointer", x] for x in (
    "event_base_loop.function_pointer_call.7/vp_be_dispatch",
    "event_process_active_single_queue.function_pointer_call.2/u_cb,event_once_cb",
    "event_process_active_single_queue.function_pointer_call.4/xd_cb",
    "event_once_cb.function_pointer_call.1/event_loopexit_cb")], [])]
ACTIONS = ["A_NONE", "A_BREAK", "A_CONTINUE", "A_EXIT", "A_ACTIVE_X", "A_LATER_X", "A_DEFER_X"]

def _ob(action, p0, xp, flags="EVLOOP_NONBLOCK", extra=(), tag="", **kw):
    d = dict(name="sched_%s_p%d_x%d%s" % (action[2:].lower(), p0, xp, tag), harness="C03_priority.c", entry="harness_sched",
             defines=["C03_ACTION=" + action, "C03_P0=%d" % p0, "C03_XP=%d" % xp, "C03_FLAGS=" + flags] + list(extra),
             unwind=14, instrument=_PIN, timeout=900, mem_gb=3, cbmc=["--object-bits", "12", "--no-standard-checks"],
             desc="U0 (priority %d) does %s, X has priority %d; priorities of U1,U2 and the activation order solver-chosen (54 leaves); flags %s %s" % (p0, action, xp, flags, " ".join(extra)))
    d.update(kw)
    if _T: d["timeout"] = _T
    return d

def obligations(tier):
    obs = []
    if tier == "quick":
        combos = [(1, 0)]
        extra_x = [("A_ACTIVE_X", 1, 2), ("A_DEFER_X", 1, 1), ("A_LATER_X", 2, 0)]
    else:
        combos = [(p0, xp) for p0 in (0, 1, 2) for xp in (0, 1, 2)]
        extra_x = []
    for (p0, xp) in combos:
        for a in ACTIONS:
            if a in ("A_NONE", "A_BREAK", "A_CONTINUE", "A_EXIT") and xp != 0: continue   # X unused
            obs.append(_ob(a, p0, xp))
    for (a, p0, xp) in extra_x:
        obs.append(_ob(a, p0, xp))
    # loop flags and return values
    obs.append(_ob("A_NONE", 1, 0, flags="EVLOOP_ONCE", tag="_once"))
    obs.append(_ob("A_NONE", 1, 0, flags="0", tag="_block"))
    obs.append(_ob("A_EXIT", 1, 0, flags="EVLOOP_NO_EXIT_ON_EMPTY", tag="_noexit"))
    obs.append(_ob("A_BREAK", 2, 0, flags="EVLOOP_NO_EXIT_ON_EMPTY", tag="_noexit"))
    # max_dispatch_interval: callback budget per poll for priorities >= limit_callbacks_after_prio
    obs.append(_ob("A_NONE", 1, 0, extra=["C03_MAXCB=1", "C03_LIMPRI=1"], tag="_maxcb1"))
    if tier != "quick":
        obs.append(_ob("A_ACTIVE_X", 2, 0, extra=["C03_MAXCB=2", "C03_LIMPRI=0"], tag="_maxcb2"))
        obs.append(_ob("A_CONTINUE", 1, 0, flags="EVLOOP_ONCE", tag="_once"))
    return obs
