ID = "C30"
LEVEL = "model_checking"
TECHNIQUE = "CBMC bounded symbolic execution of http.c's routing functions on servers built with the real registration API vs reference matchers"
UNITS = ["http.c", "evutil.c"]
FUNCTIONS = ["evhttp_dispatch_callback", "prefix_suffix_match", "evhttp_find_alias", "evhttp_find_vhost", "evhttp_handle_request",
             "evhttp_request_get_host", "evhttp_set_cb", "evhttp_add_virtual_host", "evhttp_add_server_alias"]
BOUNDS = ("quick: patterns/aliases/registered paths <= 3 bytes, host names and request paths <= 4 bytes (thorough: 4 / 5), every byte symbolic (0x01-0xff, request "
          "paths without '?' and '#'), so %2F, %00 and '*' are reachable; servers: root + <= 2 virtual hosts (sibling or nested), <= 1 alias per server, <= 2 callbacks; "
          "request method any single bit 0..16, allowed set any 32-bit mask")
OUT = ("the request flow before evhttp_handle_request (C23/C27); the error/404 page senders (cut and recorded); '?' and '[..]' of shell globbing (not implemented, only '*' "
       "is claimed); more than two virtual-host levels; Host values whose name part itself ends in ':' digits; websocket upgrade paths; allocation failure")
TEXT = ("match: prefix_suffix_match == reference wildcard matcher (iterative DP, '*' = any possibly empty run, optional ASCII case folding). vhost_*: on servers built with "
        "evhttp_add_server_alias / evhttp_add_virtual_host, evhttp_find_vhost returns and selects what the reference selects: an alias (root first, then depth first, "
        "case-insensitive) wins over patterns, otherwise the first matching pattern per level, descending while one matches, else the root with return value 0. dispatch: "
        "evhttp_dispatch_callback returns the first callback registered (evhttp_set_cb; duplicates refused) whose path equals the percent-decoded request path as a byte "
        "string, NULL otherwise, and frees its buffer. handle: a method outside allowed_methods gets exactly one 501 and nothing else; otherwise exactly one of: the "
        "callback registered on the chosen host for the decoded path (with its argument and the request), that host's generic callback, 404; the host comes from the "
        "request URI or the Host header with its port removed.")
NOTE = ("FINDINGS (reproduced natively, fixed in /repo): (1) decoded %00 cut the path comparison short: '/admin%00x' reached the callback for '/admin' "
        "(fixes/C30-dispatch-decoded-nul); (2) a '*' never absorbed the end of the name, so every vhost pattern ending in '*' matched nothing (fixes/C30-glob-star-empty). "
        "match, dispatch and handle fail on the tree before those commits. In vhost_* and handle prefix_suffix_match is replaced by the reference matcher it is proved equal "
        "to in `match` (the recursive matcher inside the vhost walk explodes under symex). '%2F' in a request path decodes to '/' and does match a registered path with a "
        "slash: that is what the property statement (decoded path equality) demands. Trusted: cbmc, env/http_fmt.h, env/http_stralloc.h, ref/route_ref.h, ref/uricodec_ref.h.")
ASSUMPTIONS = ["allocation does not fail", "callbacks do not modify the server", "bufferevent_disable has no effect on routing (cut)",
               "in vhost_*/handle: prefix_suffix_match == ref glob (obligation match)"]
DESIGN_REF = "DESIGN.md §5 C30"

# function-pointer restriction first: the later passes remove the call-site labels
CUTS = [["--restrict-function-pointer", "evhttp_handle_request.function_pointer_call.1/cb_a,cb_b",
         "--restrict-function-pointer", "evhttp_handle_request.function_pointer_call.2/cb_gen,cb_gen1"],
        ["--replace-calls", "prefix_suffix_match:vp_cut_glob"],
        ["--replace-calls", "evhttp_send_error:vp_cut_send_error"],
        ["--replace-calls", "evhttp_send_notfound:vp_cut_send_notfound"],
        ["--replace-calls", "bufferevent_disable:vp_cut_bufferevent_disable"]]

def obligations(tier):
    q = tier == "quick"
    n = 4 if q else 5
    k = 3 if q else 4
    T = 900 if q else 2400
    MM = 2 if q else 5
    D = ["VP_N=%d" % n, "VP_K=%d" % k, "VP_STR_OBJ=%d" % (n + 4)]
    US = ["strtoll.0:2", "strtoll.1:4", "event_mm_strdup_.0:%d" % (n + 5), "prefix_suffix_match:%d" % (k + 2), "evhttp_find_alias:4", "vp_memcmp.0:%d" % (n + 2)]
    obs = [
        dict(name="match", harness="C30_route.c", entry="harness_match", defines=D + ["VP_KPAT=%d" % k], unwind=n + 3, unwindset=US,
             timeout=T, mem_gb=MM, desc="prefix_suffix_match vs reference glob: pattern <= %d, name <= %d symbolic bytes, both case modes" % (k, n)),
    ]
    for nest in (0, 1):
        obs.append(dict(name="vhost_" + ("nested" if nest else "sibling"), harness="C30_route.c", entry="harness_vhost", defines=D + ["VP_NESTED=%d" % nest],
             unwind=n + 3, unwindset=US, instrument=[["--replace-calls", "prefix_suffix_match:vp_cut_glob"]], native=False, cbmc=["--object-bits", "10"], timeout=T, mem_gb=MM,
             desc="evhttp_find_vhost: root+alias, vhost+alias, second vhost %s; aliases/patterns <= %d, hostname <= %d symbolic bytes" % ("nested under the first" if nest else "sibling of the first", k, n)))
    obs += [
        dict(name="dispatch", harness="C30_route.c", entry="harness_dispatch", defines=D + ["VP_WIT_NUL"], unwind=n + 3, unwindset=US,
             cbmc=["--object-bits", "10"], timeout=T, mem_gb=MM,
             desc="evhttp_dispatch_callback: two registered paths <= %d, request path <= %d symbolic bytes (escapes incl. %%2F, %%00)" % (k, n)),
        dict(name="handle", harness="C30_route.c", entry="harness_handle", defines=D, unwind=n + 5,
             unwindset=US + ["vp_in_set.0:80"],   # evhttp_add_header("Host", ..) checks the name against the 77 tchar characters
             instrument=CUTS, native=False,
             cbmc=["--object-bits", "10"], timeout=T, mem_gb=MM,
             desc="evhttp_handle_request: method filter, host from URI or Host header, root + one vhost, paths/patterns <= %d, request path/host <= %d" % (k, n)),
    ]
    return obs
