ID = "C35"
LEVEL = "model_checking"
TECHNIQUE = "CBMC bounded symbolic execution of evdns.c server response construction, output decoded by the RFC 1035 reference decoder ref/dns_ref.h"
UNITS = ["evdns.c"]
FUNCTIONS = ["evdns_server_request_add_reply", "evdns_server_request_format_response", "dnsname_to_labels", "dnslabel_table_add", "dnslabel_table_get_pos", "dnslabel_clear", "server_request_free_answers"]
BOUNDS = ""
OUT = ""
TEXT = ""
NOTE = ""
ASSUMPTIONS = []
DESIGN_REF = "DESIGN.md §5 C35"

def fmt(name, N, R, Q=1, D=4, extra=(), **kw):
    d = dict(name=name, harness="C35_response.c", entry="harness_format",
             defines=["C35_N=%d" % N, "C35_R=%d" % R, "C35_Q=%d" % Q, "C35_D=%d" % D] + list(extra),
             unwind=max(N, D, R) + 3, timeout=900, mem_gb=8,
             desc="format_response: %d question, %d records, names <= %d bytes, raw data <= %d" % (Q, R, N, D))
    d.update(kw); return d

def obligations(tier):
    return [fmt("fmt_q1_r1_n3", 3, 1, extra=["C35_NOTRUNC"])]
