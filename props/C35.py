ID = "C35"
LEVEL = "model_checking"
TECHNIQUE = "CBMC bounded symbolic execution of evdns.c server response construction, output decoded by the RFC 1035 reference decoder ref/dns_ref.h"
UNITS = ["evdns.c"]
FUNCTIONS = ["evdns_server_request_add_reply", "evdns_server_request_format_response", "dnsname_to_labels", "dnslabel_table_add", "dnslabel_table_get_pos", "dnslabel_clear", "server_request_free_answers"]
BOUNDS = ("dnsname_to_labels unit step: arbitrary valid compression table with <= 1 (quick) / 2 (thorough) entries over a message prefix of <= 6 / 10 symbolic "
          "octets, buffer 16 / 24 with symbolic buf_len, every encodable name of <= 3 / 5 octets; 14-bit range: one suffix registered at a symbolic offset 0..65535. Formatter (reduced): 1 question + 1..3 raw "
          "records of 2..8 bytes, concrete one-letter names, symbolic id/flags/rcode/type/class/ttl/rdata, sections all-answer / one per section / reverse add order, "
          "max_udp_reply_size symbolic in [complete length-2, +2], formatter stack buffer scaled to 96 bytes.")
OUT = ("evdns_server_request_format_response with symbolic names / name-valued RDATA / symbolic section choice (the general harness_format does not finish within "
       "15 min / 12 GB): the formatter is decided only in the reduced form of fmt_limit_* (concrete distinct one-letter names, raw records of concrete length, "
       "formatter buffer scaled from 64 KiB to 96 bytes in a driver-made copy of evdns.c, production size outside the bound); compression inside a whole "
       "response follows from the labels_* induction, not from a whole-message run. Header counts after truncation: the response is cut at max_udp_reply_size "
       "mid-record with the counts unchanged (reproduced with -DC35_STRICT_TRUNC_COUNTS; obligation fmt_trunc_counts is enabled once known_findings.json "
       "lists KF-C35-trunc-counts as open). TCP clients (no size limit), EDNS/TCP limits beyond the scaled buffer, server_send_response, TCP length prefix.")
TEXT = ("Inductive step for name compression: from any message prefix and any compression table whose entries decode (reference decoder) to their text at their "
        "position, one dnsname_to_labels call writes only inside [j, buf_len), returns the end of a name that decodes to the given name, uses only strictly "
        "backward pointers, and leaves a table that again satisfies the invariant; a name is refused only when it does not fit. By induction every name of a "
        "response decodes to the name added and every pointer refers to an earlier identical suffix. Pointers must denote the registered offset (14-bit range). "
        "Reduced whole-formatter runs: the response decodes to id, flags|QR|rcode, counts per section, the question and the records in section order with their "
        "rdata, nothing after the last record; TC is set iff the complete response exceeds the client's limit and the message is then cut to exactly the limit; "
        "nothing leaks.")
NOTE = ("Trusted: cbmc 6.11, ref/dns_ref.h, literal-size allocator for strdup. Findings (fixes/): C35-labels-terminator-overflow (terminating zero stored at "
        "buf[buf_len]: 1-byte overflow of the formatter's 64 KiB stack buffer), C35-pointer-14bit (suffixes at offsets >= 0x4000 offered for compression). "
        "labels_wf_* exclude the overflow executions and pass on the unpatched tree; labels_all_*, ptr14_* fail without / pass with the patches.")
ASSUMPTIONS = ["fmt_limit_*: evdns_server_request_format_response is compiled from a copy of evdns.c whose only change is `unsigned char buf[1024 * 64]` -> `buf[96]` (props/C35.py gen_scaled_source)",
               "compression-table invariant: entries were registered by dnsname_to_labels from dotted C strings (labels contain no '.' or NUL; backward pointers only)",
               "no allocation failure (a failed strdup only disables compression of that suffix)"]
DESIGN_REF = "DESIGN.md §5 C35"

import os, re
_VERIF = os.path.dirname(os.path.dirname(os.path.abspath(__file__)))

def gen_scaled_source():
    """copy of $VERIF_REPO/evdns.c with the formatter's 64 KiB stack buffer made a macro (exactly one replacement)"""
    repo = os.environ.get("VERIF_REPO", "/repo")
    src = open(os.path.join(repo, "evdns.c")).read()
    pat = "unsigned char buf[1024 * 64];"
    assert src.count(pat) == 1, "evdns.c: formatter buffer declaration not found exactly once"
    out = src.replace(pat, "unsigned char buf[C35_FMTBUF]; /* verif: scaled, was 1024 * 64 */")
    d = os.path.join(_VERIF, ".work", "C35gen"); os.makedirs(d, exist_ok=True)
    p = os.path.join(d, "evdns_fmtbuf_%s.c" % re.sub(r"[^A-Za-z0-9]", "_", repo))
    if not os.path.exists(p) or open(p).read() != out:
        open(p, "w").write(out)
    return p

def fmt(name, N, R, Q=1, D=4, sec=1, extra=(), **kw):
    nn = Q + 2 * R
    d = dict(name=name, harness="C35_response.c", entry="harness_format",
             defines=["C35_N=%d" % N, "C35_R=%d" % R, "C35_Q=%d" % Q, "C35_D=%d" % D, "C35_FIXLEN", "C35_SECMODE=%d" % sec,
                      "C35_EVDNS_SRC=\"%s\"" % gen_scaled_source(), "C35_FMTBUF=%d" % kw.pop("fmtbuf", 64)] + list(extra),
             unwind=max(4, R + 1),
             unwindset=["strcmp.0:%d" % (N + 2), "strlen.0:%d" % (N + 2), "strchr.0:%d" % (N + 2), "dnslabel_table_get_pos.0:%d" % (nn + 1), "dnslabel_clear.0:%d" % (nn + 1),
                        "dnsname_to_labels.1:3", "vp_memcpy.0:%d" % 66, "dnsref_name.0:%d" % (N + 1), "dnsref_name.1:%d" % (N + 6), "vp_bytes.0:%d" % (max(N, D) + 1),
                        "harness_format.0:%d" % (R + 1), "harness_format.1:%d" % (D + 1), "harness_format.2:%d" % (R + 1), "c35_same_name.0:%d" % (N + 1), "c35_name.0:%d" % (N + 1),
                        "server_request_free_answers.0:4", "server_request_free_answers.1:%d" % (R + 1), "evdns_server_request_add_reply.0:%d" % (R + 1),
                        "evdns_server_request_format_response.6:%d" % (Q + 1), "evdns_server_request_format_response.20:4", "evdns_server_request_format_response.19:%d" % (R + 1)],
             timeout=900, mem_gb=8,
             desc="format_response: %d question, %d records, names <= %d bytes, raw data <= %d" % (Q, R, N, D))
    d.update(kw); return d

def labels(name, N, T, B=24, J0=10, excl=False, **kw):
    nl = (N + 1) // 2 + 1
    d = dict(name=name, harness="C35_response.c", entry="harness_labels",
             defines=["C35_N=%d" % N, "C35_T=%d" % T, "C35_B=%d" % B, "C35_J0=%d" % J0] + (["C35_KF_EXCLUDE_TERM"] if excl else []),
             unwind=2,
             unwindset=["harness_labels.0:%d" % (B + 1), "harness_labels.1:%d" % (T + 1), "harness_labels.2:%d" % (B + 1), "harness_labels.3:%d" % (T + nl + 1),
                        "vp_bytes.0:%d" % (B + 1), "dnsref_name.0:%d" % (N + 1), "dnsref_name.1:%d" % (N + 6), "dnsref_name_encodable.0:%d" % (N + 1),
                        "strlen.0:%d" % (N + 2), "strcmp.0:%d" % (N + 2), "strchr.0:%d" % (N + 2), "vp_memcpy.0:%d" % (N + 2), "c35_same_name.0:%d" % (N + 1),
                        "dnslabel_table_get_pos.0:%d" % (T + nl + 1), "dnslabel_clear.0:%d" % (T + nl + 1), "dnsname_to_labels.1:%d" % (nl + 1)],
             timeout=900, mem_gb=8,
             desc="dnsname_to_labels step under an arbitrary valid compression table (<= %d entries, message prefix <= %d symbolic bytes, buffer %d, symbolic buf_len), every encodable name <= %d bytes" % (T, J0, B, N))
    d.update(kw); return d

def far(name, N, **kw):
    nl = (N + 1) // 2 + 1
    d = dict(name=name, harness="C35_response.c", entry="harness_ptr14", defines=["C35_N=%d" % N], unwind=2,
             unwindset=["vp_bytes.0:%d" % (N + 5), "dnsref_name.0:%d" % (N + 1), "dnsref_name.1:%d" % (N + 6), "dnsref_name_encodable.0:%d" % (N + 1),
                        "strlen.0:%d" % (N + 2), "strcmp.0:%d" % (N + 2), "strchr.0:%d" % (N + 2), "vp_memcpy.0:%d" % (N + 2), "c35_same_name.0:%d" % (N + 1),
                        "dnslabel_table_get_pos.0:%d" % (2 * nl + 1), "dnslabel_clear.0:%d" % (2 * nl + 1), "dnsname_to_labels.1:%d" % (nl + 1)],
             timeout=900, mem_gb=8,
             desc="suffix registered via dnslabel_table_add at a symbolic offset 0..65535, same name (<= %d bytes) encoded again: an emitted pointer denotes that offset (14-bit pointer range)" % N)
    d.update(kw); return d

def fmtc(name, R, D=4, sec=1, **kw):
    """reduced formatter obligation: concrete one-letter distinct names, raw records of concrete length, symbolic bytes/ids/flags/ttl, size limit symbolic
    in [full-2, full+2]; formatter compiled from the driver's copy of evdns.c whose 64 KiB stack buffer is scaled to 96 bytes"""
    full = 12 + 7 + R * (13 + D)
    d = dict(name=name, harness="C35_response.c", entry="harness_format",
             defines=["C35_N=1", "C35_R=%d" % R, "C35_Q=1", "C35_D=%d" % D, "C35_CONCRETE", "C35_SECMODE=%d" % sec,
                      "C35_EVDNS_SRC=\"%s\"" % gen_scaled_source(), "C35_FMTBUF=96"],
             unwind=max(5, R + 2, D + 2), unwindset=["vp_memcpy.0:%d" % (full + 4), "vp_bytes.0:%d" % (D + 2), "harness_format.1:%d" % (D + 2)],
             timeout=600, mem_gb=4,
             desc="format_response, 1 question + %d raw record(s) of %d bytes (concrete names, sections mode %d), size limit symbolic around the complete length %d: "
                  "header/flags/counts/order/rdata decode back, TC iff complete length > limit, cut to the limit" % (R, D, sec, full))
    d.update(kw); return d

def kf_open(kid):
    import json
    try:
        kf = json.load(open(os.path.join(_VERIF, "known_findings.json")))
        return any(k.get("id") == kid and k.get("status") == "open" for k in kf.get("findings", []))
    except Exception:
        return False

def trunc_counts():
    d = fmtc("fmt_trunc_counts", 1)
    d["defines"] = d["defines"] + ["C35_STRICT_TRUNC_COUNTS"]
    d["expect_fail"] = ["truncated response announces (header counts) records that are not completely present"]
    d["known_finding"] = "KF-C35-trunc-counts"
    d["desc"] = "as fmt_limit_r1, and a truncated response must not announce records that are cut off (known finding: counts are left unchanged)"
    return [d] if kf_open("KF-C35-trunc-counts") else []

def obligations(tier):
    return _obligations(tier) + trunc_counts()

def _obligations(tier):
    # the general harness_format (fmt(...), symbolic names) does not finish; see OUT
    if tier == "quick":
        return [labels("labels_wf_n3_t1", 3, 1, B=16, J0=6, excl=True), labels("labels_all_n3_t1", 3, 1, B=16, J0=6), far("ptr14_n3", 3),
                fmtc("fmt_limit_r1", 1), fmtc("fmt_limit_r2", 2, D=3), fmtc("fmt_limit_r3_rev", 3, D=2, sec=2)]
    return [labels("labels_wf_n4_t2", 4, 2, B=20, J0=8, excl=True, timeout=2400, mem_gb=12), labels("labels_all_n4_t2", 4, 2, B=20, J0=8, timeout=2400, mem_gb=12),
            labels("labels_wf_n3_t1", 3, 1, B=16, J0=6, excl=True), labels("labels_all_n3_t1", 3, 1, B=16, J0=6), far("ptr14_n5", 5),
            fmtc("fmt_limit_r1", 1), fmtc("fmt_limit_r2", 2, D=3), fmtc("fmt_limit_r3_rev", 3, D=2, sec=2), fmtc("fmt_limit_r3_d8", 3, D=8, sec=1)]
