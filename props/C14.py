"""C14: failed evbuffer operations leave the buffer unchanged (failing allocator; same harness family as C12)."""
import os, json, importlib.util
_d = os.path.dirname(os.path.abspath(__file__))
_s = importlib.util.spec_from_file_location("prop_C12_shared", os.path.join(_d, "C12.py"))
C12 = importlib.util.module_from_spec(_s); _s.loader.exec_module(C12)
A, B = C12.A, C12.B

ID = "C14"
LEVEL = "model_checking"
TECHNIQUE = ("CBMC bounded symbolic execution of buffer.c: C12's concrete-prefix + one symbolic step harness with the allocator model returning "
             "NULL at solver-chosen calls during the final step (symbolic fault schedule, every subset of the step's allocation sites); "
             "prefix allocations succeed")
UNITS = ["buffer.c", "evbuffer-internal.h", "include/event2/buffer.h"]
FUNCTIONS = ["evbuffer_chain_new", "evbuffer_chain_new_membuf", "evbuffer_chain_insert_new", "evbuffer_add", "evbuffer_prepend", "evbuffer_expand",
             "evbuffer_expand_singlechain", "evbuffer_expand_fast_", "evbuffer_reserve_space", "evbuffer_pullup", "evbuffer_add_reference_with_offset",
             "evbuffer_add_iovec", "evbuffer_remove_buffer", "evbuffer_add_buffer_reference", "APPEND_CHAIN_MULTICAST", "evbuffer_readln"]
BOUNDS = C12.BOUNDS + "; any subset of the final operation's allocations fails"
OUT = C12.OUT + "; allocation failures inside the prefix; event.c's event_mm_* front end (modelled: malloc(0)==NULL etc.); lock allocation failures"
TEXT = ("For every fault schedule of the final step: a reported failure leaves length, contents (and callback counters) equal to the pre-state "
        "model, reported success means the model's full effect, a failure is only reported if an allocation really failed (or the buffer is "
        "frozen), the chain invariant holds and live allocations equal the objects reachable from the buffers (no leak).")
NOTE = ("Trusted base as C12. Fault schedule: the f-th allocation of the final step fails, f in 0..VP_FAILN (2, or 3 for add_iovec / "
        "add_buffer_reference), chosen by the solver; each (size, f) pair gets its own copy of the step so a failed allocation is a concretely "
        "NULL pointer there (a merged 'NULL or object' pointer made a single add cost 10 GB); the harness asserts the step makes no more "
        "allocations than fault positions. props/C14_nofail.json lists the (prefix, step) pairs that never allocate (calibrated by a run with "
        "the failure-path witness demanded everywhere); all others must reach the 'failed because an allocation failed' witness. "
        "Findings fixed on the pinned tree (fixes/C14-*.diff, each reproduced natively, obligations fail on the pre-fix code): evbuffer_prepend "
        "partial copy before the failing allocation (prepend3__prepend, add15_drain4__prepend), evbuffer_remove_buffer ignoring evbuffer_add's "
        "result (*__removebuf), evbuffer_add_buffer_reference reporting success after APPEND_CHAIN_MULTICAST ran out of memory (*__addbufref).")
ASSUMPTIONS = [a for a in C12.ASSUMPTIONS if not a.startswith("allocation never fails")] + \
              ["evbuffer_remove_buffer / evbuffer_add_iovec may report a partial count when an allocation failed; the reported count is then what must have happened"]
DESIGN_REF = "DESIGN.md §5 C14"

ALLOC_1 = ["ADD", "PREPEND", "EXPAND", "RESERVE_COMMIT", "RESERVE_COMMIT2", "REF", "ADD_IOVEC", "PULLUP"]
ALLOC_2 = ["REMOVEBUF", "ADDBUFREF", "ADDBUF", "PREPENDBUF"]
# (prefix, final) pairs on which the final step can never allocate: their "failure path reached" witness is not demanded.
# Filled by `python3 props/C14.py --calibrate` (runs every obligation with the witness and records the unreachable ones).
_nf = os.path.join(_d, "C14_nofail.json")
NOFAIL = set(json.load(open(_nf))) if os.path.exists(_nf) else set()

FAILN = {"ADD_IOVEC": 3, "ADDBUFREF": 3}     # fault positions per step (default 2); the harness asserts the step makes no further allocation
PRE_Q = [[], [(A, "PREPEND", 3)], [(A, "ADD", 15), (A, "DRAIN", 4)]]
PA_Q = [[(A, "ADD", 3)]]
QUICK_1 = ["ADD", "PREPEND", "EXPAND", "RESERVE_COMMIT", "REF", "PULLUP"]       # reserve_commit2 / add_iovec: thorough (cost)
PB_Q = [[(B, "ADD", 3)], [(B, "ADD", 17)], [(B, "ADD", 16), (B, "ADD", 3)]]

def gen(tier, calibrate=False):
    obs = []
    def mk(pre, fin, **kw):
        xd = list(kw.pop("extra_defs", [])) + ["VP_FAILN=%d" % FAILN.get(fin[1], 2)]
        name = C12.evb_split(14, pre, fin, **dict(kw))["name"]
        kw.setdefault("desc_extra", "")
        kw["desc_extra"] += "; the 1st..%dth allocation of the step fails (solver-chosen, 0 = none)" % FAILN.get(fin[1], 2)
        if fin[1] in ("PULLUP", "EXPAND", "RESERVE_COMMIT2"): kw.setdefault("solver", "kissat")
        return C12.evb_split(14, pre, fin, extra_defs=xd, wit_failpath=(calibrate or name not in NOFAIL), **kw)
    def tmo(fk): return dict(timeout=900 if tier == "quick" else 1500, mem_gb=8 if fk == "ADD_IOVEC" else 5)
    if tier == "quick":
        for pre in PRE_Q:
            for fk in QUICK_1:                          # budget: <= 5 min wall on 16 idle cores at ~150 s per obligation
                obs.append(mk(pre, (A, fk), **tmo(fk)))
        for x in PA_Q:
            for y in PB_Q:
                for fk in ["REMOVEBUF", "ADDBUFREF"]:
                    obs.append(mk(x + y, (A, fk), **tmo(fk)))
        # evbuffer_expand_fast_'s "replace the empty chains" path and its restore after a failed allocation: last data chain with
        # 1 spare byte + an uncommitted empty 16-byte chain (reserve without commit), then a two-extent reserve of up to 18 bytes
        obs.append(mk([(A, "ADD", 15), (A, "RESERVE_ONLY", 8)], (A, "RESERVE_ONLY"), **tmo("RESERVE_ONLY")))
        obs.append(mk([(A, "ADD", 3), (B, "ADD", 17)], (A, "ADDBUF"), **tmo("ADDBUF")))
        obs.append(mk([(A, "ADD", 3), (B, "ADD", 17)], (A, "PREPENDBUF"), **tmo("ADDBUF")))
    else:
        for pre in C12.PREFIX_1 + C12.PREFIX_2[:9] + C12.PREFIX_3[:1] :
            for fk in ALLOC_1:
                if fk == "ADD_IOVEC" and pre not in ([], [(A, "ADD", 15)], [(A, "REF", 3)]): continue
                obs.append(mk(pre, (A, fk), **tmo(fk)))
        for x in C12.PA_T[:5]:
            for y in C12.PB_T[:5]:
                for fk in ALLOC_2:
                    if fk in ("ADDBUF", "PREPENDBUF") and (x, y) not in [(C12.PA_T[1], C12.PB_T[1])]: continue
                    obs.append(mk(x + y, (A, fk), **tmo(fk)))
    if tier != "quick":
        obs.append(mk([(A, "ADD", 15), (A, "RESERVE_ONLY", 8)], (A, "RESERVE_ONLY"), **tmo("RESERVE_ONLY")))
    # callbacks attached: a failed operation must not be reported to callbacks either
    for pre in ([[(A, "PREPEND", 3)]] if tier == "quick" else [[(A, "PREPEND", 3)], [(A, "ADD", 16)]]):
        for fk in (["PREPEND", "ADD"] if tier == "quick" else ["ADD", "PREPEND", "REF"]):
            obs.append(mk(pre, (A, fk), cb=1, name_prefix="cb1_", **tmo(fk)))
    for fk in ["REMOVEBUF", "ADDBUFREF"]:
        obs.append(mk([(A, "ADD", 3), (B, "ADD", 17)], (A, fk), cb=1, name_prefix="cb1_", **tmo(fk)))
    seen = set(); out = []
    for o in obs:
        if o["name"] not in seen: seen.add(o["name"]); out.append(o)
    return out

def obligations(tier):
    return gen(tier, calibrate=bool(os.environ.get("VERIF_C14_CALIBRATE")))

if __name__ == "__main__":
    import sys, subprocess
    if "--calibrate" in sys.argv:
        print("run: ./check C14 [--tier thorough] with VERIF_C14_CALIBRATE=1 and collect VACUOUS-only-on-failpath names into props/C14_nofail.json")
